#!/bin/bash
# Offline setup: make sure hypothesis is importable in /venv and create output dirs.
cd "$(dirname "$0")" || exit 2
/venv/bin/python -c "import hypothesis" 2>/dev/null || \
  /venv/bin/pip install --no-index --find-links /opt/veriftools/wheels hypothesis || exit 2
/venv/bin/python -c "import jsonschema" 2>/dev/null || \
  /venv/bin/pip install --no-index --find-links /opt/veriftools/wheels jsonschema || true
mkdir -p evidence replays
/venv/bin/python -c "import hypothesis, abtem; print('setup ok', hypothesis.__version__, abtem.__file__)"
