#!/bin/bash
# usage: tools/mkscratch.sh <name> [patch.diff ...]
# Creates /tmp/abtem-dev-<name>: a copy of /repo's working tree (no .git) with the given
# patches applied; use with VERIF_REPO=/tmp/abtem-dev-<name> ./run.sh <id> quick
set -eu
D=/tmp/abtem-dev-$1; shift; ARGS=(); for P in "$@"; do ARGS+=("$(readlink -f "$P")"); done; set -- "${ARGS[@]}"
rm -rf "$D"; mkdir -p "$D"
rsync -a --exclude .git --exclude '*.pyc' --exclude __pycache__ /repo/ "$D/"
for P in "$@"; do ( cd "$D" && patch -p1 -s < "$(readlink -f "$P")" ); done
echo "$D"
