#!/usr/bin/env python3
"""Build known_findings.json from (a) the open proposals in known_findings.d/*.json and
(b) the table of fix: commits below.  Run by hand when either changes; the checks only
read the result."""
import json, glob, subprocess
from pathlib import Path
root = Path(__file__).resolve().parent.parent
FIXED = [
 # (properties, commit subject prefix to look up, what failed)
 ("C01 C02 C07", "reset the incident wave", "eager multislice through >=2 frozen-phonon configurations started configuration k from the exit wave of k-1"),
 ("C01 C02", "size the blockwise packing array", "lazy FrozenPhonons + >=2 exit planes + a detector dropping base axes raised IndexError in dask"),
 ("C07 C02", "honour a single non-final exit plane", "one-configuration ensemble with a single non-final exit plane was detected after the last slice"),
 ("C06", "normalise PRISM CTF coefficients", "SMatrix.reduce with any aberration gave probes with the wrong norm (complex array**2)"),
 ("C06 C32", "PRISM reduction no longer rewrites AnnularDetector", "SMatrix.reduce set the caller's AnnularDetector(outer=None).outer to the un-floored cutoff: different range than Probe.multislice and a mutated detector"),
 ("C12", "FlexibleAnnularDetector integrates only", "FlexibleAnnularDetector bins wider than the step its axis metadata states when the span is not a whole multiple of the step (incl. outer=None)"),
 ("C12 C03", "AnnularDetector strips as many ensemble axes", "AnnularDetector on waves with a LineScan axis and a further ensemble axis raised / wrong lazy shape"),
 ("C12", "expose the offset of radial detectors", "SegmentedDetector.detect on lazy waves raised AttributeError (no offset property)"),
 ("C13 C12", "PolarMeasurements.integrate uses azimuthal", "PolarMeasurements.integrate: azimuthal indices from the radial sampling without offset; radial limits such as 0.3/0.1 truncated to the bin below"),
 ("C15 C38", "pass the requested axes to FFTW plans", "fftn/ifftn under fft=fftw ignored the axes argument (1D arrays raised, N-D with batch axes transformed the wrong axes)"),
 ("C15", "fold the aliased Nyquist coefficient", "real input of even size: Fourier up-sampling then down-sampling halved the Nyquist term"),
 ("C14 C40", "coordinates of diffraction patterns stored without fftshift", "coordinates / angular_coordinates of fftshift=False patterns were wrong (center_of_mass, block_direct, bandlimit)"),
 ("C16", "DiffractionPatterns.interpolate(gpts=...)", "DiffractionPatterns.interpolate(gpts=...) raised TypeError"),
 ("C16", "periodic boundary for lazy gaussian_source_size", "lazy gaussian_source_size with chunked scan axes differed from eager (no periodic boundary in map_overlap)"),
 ("C23 C03 C05", "hard aperture broadcasts a distribution", "Aperture/CTF/Probe with soft=False and a distribution of cutoffs raised or mis-broadcast"),
 ("C05 C03", "Probe applies tilt after aberrations", "Probe with tilt and aberration ensembles: array axes (aberrations, tilt) under metadata (tilt, aberrations)"),
 ("C38", "fftn/ifftn under the fftw backend default to all axes", "fftn(x) without axes transformed only the last two axes under fftw"),
 ("C29", "scalar / array_object divides", "2 / obj returned obj / 2 (__rtruediv__ aliased to __truediv__)"),
 ("C29", "expand_dims inserts axis metadata in ascending", "expand_dims with unsorted axes misplaced the new axis metadata"),
 ("C29", "accept a bare numpy integer as index", "obj[np.int64(0)] raised NotImplementedError"),
 ("C29", "reductions with keepdims=True over an ordinal axis", "sum/mean/... with keepdims=True over an ordinal axis raised RuntimeError"),
 ("C35", "rebuild axis metadata classes defined outside core.axes", "PlasmonAxis could not be rebuilt from its own dict (KeyError in axis_from_dict)"),
 ("C33", "unit conversion factors take the old units", "get_conversion_factor ignored old_units; rad/deg factors inverted; '1/Angstrom' KeyError"),
 ("C36", "a Gaussian distribution with a single sample", "gaussian(num_samples=1) put its sample at centre - limit*sigma"),
 ("C36", "weights of a multidimensional distribution", "MultidimensionalDistribution.weights for >=3 dimensions had shape (n1*n2, n3)"),
 ("C26", "return a writable copy of re-indexed structure factor", "every Bloch-wave calculation raised under pandas >= 3 (read-only array)"),
 ("C26", "size the reciprocal hkl grid from the cell vector lengths", "oblique (hexagonal) cells: incomplete reflection set, ravel_hkl raised"),
 ("C26", "a 1D array of angles about a single axis", "BlochwaveEnsemble with an array of angles about one axis raised under SciPy >= 1.17"),
 ("C26", "eager BlochwaveEnsemble writes each orientation", "eager BlochwaveEnsemble with >=2 orientations wrote every member's result into all members"),
 ("C26", "keep reflections on the cutoff sphere", "BlochWaves on a rotated crystal with a beam exactly on the g_max sphere raised KeyError in retrieve_structure_factor_values (difference vector 2g dropped from the structure-factor set by rounding; found by the thorough tier, seed 2)"),
 ("C27", "reflection conditions for A, B and C centring", "centering='A'/'B'/'C' raised AxisError"),
 ("C27", "conventional centring translations", "auto-detected centring used (1/2,0,0)-type translations for A/B/C and dropped allowed reflections of e.g. a doubled supercell"),
 ("C28", "explicit ptychography scan positions", "J explicit scan positions were meshgridded into J**2 positions"),
 ("C19", "partitioned NoiseTransform blocks", "NoiseTransform(samples>=2) partitioned into blocks smaller than samples raised AssertionError"),
 ("C32", "orthogonalize_cell works on a copy", "orthogonalize_cell wrapped/translated/re-celled the caller's atoms"),
 ("C32", "Potential does not wrap atoms owned by the caller", "Potential(AtomsEnsemble([...])) / Potential([a, b]) wrapped the caller's atoms"),
 ("C32", "element-wise measurement methods do not write", "real/imag/phase/abs/intensity wrote label and units into the receiver's metadata"),
 ("C10", "eager build of an ensemble potential", "eager build() of an ensemble potential wrote every configuration to index 0"),
 ("C10", "CrystalPotential.generate_slices honours", "CrystalPotential.generate_slices ignored the slice window"),
 ("C10", "lazy build of a slice window", "lazy build(first_slice, last_slice) declared the chunks of the full slice range"),
 ("C11", "integrator caches are valid only for the grid", "re-building a Potential after changing its grid reused integrator caches keyed by symbol only"),
 ("C09", "size-one ndarray slice thickness", "slice_thickness given as a size-1 ndarray raised TypeError"),
 ("C08", "tiny-negative x/y", "atoms with tiny-negative x/y were wrapped to exactly the cell length and dropped"),
 ("C01", "count only array blocks when sizing", "lazy run through a potential without ensemble axes (CrystalPotential) iterated the potential inside np.ndim and raised (follow-up of the packing fix)"),
 ("C06 C01", "eager PRISM reduction keeps exit waves", "eager SMatrix.reduce/scan through an ensemble_mean potential averaged the complex exit waves of a WavesDetector; lazy and Probe.multislice keep one wave per configuration"),
 ("C08", "disk of finite projection integrals", "finite projection: potential disk one pixel too small for atoms not on a pixel centre"),
]
log = subprocess.run(["git", "-C", "/repo", "log", "--format=%h %s"], capture_output=True, text=True).stdout.splitlines()
findings = []
for f in sorted(glob.glob(str(root / "known_findings.d" / "*.json"))):
    findings.extend(json.loads(Path(f).read_text()).get("findings", []))
existing = root / "known_findings.json"
if existing.exists():
    for e in json.loads(existing.read_text())["findings"]:
        if e.get("status") == "open" and not any(e["property"] == x["property"] and e["claim"] == x["claim"] and e["bucket"] == x["bucket"] for x in findings):
            findings.append(e)
fixed = []
missing = []
for props, key, what in FIXED:
    hit = [l for l in log if l.split(" ", 1)[1].startswith("fix:") and key in l]
    if not hit:
        missing.append(key)
        continue
    commit = hit[0].split()[0]
    p0 = props.split()[0]
    fixed.append({"property": p0, "also": props.split()[1:], "status": "fixed", "commit": commit,
                  "what": f"fixed: property={p0} {commit} {what}", "replays": f"replays/{p0}/"})
out = {"_format": "status=open: suppresses exactly (property, claim, bucket) - a trailing '*' matches any suffix - and is printed as KNOWN-FINDING while its replay still fails. status=fixed: suppresses nothing; the replays of the property are plain regressions. Never written at run time.",
       "findings": findings + fixed}
existing.write_text(json.dumps(out, indent=1) + "\n")
print(f"open={len(findings)} fixed={len(fixed)} not-yet-committed={missing}")
