#!/bin/bash
# Runs the pinned test suite of /repo (guard off) and compares with BASELINE.json's stable_pass list.
# usage: tools/baseline_check.sh [repo_dir]   -> prints missing passes; exit 0 iff all 509 stable tests pass
R=${1:-/repo}
OUT=/tmp/baseline-$$.xml
MARK=$(mktemp /tmp/baseline-mark-XXXXXX)
( cd "$R" && env -u ABTEM_VERIF PYTHONPATH="$R" /venv/bin/python -m pytest -ra -q -p no:cacheprovider --timeout=900 --continue-on-collection-errors -n ${NPROC:-8} --junitxml=$OUT >/tmp/baseline-$$.log 2>&1 )
/venv/bin/python - "$OUT" <<'PY'
import json, sys, xml.etree.ElementTree as ET
base = json.load(open('/root/.vp/BASELINE.json'))
stable = set(base['stable_pass'])
t = ET.parse(sys.argv[1]).getroot()
passed = set()
for tc in t.iter('testcase'):
    name = f"{tc.get('classname')}::{tc.get('name')}"
    if not any(ch.tag in ('failure', 'error', 'skipped') for ch in tc):
        passed.add(name)
missing = sorted(stable - passed)
print(f"stable={len(stable)} passed_now={len(passed)} stable_missing={len(missing)}")
for m in missing[:40]:
    print("  MISSING", m)
sys.exit(1 if missing else 0)
PY
RC=$?
rm -f $OUT
# the suite's own strategies leave abtem-test-<uuid>.zarr[.zip] stores in the temp dir
find /tmp -maxdepth 1 -name "abtem-test-*" -newer "$MARK" -exec rm -rf {} + 2>/dev/null
rm -f "$MARK"
exit $RC
