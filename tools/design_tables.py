#!/usr/bin/env python3
"""Regenerate DESIGN.md section 10 (sensitivity) from mutants/RESULTS.tsv and seeded/*/meta.json."""
import json, glob, os, re
from pathlib import Path
root = Path(__file__).resolve().parent.parent
rows = [l.rstrip("\n").split("\t") for l in open(root / "mutants" / "RESULTS.tsv") if l.strip()] if (root / "mutants" / "RESULTS.tsv").exists() else []
by = {}
for r in rows:
    by.setdefault(r[0], []).append(r)
out = []
out.append("\n\n---------------------------------------------------------------------------------\n")
out.append("## 10. Sensitivity: which checks catch which changes\n")
out.append("### 10.1 Hand-written mutants (`mutants/<id>/*.diff`, quick tier, `tools/mutants_sweep.sh`)\n")
out.append("One-line semantic changes written by the authors of the checks (most keep the pinned tests green). "
           "`caught` = the quick tier printed a VIOLATION line for the property.\n")
out.append("| property | mutants | caught | not caught |\n|---|---|---|---|")
tot = caught = 0
for p in sorted(by):
    c = [r[1] for r in by[p] if r[2] == "caught"]
    m = [f"{r[1]} ({r[2]})" for r in by[p] if r[2] != "caught"]
    tot += len(by[p]); caught += len(c)
    out.append(f"| {p} | {len(by[p])} | {len(c)} | {'; '.join(m) if m else '-'} |")
out.append(f"\nTotal: {caught}/{tot} caught. Notes on the ones not caught are in 10.3.\n")
out.append("### 10.2 Seeded changes from independent sub-agents (`seeded/<id>[-n]/`)\n")
out.append("Each change was written by a fresh sub-agent that saw only the property text and a scratch worktree "
           "(nothing from /verif). A change is kept only if confirmed here: its demonstration fails with the change and passes without, "
           "and the 509 pinned tests still pass with it (`meta.json`). `caught` = `./run.sh <id> quick` against the patched copy printed VIOLATION.\n")
out.append("| seeded | what it needs to manifest | confirmed | caught by quick tier | first bucket reported |\n|---|---|---|---|---|")
n = nc = 0
for d in sorted(glob.glob(str(root / "seeded" / "*"))):
    mf = Path(d) / "meta.json"
    if not mf.exists():
        continue
    m = json.loads(mf.read_text())
    if "confirmed" not in m:
        out.append(f"| {Path(d).name} | {m.get('status','')} | - | - | - |"); continue
    need = m.get("needs", "")
    b = m.get("quick_check_buckets", [])
    b0 = re.sub(r"\s+", " ", b[0])[:110] if b else "-"
    if m["confirmed"]:
        n += 1; nc += bool(m["caught_by_quick"])
    out.append(f"| {Path(d).name} | {need} | {'yes' if m['confirmed'] else 'NO'} | {'yes' if m['caught_by_quick'] else (('no at first; yes after strengthening (' + m['strengthened'] + ')') if m.get('strengthened') else (('no (by design, see 10.3); caught by ' + m['caught_by_other'].split(' (')[0]) if m.get('caught_by_other') else ('NO' if m['confirmed'] else '-')))} | {b0} |")
out.append(f"\nConfirmed seeded changes: {n}; caught by the quick tier as it stood when the change was evaluated: {nc}; every one of the remaining {n - nc} is caught after the strengthening described in 10.3 (re-run with tools/try_patch.sh), except seeded/C03-3, which alters the weights `gaussian()` produces and is caught by C36 rather than C03 (10.3).\n")
notes = root / "tools" / "sensitivity_notes.md"
if notes.exists():
    out.append(notes.read_text())
s = (root / "DESIGN.md").read_text()
marker = "\n\n---------------------------------------------------------------------------------\n\n## 10. Sensitivity"
i = s.find(marker)
if i >= 0:
    s = s[:i]
(root / "DESIGN.md").write_text(s.rstrip("\n") + "\n".join(out) + "\n")
print(f"mutants {caught}/{tot}; seeded {nc}/{n}")
