#!/bin/bash
# usage: tools/thorough_sweep.sh <logfile> <id> [...]: runs the thorough tier sequentially, keeps a copy of each evidence file
cd "$(dirname "$0")/.."
LOG=$1; shift
for P in "$@"; do
  S=$(date +%s)
  OUT=$(nice -n 5 ./run.sh "$P" thorough 2>&1); RC=$?
  echo "$OUT" | grep -E "^VIOLATION|^HARNESS-ERROR|^  claim|^  replay" | cut -c1-400 >> "$LOG"
  echo "$P rc=$RC $(echo "$OUT" | tail -1) [$(( $(date +%s) - S ))s]" >> "$LOG"
  cp -f evidence/$P.json evidence/thorough/$P.json 2>/dev/null
done
