#!/usr/bin/env python3
"""Regenerate DESIGN.md section 11 (claims as built) from the claim registry and the evidence files."""
import json, sys, os
from pathlib import Path
root = Path(__file__).resolve().parent.parent
sys.path.insert(0, str(root)); sys.path.insert(0, "/repo")
from pbt import core
props = [json.loads(l) for l in open(root / "properties.jsonl") if l.strip()]
out = ["\n\n---------------------------------------------------------------------------------\n",
       "## 11. Claims as built (generated from the registry and the last evidence files)\n",
       "Per claim: generated examples per tier (quick / thorough), tolerance mode, non-triviality rule. "
       "`eval` / `nontrivial` are the measured numbers of the last quick run recorded in `evidence/<id>.json`; "
       "`evidence/thorough/<id>.json` keeps the last thorough run.\n"]
for p in props:
    pid = p["id"]
    try:
        claims = core.load_property(pid)
    except Exception as e:
        out.append(f"### {pid} - not loadable: {e}\n"); continue
    ev = {}
    f = root / "evidence" / f"{pid}.json"
    if f.exists():
        ev = json.loads(f.read_text())["coverage"].get("claims", {})
    tv = {}
    f2 = root / "evidence" / "thorough" / f"{pid}.json"
    if f2.exists():
        d = json.loads(f2.read_text()); tv = d["coverage"]; tw = d["wall_s"]
    out.append(f"### {pid} {p['title']}\n")
    if tv:
        out.append(f"Last thorough run: {tv['evaluations']} evaluations, {tv['distinct_nontrivial']} distinct non-trivial, {tw:.0f} s wall on 16 cores.\n")
    out.append("| claim | quick / thorough examples | tolerance | non-trivial when | last quick: eval / nontrivial |\n|---|---|---|---|---|")
    for n, c in claims.items():
        e = ev.get(n, {})
        out.append(f"| `{n}` | {c.quick} / {c.thorough} | {c.tol} | {c.rule} | {e.get('evaluations','-')} / {e.get('distinct_nontrivial','-')} |")
    out.append("")
s = (root / "DESIGN.md").read_text()
marker = "\n\n---------------------------------------------------------------------------------\n\n## 11. Claims as built"
i = s.find(marker)
if i >= 0:
    s = s[:i]
(root / "DESIGN.md").write_text(s.rstrip("\n") + "\n".join(out) + "\n")
print("section 11 written")
