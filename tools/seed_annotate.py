#!/usr/bin/env python3
"""Merge tools/seed_needs_<wave>.json (what each seeded change does / needs) into seeded/<dir>/meta.json."""
import json, sys
from pathlib import Path
root = Path(__file__).resolve().parent.parent
wave, suffix = sys.argv[1], (sys.argv[2] if len(sys.argv) > 2 else "")
needs = json.loads((root / "tools" / f"seed_needs_{wave}.json").read_text())
for pid, (what, need) in needs.items():
    mf = root / "seeded" / f"{pid}{suffix}" / "meta.json"
    if not mf.exists():
        continue
    m = json.loads(mf.read_text())
    m["breaks_property"] = pid
    m["change"] = what
    m["needs"] = need
    m["origin"] = f"fresh sub-agent, wave {wave}: given only the property text and a scratch worktree"
    mf.write_text(json.dumps(m, indent=1))
print("annotated")
