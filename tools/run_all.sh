#!/bin/bash
# usage: tools/run_all.sh <tier> <id> [<id> ...]   -> one summary line per property (+ VIOLATION/HARNESS lines)
cd "$(dirname "$0")/.."
TIER=$1; shift
for P in "$@"; do
  S=$(date +%s)
  OUT=$(./run.sh "$P" "$TIER" 2>&1); RC=$?
  echo "$OUT" | grep -E "^VIOLATION|^KNOWN-FINDING|^HARNESS-ERROR|^  claim|^  replay" | cut -c1-300
  echo "$P rc=$RC $(echo "$OUT" | tail -1) [$(( $(date +%s) - S ))s]"
done
