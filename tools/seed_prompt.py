#!/usr/bin/env python3
"""Print the prompt for a seeded-change sub-agent for the given property ids and create
its scratch worktrees of /repo under /tmp (one per property).  The agent gets only the
property text and the worktree paths - nothing from /verif.
usage: tools/seed_prompt.py <tag> C07 [C08 ...]"""
import json, subprocess, sys
tag, ids = sys.argv[1], sys.argv[2:]
import os
avoid = json.load(open("/tmp/avoid.json")) if os.path.exists("/tmp/avoid.json") and tag != "w1" else {}
props = {json.loads(l)["id"]: json.loads(l) for l in open("/verif/properties.jsonl") if l.strip()}
parts = []
for pid in ids:
    wt = f"/tmp/seed-{tag}-{pid}"
    subprocess.run(["git", "-C", "/repo", "worktree", "remove", "--force", wt], capture_output=True)
    subprocess.run(["git", "-C", "/repo", "worktree", "add", "--detach", wt, "HEAD"], check=True, capture_output=True)
    p = props[pid]
    parts.append(f"""### Property {pid}: {p['title']}
Statement: {p['statement']}
Quantified over: {p['quantifier']['text']}
Relevant source files: {', '.join(p['anchors']['files'])}
Your scratch git worktree for this property: {wt}   (work ONLY there; python: PYTHONPATH={wt} /venv/bin/python)
{("An earlier, independent change for this property already targeted: " + avoid[pid] + ". Choose a DIFFERENT function and mechanism, and a different clause of the property if it has several.") if pid in avoid else ""}
""")
print(f"""You are helping to evaluate a verification effort for the Python library abTEM (transmission electron microscopy simulation). For each property below, make ONE realistic change to the abTEM source code in the given scratch git worktree that BREAKS the property while the library still imports and the existing test suite still passes, and write a small demonstration program that shows the breakage.

Rules:
- Work only inside the given worktree directories under /tmp. Never touch /repo or /verif (do not even read /verif). The sandbox is offline.
- The change must be a plausible bug a developer could introduce (a refactor slip, a wrong index, a stale cache key, a missing copy, a wrong sign/offset under a particular condition, a forgotten case) - NOT sabotage that ordinary use would expose at once, and not a syntax/crash bug. Prefer changes that need something specific to manifest: a particular parity/size, a multi-step sequence of operations, an unusual but valid input, a particular chunking or ensemble shape, lazy vs eager only, or two cooperating sites that each look fine alone. Keep it small (1-15 changed lines), in the library code under abtem/ only (not tests).
- It must break the property as STATED (read the statement carefully), for inputs a user may legitimately use.
- The existing tests must still pass with your change: run the relevant test files from the worktree, e.g. `cd <worktree> && PYTHONPATH=<worktree> /venv/bin/python -m pytest -q -p no:cacheprovider -x test/test_<area>.py` (tests that already fail without your change do not count; compare against the unchanged tree with `git apply -R change.patch` / `git apply change.patch`; NEVER use git stash - it is shared between worktrees). The machine is heavily loaded, so tests are slow; choose the most relevant 2-4 test files rather than the whole suite (the full suite will be re-run later by someone else; a change that fails it will be discarded).
- Write the demonstration as `<worktree>/demo_<ID>.py`: a self-contained script that exits 0 and prints PASS when the property holds and exits 1 and prints FAIL (with numbers) when it is violated. It must FAIL with your change and PASS on the unchanged code (verify both with `git diff -- abtem > change.patch; git apply -R change.patch; ...; git apply change.patch`; never use git stash). Set `abtem.config.set({{"diagnostics.progress_bar": False, "fftw.planning_effort": "FFTW_ESTIMATE"}})` at the top to keep it fast and quiet.
- Leave the change UNCOMMITTED in the worktree and also save it as `<worktree>/change.patch` (`git diff -- abtem > change.patch`).
- Do not look for existing bugs; the task is to introduce a new one per property.

{''.join(parts)}
Final report, per property: the file/function changed and what the change does (one paragraph), what specific condition is needed for it to manifest, which test files you ran with the change (and that they passed), and the output of the demo with and without the change.""")
