#!/bin/bash
# usage: tools/seed_eval.sh <wave-tag> <id> [...]
# For each id: take /tmp/seed-<tag>-<id>/{change.patch,demo_<id>.py}, store under seeded/<id>/,
# confirm (demo fails with the change / passes without, pinned suite still passes with it),
# then run the registered quick check against it. Writes seeded/<id>/meta.json.
cd "$(dirname "$0")/.."
TAG=$1; shift
for P in "$@"; do
  SRC=/tmp/seed-$TAG-$P
  [ -f "$SRC/change.patch" ] || { echo "$P: no change.patch"; continue; }
  DEST=seeded/$P${DEST_SUFFIX:-}; mkdir -p "$DEST"
  cp "$SRC/change.patch" "$DEST/patch.diff"; cp "$SRC/demo_$P.py" "$DEST/demo_$P.py"
  D=$(mktemp -d /tmp/seedeval-XXXXXX)
  rsync -a --exclude .git --exclude '*.pyc' --exclude __pycache__ --exclude '.hypothesis' /repo/ "$D/"
  if ! ( cd "$D" && patch -p1 -s < "$OLDPWD/$DEST/patch.diff" ); then echo "$P: PATCH FAILED"; echo "{\"property\": \"$P\", \"status\": \"patch does not apply to current HEAD\"}" > $DEST/meta.json; rm -rf "$D"; continue; fi
  find "$D" -name "*.orig" -delete
  # demo with / without
  ( cd "$D" && PYTHONPATH="$D" timeout 1500 /venv/bin/python "$OLDPWD/$DEST/demo_$P.py" > /tmp/seedeval-$P-with.log 2>&1 ); RC_WITH=$?
  ( cd /repo && PYTHONPATH=/repo timeout 1500 /venv/bin/python "$OLDPWD/$DEST/demo_$P.py" > /tmp/seedeval-$P-without.log 2>&1 ); RC_WITHOUT=$?
  # pinned suite with the change
  BASE=$(NPROC=6 tools/baseline_check.sh "$D" 2>&1 | tail -3 | tr '\n' ' ')
  # our quick check
  S=$(date +%s)
  CHK=$(VERIF_REPLAY_OUT="$D/.replays" VERIF_REPO="$D" ./run.sh "$P" quick 2>&1); 
  cp -f evidence/$P.json /tmp/seedeval-$P-evidence.json 2>/dev/null
  NV=$(echo "$CHK" | grep -c "^VIOLATION")
  BUCKETS=$(echo "$CHK" | grep "^  claim" | cut -c1-220 | head -6)
  T=$(( $(date +%s) - S ))
  mkdir -p "$DEST/found"; cp -f "$D"/.replays/$P/*.json "$DEST/found/" 2>/dev/null
  /venv/bin/python - "$P" "$RC_WITH" "$RC_WITHOUT" "$BASE" "$NV" "$T" "$BUCKETS" <<'PY'
import json, sys
p, rcw, rcwo, base, nv, t, buckets = sys.argv[1:8]
meta = {"property": p, "demo_exit_with_change": int(rcw), "demo_exit_without_change": int(rcwo),
        "pinned_suite_with_change": base.strip(), "quick_check_violation_lines": int(nv), "quick_check_seconds": int(t),
        "quick_check_buckets": buckets.splitlines(),
        "confirmed": int(rcw) == 1 and int(rcwo) == 0 and "stable_missing=0" in base,
        "caught_by_quick": int(nv) > 0,
        "ran": ["demo with/without change", "tools/baseline_check.sh (509 pinned tests) on the patched copy", f"./run.sh {p} quick with VERIF_REPO=<patched copy>"]}
json.dump(meta, open(f"seeded/{p}" + __import__("os").environ.get("DEST_SUFFIX","") + "/meta.json", "w"), indent=1)
print(p, "confirmed" if meta["confirmed"] else "NOT-CONFIRMED", "caught" if meta["caught_by_quick"] else "MISSED", f"demo {rcw}/{rcwo}", base.strip()[:60], f"{t}s")
PY
  git checkout -q -- evidence/$P.json 2>/dev/null
  rm -rf "$D"
done
