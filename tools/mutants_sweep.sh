#!/bin/bash
# usage: tools/mutants_sweep.sh <outfile> <id> [<id> ...]  - runs every mutants/<id>/*.diff through the quick tier
cd "$(dirname "$0")/.."
OUT=$1; shift
for P in "$@"; do
  for M in mutants/$P/*.diff; do
    [ -f "$M" ] || continue
    S=$(date +%s)
    R=$(tools/try_patch.sh "$M" quick "$P" 2>&1)
    if echo "$R" | grep -q "PATCH FAILED"; then V="patch-failed";
    elif echo "$R" | grep -q "^VIOLATION"; then V="caught";
    elif echo "$R" | grep -q "HARNESS"; then V="harness-error";
    else V="MISSED"; fi
    echo -e "$P\t$(basename $M)\t$V\t$(( $(date +%s) - S ))s\t$(echo "$R" | grep -c '^VIOLATION') violation lines" >> "$OUT"
  done
done
