#!/bin/bash
# usage: tools/try_patch.sh <patch.diff> <tier> <prop> [<prop> ...]
# Copies /repo's working tree (without .git) to a scratch dir outside /repo and /verif,
# applies the patch there, runs the given checks with VERIF_REPO pointing at the copy,
# and removes the copy. VERIF_BASE=<dir> copies that tree instead of /repo (e.g. a scratch copy with fixes). Evidence files in /verif/evidence are preserved (restored after).
set -u
PATCH=$(readlink -f "$1"); TIER=$2; shift 2
D=$(mktemp -d /tmp/abtem-mut-XXXXXX)
rsync -a --exclude .git --exclude '*.pyc' --exclude __pycache__ "${VERIF_BASE:-/repo}/" "$D/"
( cd "$D" && patch -p1 -s < "$PATCH" ) || { echo "PATCH FAILED"; rm -rf "$D"; exit 3; }
cd "$(dirname "$0")/.."
for P in "$@"; do
  cp -f evidence/$P.json /tmp/.ev-$P-$$.json 2>/dev/null
  VERIF_REPLAY_OUT="$D/.replays" VERIF_REPO="$D" ./run.sh "$P" "$TIER" 2>&1 | grep -E "VIOLATION|KNOWN-FINDING|HARNESS|exit=|bucket" | cut -c1-400
  mv -f /tmp/.ev-$P-$$.json evidence/$P.json 2>/dev/null
  # replays written while testing a mutant go to $D/.replays and vanish with the copy
done
rm -rf "$D"
