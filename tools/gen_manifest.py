#!/usr/bin/env python3
"""Regenerate MANIFEST.json from tools/manifest_src.json (one entry per claimed property)."""
import json, sys
from pathlib import Path
root = Path(__file__).resolve().parent.parent
src = json.loads((root / "tools" / "manifest_src.json").read_text())
props = [json.loads(l) for l in (root / "properties.jsonl").read_text().splitlines() if l.strip()]
ids = [p["id"] for p in props]
checks = []
for pid in ids:
    e = src["checks"].get(pid)
    if not e:
        continue
    checks.append({
        "property_id": pid,
        "quick_cmd": f"./run.sh {pid} quick",
        "thorough_cmd": f"./run.sh {pid} thorough",
        "evidence_file": f"/verif/evidence/{pid}.json",
        "replay_cmd_template": "PYTHONPATH=/repo:/verif /venv/bin/python -m pbt.replay {path}",
        "engine": "pbt",
        "level_claimed": {"category": "exploration", "text": e["text"], "design_ref": f"DESIGN.md section 3 ({pid})"},
        "level_note": e.get("note", src["default_note"]),
        "technique": e.get("technique", "property-based testing (Hypothesis) against an explicit oracle"),
    })
na = [{"property_id": pid, "reason": src["not_applicable"].get(pid, "check not built yet (work in progress); see DESIGN.md section 3")} for pid in ids if pid not in src["checks"]]
m = {
    "version": 1,
    "setup_cmd": "./setup.sh",
    "hooks": src["hooks"],
    "engines": [{"name": "pbt", "path": "/verif/pbt", "serves_properties": [c["property_id"] for c in checks],
                 "kind_free_text": "Hypothesis-driven generated-input search with explicit oracles, bucketed collect-then-shrink loop, JSON replay files"}],
    "checks": checks,
    "notes": src["notes"],
    "not_applicable": na,
}
(root / "MANIFEST.json").write_text(json.dumps(m, indent=1) + "\n")
import jsonschema
jsonschema.validate(m, json.loads(Path("/root/.vp/MANIFEST.schema.json").read_text()))
print("MANIFEST ok:", len(checks), "checks,", len(na), "not_applicable")
