#!/bin/bash
# usage: ./run.sh <property-id> [quick|thorough]     (cwd = /verif)
# Runs the property-based check of one property against the working tree of
# $VERIF_REPO (default /repo).  Exit 0 held / 1 violation / 2 harness error.
cd "$(dirname "$0")" || exit 2
export VERIF_REPO="${VERIF_REPO:-/repo}"
export PYTHONPATH="$VERIF_REPO:$(pwd)${PYTHONPATH:+:$PYTHONPATH}"
export PYTHONHASHSEED=0
export OMP_NUM_THREADS=1 NUMBA_NUM_THREADS=1 MKL_NUM_THREADS=1 OPENBLAS_NUM_THREADS=1
export PYTHONDONTWRITEBYTECODE=1
export ABTEM_VERIF=1
PY=/venv/bin/python
exec "$PY" -m pbt.runner "$1" --tier "${2:-${VERIF_TIER:-quick}}"
