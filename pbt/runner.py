"""CLI: python -m pbt.runner C18 --tier quick|thorough

Exit codes: 0 property held on everything explored (KNOWN-FINDING lines allowed),
1 at least one unlisted violation (a ``VIOLATION property=<id> replay=<path>`` line is
printed for each), 2 harness error (never prints VIOLATION).
"""

from __future__ import annotations

import argparse
import json
import multiprocessing as mp
import os
import sys
import time
from collections import Counter
from pathlib import Path

from pbt import core


def _merge(results: list[dict]) -> dict:
    out = {
        "evaluations": 0,
        "examples_requested": 0,
        "nontrivial": set(),
        "labels": Counter(),
        "skipped": 0,
        "excluded": Counter(),
        "known_seen": Counter(),
        "failures": [],
        "samples": [],
        "harness_errors": [],
        "wall_s": 0.0,
        "seeds": [],
        "tol": "",
    }
    seen_buckets = set()
    for r in results:
        out["evaluations"] += r["evaluations"]
        out["examples_requested"] += r.get("examples_requested", 0)
        out["nontrivial"].update(r["nontrivial_hashes"])
        out["labels"].update(r["labels"])
        out["skipped"] += r["skipped"]
        out["excluded"].update(r["excluded"])
        out["known_seen"].update(r["known_seen"])
        out["wall_s"] += r["wall_s"]
        out["seeds"].append(r["seed"])
        out["tol"] = r.get("tol") or out["tol"]
        for f in r["failures"]:
            key = (f["claim"], tuple(f["bucket"]))
            if key not in seen_buckets:
                seen_buckets.add(key)
                out["failures"].append(f)
        for s in r["samples"]:
            if len(out["samples"]) < 6:
                out["samples"].append(s)
        if r.get("harness_error"):
            out["harness_errors"].append(r["harness_error"])
    return out


def main(argv=None) -> int:
    ap = argparse.ArgumentParser()
    ap.add_argument("prop")
    ap.add_argument("--tier", default=os.environ.get("VERIF_TIER", "quick"), choices=["quick", "thorough"])
    ap.add_argument("--claims", default="", help="comma-separated subset of claims (development only)")
    ap.add_argument("--scale", type=float, default=float(os.environ.get("VERIF_SCALE", "1")))
    ap.add_argument("--procs", type=int, default=int(os.environ.get("VERIF_PROCS", "0")))
    args = ap.parse_args(argv)
    prop = args.prop.upper()
    tier = args.tier
    seed = int(os.environ.get("VERIF_SEED", "1"))
    t0 = time.time()
    exit_code = 0
    lines: list[str] = []

    try:
        claims = core.load_property(prop)
        core.assert_repo()
    except BaseException as e:  # noqa: BLE001
        import traceback

        traceback.print_exc()
        print(f"HARNESS-ERROR property={prop} {type(e).__name__}: {e}")
        return 2
    names = list(claims)
    if args.claims:
        names = [n for n in names if n in args.claims.split(",")]

    # ---------------------------------------------------------------- replay tier
    known = [f for f in core.load_known_findings() if f.get("property") == prop]
    open_known = {(f["claim"], tuple(str(b) for b in f["bucket"])): f for f in known if f.get("status") == "open"}
    replay_dir = core.VERIF_DIR / "replays" / prop
    replay_report = []
    known_printed = set()
    stale = []
    harness_msgs = []
    for p in sorted(replay_dir.glob("*.json")) if replay_dir.exists() else []:
        data = json.loads(p.read_text())
        if data["claim"] not in claims:
            harness_msgs.append(f"replay {p.name}: unknown claim {data['claim']}")
            continue
        r = core.replay_file(p)
        rel = str(p.relative_to(core.VERIF_DIR))
        entry = {"file": rel, "status": r["status"], "bucket": list(r["bucket"]) if r["bucket"] else None}
        replay_report.append(entry)
        if r["status"] == "harness":
            harness_msgs.append(f"replay {rel}: {r['message']}")
        elif r["status"] == "fail":
            okeys = {k[1] for k in open_known if k[0] == data["claim"]}
            if core.bucket_matches(tuple(r["bucket"]), okeys):
                # which known entry?
                for (cn, kb), f in open_known.items():
                    if cn == data["claim"] and core.bucket_matches(tuple(r["bucket"]), {kb}):
                        if (cn, kb) not in known_printed:
                            known_printed.add((cn, kb))
                            lines.append(f"KNOWN-FINDING: property={prop} {f['what']}")
                        break
            else:
                lines.append(f"VIOLATION property={prop} replay={rel}")
                print(f"  replay {rel} fails: {r['message'][:500]}")
                exit_code = 1
    for key, f in open_known.items():
        if key not in known_printed:
            stale.append({"claim": key[0], "bucket": list(key[1])})

    # ---------------------------------------------------------------- search tier
    tasks = []
    nprocs = args.procs or (12 if tier == "quick" else 16)
    for ci, n in enumerate(names):
        c = claims[n]
        total = int(max(1, round((c.quick if tier == "quick" else c.thorough) * args.scale)))
        if tier == "quick":
            shards = max(1, min(6, nprocs // max(1, len(names))))
        else:
            shards = 16
        shards = max(1, min(shards, total // 20 if total >= 40 else 1))
        per = -(-total // shards)
        for s in range(shards):
            tasks.append((prop, n, per, seed * 1000003 + ci * 101 + s, tier))
    results: dict[str, list[dict]] = {n: [] for n in names}
    if tasks:
        ctx = mp.get_context("spawn")
        with ctx.Pool(min(nprocs, len(tasks))) as pool:
            for r in pool.imap_unordered(core._shard_entry, tasks):
                results[r["claim"]].append(r)

    per_claim = {}
    total_eval = 0
    nontrivial_total = 0
    samples = []
    violations = 0
    for n in names:
        c = claims[n]
        m = _merge(results[n])
        total_eval += m["evaluations"]
        nontrivial_total += len(m["nontrivial"])
        samples.extend(m["samples"][: max(2, 20 // max(1, len(names)))])
        for f in m["failures"]:
            path = core.write_replay(prop, f)
            try:
                rel = str(path.relative_to(core.VERIF_DIR))
            except ValueError:
                rel = str(path)
            lines.append(f"VIOLATION property={prop} replay={rel}")
            print(f"  claim {n} bucket {f['bucket']}: {f['message'][:600]}")
            violations += 1
            exit_code = 1
        for he in m["harness_errors"]:
            harness_msgs.append(f"claim {n}: {he}")
        ev = max(1, m["evaluations"])
        floors_failed = []
        if m["evaluations"] >= 50 and not (m["failures"] or m["excluded"] or m["known_seen"]):
            if c.nontrivial_floor and m["labels"].get("nontrivial", 0) / ev < c.nontrivial_floor:
                floors_failed.append(f"nontrivial {m['labels'].get('nontrivial', 0)}/{ev} < {c.nontrivial_floor}")
            for lab, fl in c.floors.items():
                if m["labels"].get(lab, 0) / ev < fl:
                    floors_failed.append(f"label {lab} {m['labels'].get(lab, 0)}/{ev} < {fl}")
        for ff in floors_failed:
            harness_msgs.append(f"claim {n}: generator floor not met: {ff}")
        per_claim[n] = {
            "examples_requested": m["examples_requested"],
            "evaluations": m["evaluations"],
            "distinct_nontrivial": len(m["nontrivial"]),
            "rule": c.rule,
            "tolerance": c.tol,
            "labels": dict(sorted(m["labels"].items())),
            "skipped_subcomparisons": m["skipped"],
            "excluded_by_bucket": dict(m["excluded"]),
            "known_finding_hits": dict(m["known_seen"]),
            "new_buckets": [f["bucket"] for f in m["failures"]],
            "seeds": sorted(m["seeds"]),
            "cpu_s": round(m["wall_s"], 2),
        }

    for ln in lines:
        print(ln)
    if harness_msgs:
        for h in harness_msgs:
            print("HARNESS-ERROR " + h[-3000:])
        if exit_code == 0:
            exit_code = 2

    rules = "; ".join(f"[{n}] {claims[n].rule}" for n in names if claims[n].rule)
    evidence = {
        "property_id": prop,
        "tier": tier,
        "seed": seed,
        "level": "exploration",
        "coverage": {
            "evaluations": total_eval + len(replay_report),
            "distinct_nontrivial": nontrivial_total,
            "rule": "Cases are drawn by Hypothesis strategies (seeded from VERIF_SEED) as plain JSON; "
            "distinct = distinct SHA-1 of the case; non-trivial per claim: " + rules,
            "samples": samples[:20],
            "claims": per_claim,
            "replays": replay_report,
            "stale_known_findings": stale,
            "known_findings_reported": [list(k[1]) for k in known_printed],
            "repo": str(core.REPO),
        },
        "assumptions": [
            "Generated-input search: no absence proof; bounds per claim in DESIGN.md section 3",
            "Random array contents come from numpy Generators seeded with Hypothesis-drawn integers",
            "Tolerances as named per claim (DESIGN.md 2.4)",
        ],
        "wall_s": round(time.time() - t0, 2),
        "violations": 0,
    }
    evidence["violations"] = sum(1 for ln in lines if ln.startswith("VIOLATION"))
    # the evidence must satisfy the harness schema; otherwise this run is a harness error
    try:
        import jsonschema

        schema_file = Path("/root/.vp/EVIDENCE.schema.json")
        if not schema_file.exists():
            schema_file = core.VERIF_DIR / "tools" / "EVIDENCE.schema.json"
        jsonschema.validate(json.loads(json.dumps(evidence, default=str)), json.loads(schema_file.read_text()))
    except ImportError:
        pass
    except Exception as e:  # noqa: BLE001
        print(f"HARNESS-ERROR evidence does not validate: {str(e)[:400]}")
        if exit_code == 0:
            exit_code = 2
    if not args.claims or exit_code != 2:
        (core.VERIF_DIR / "evidence").mkdir(exist_ok=True)
        (core.VERIF_DIR / "evidence" / f"{prop}.json").write_text(json.dumps(evidence, indent=1, default=str))
    print(
        f"{prop} {tier}: evaluations={evidence['coverage']['evaluations']} nontrivial={nontrivial_total} "
        f"violations={evidence['violations']} known={len(known_printed)} exit={exit_code} wall={evidence['wall_s']}s"
    )
    return exit_code


if __name__ == "__main__":
    sys.exit(main())
