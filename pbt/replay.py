"""python -m pbt.replay <file> : re-execute one replay file without Hypothesis."""
import sys
from pathlib import Path

from pbt import core


def main():
    p = Path(sys.argv[1])
    core.assert_repo()
    r = core.replay_file(p)
    print(f"replay {p}: {r['status']} bucket={r['bucket']}")
    if r["message"]:
        print(r["message"])
    sys.exit({"pass": 0, "fail": 1, "harness": 2}[r["status"]])


if __name__ == "__main__":
    main()
