"""Tolerance policy (DESIGN.md 2.4)."""
from __future__ import annotations

import numpy as np

EPS32 = float(np.finfo(np.float32).eps)


def max_err(a, b):
    a = np.asarray(a)
    b = np.asarray(b)
    if a.shape != b.shape:
        return float("inf")
    if a.size == 0:
        return 0.0
    d = np.abs(a.astype(np.complex128) - b.astype(np.complex128))
    if not np.all(np.isfinite(d)):
        # identical non-finite entries are fine, anything else is an infinite error
        same = (a == b) | (np.isnan(a) & np.isnan(b))
        d = np.where(same, 0.0, d)
        if not np.all(np.isfinite(d)):
            return float("inf")
    return float(d.max())


def scale(ref):
    ref = np.asarray(ref)
    if ref.size == 0:
        return 0.0
    m = np.abs(ref.astype(np.complex128))
    m = m[np.isfinite(m)]
    return float(m.max()) if m.size else 0.0


def close(a, ref, rtol=2e-4, atol=0.0):
    """max|a-ref| <= rtol*max|ref| + atol  (inf-norm relative tolerance)."""
    a = np.asarray(a)
    ref = np.asarray(ref)
    if a.shape != ref.shape:
        return False
    return max_err(a, ref) <= rtol * scale(ref) + atol


def rel_err(a, ref, floor=0.0):
    s = max(scale(ref), floor)
    e = max_err(a, ref)
    if s == 0:
        return 0.0 if e == 0 else float("inf")
    return e / s


def ulp32(k):
    return k * EPS32
