"""C33 Unit conversions compose and invert (abtem/core/units.py, abtem/core/axes.py).

Finite domain: all ordered triples of unit spellings within each category
(6^3 + 6^3 + 3^3 = 459) - small enough that Hypothesis enumerates it exhaustively -
combined with generated samplings / offsets / axis classes for ``convert_units``.

Oracle: an independent table of the *size* of each unit in the category's base unit
(1 nm = 10 A, 1 1/nm = 0.1 1/A, 1 rad = 1000 mrad, 1 deg = pi/180 rad); the factor that
converts a number expressed in ``a`` to the number expressed in ``b`` is size[a]/size[b].
The algebraic laws (identity, inverse, composition) are checked on abTEM's factors
alone, the anchor ties them to physical values.
"""

from __future__ import annotations

import math

from hypothesis import strategies as st

from pbt.core import Violation, claim
from pbt import gen

RTOL = 1e-12

CATEGORIES = {
    "real_space": ["Å", "Angstrom", "nm", "um", "mm", "m"],
    "reciprocal_space": ["1/Å", "1/Angstrom", "1/nm", "1/um", "1/mm", "1/m"],
    "angular": ["mrad", "rad", "deg"],
}

# size of one unit expressed in the base unit of its category (A, 1/A, mrad)
SIZE = {
    "Å": 1.0,
    "Angstrom": 1.0,
    "nm": 10.0,
    "um": 1.0e4,
    "mm": 1.0e7,
    "m": 1.0e10,
    "1/Å": 1.0,
    "1/Angstrom": 1.0,
    "1/nm": 0.1,
    "1/um": 1.0e-4,
    "1/mm": 1.0e-7,
    "1/m": 1.0e-10,
    "mrad": 1.0,
    "rad": 1000.0,
    "deg": math.pi / 180.0 * 1000.0,
}


def ref_factor(a, b):
    """number in units a  ->  number in units b"""
    return SIZE[a] / SIZE[b]


def _close(x, y, rtol=RTOL):
    return abs(x - y) <= rtol * max(abs(x), abs(y))


def _canon(u):
    return {"Angstrom": "Å", "1/Angstrom": "1/Å"}.get(u, u)


@st.composite
def triple_case(draw):
    cat = draw(st.sampled_from(sorted(CATEGORIES)))
    us = CATEGORIES[cat]
    return {"category": cat, "a": draw(st.sampled_from(us)), "b": draw(st.sampled_from(us)), "c": draw(st.sampled_from(us))}


# ----------------------------------------------------------------------- claim 1
@claim(
    "C33",
    "factor_triples",
    triple_case,
    quick=2400,
    thorough=8000,
    tol="f64 rtol=1e-12",
    rule="a, b, c are not all the same unit (after Angstrom -> Å)",
    nontrivial_floor=0.5,
)
def check_factor_triples(case, ctx):
    from abtem.core.units import get_conversion_factor

    cat, a, b, c = case["category"], case["a"], case["b"], case["c"]
    ctx.label(cat)
    ctx.nontrivial(len({_canon(a), _canon(b), _canon(c)}) > 1)

    def f(old, new):
        return float(get_conversion_factor(new, old_units=old))

    fab, fba, fbc, fac, faa = f(a, b), f(b, a), f(b, c), f(a, c), f(a, a)
    for name, v in (("a->b", fab), ("b->a", fba), ("b->c", fbc), ("a->c", fac)):
        if not (math.isfinite(v) and v > 0):
            raise Violation(f"factor {name} = {v!r} for {case}", ("finite", cat))
    if not _close(faa, 1.0):
        raise Violation(f"factor {a}->{a} = {faa!r}, expected 1", ("identity", cat))
    if not _close(fab * fba, 1.0):
        raise Violation(f"{a}->{b} = {fab!r}, {b}->{a} = {fba!r}: product {fab * fba!r} != 1", ("roundtrip", cat))
    if not _close(fab * fbc, fac):
        raise Violation(f"{a}->{b}->{c} = {fab * fbc!r} but {a}->{c} = {fac!r}", ("compose", cat))
    ref = ref_factor(a, b)
    if not _close(fab, ref):
        raise Violation(f"{a}->{b} = {fab!r}, physical value {ref!r}", ("anchor", cat))


# ----------------------------------------------------------------------- claim 2
AXIS_KINDS = ["LinearAxis", "RealSpaceAxis", "ReciprocalSpaceAxis", "ScanAxis"]


@st.composite
def axis_case(draw):
    t = draw(triple_case())
    kind = draw(st.sampled_from(AXIS_KINDS))
    sampling = 10.0 ** draw(gen.floats(-4.0, 3.0))
    off_kind = draw(st.sampled_from(["zero", "pos", "neg", "multiple"]))
    if off_kind == "zero":
        offset = 0.0
    elif off_kind == "multiple":
        offset = -sampling * draw(st.integers(1, 64))
    else:
        offset = 10.0 ** draw(gen.floats(-4.0, 3.0)) * (1 if off_kind == "pos" else -1)
    t.update(
        {
            "axis": kind,
            "sampling": sampling,
            "offset": offset,
            "label": draw(st.sampled_from(["x", "y", "kx", "scan", ""])),
            "flag": draw(st.booleans()),
            "n": draw(st.integers(1, 12)),
        }
    )
    return t


def _make_axis(case):
    from abtem.core import axes

    cls = getattr(axes, case["axis"])
    kw = {"label": case["label"], "sampling": case["sampling"], "offset": case["offset"], "units": case["a"]}
    if case["axis"] in ("RealSpaceAxis", "ScanAxis"):
        kw["endpoint"] = case["flag"]
    if case["axis"] == "ReciprocalSpaceAxis":
        kw["fftshift"] = case["flag"]
    return cls(**kw)


def _other_fields(ax):
    d = ax.to_dict()
    for k in ("sampling", "offset", "units"):
        d.pop(k)
    return d


@claim(
    "C33",
    "axis_convert",
    axis_case,
    quick=3000,
    thorough=40000,
    tol="f64 rtol=1e-12",
    rule="a, b, c not all the same unit and the offset is non-zero",
    nontrivial_floor=0.3,
)
def check_axis_convert(case, ctx):
    cat, a, b, c = case["category"], case["a"], case["b"], case["c"]
    ctx.label(cat)
    ctx.label(case["axis"])
    ctx.nontrivial(len({_canon(a), _canon(b), _canon(c)}) > 1 and case["offset"] != 0.0)

    ax = _make_axis(case)
    before = ax.to_dict()
    ab = ax.convert_units(b)
    abc = ab.convert_units(c)
    ac = ax.convert_units(c)
    aba = ab.convert_units(a)
    if ax.to_dict() != before:
        raise Violation(f"convert_units modified the axis in place: {before} -> {ax.to_dict()}", ("mutates",))
    for name, new, u in (("a->b", ab, b), ("a->b->c", abc, c), ("a->c", ac, c), ("a->b->a", aba, a)):
        if type(new) is not type(ax):
            raise Violation(f"{name}: type changed {type(ax).__name__} -> {type(new).__name__}", ("type",))
        if new.units != u:
            raise Violation(f"{name}: units field is {new.units!r}, asked for {u!r}", ("units_field",))
        if _other_fields(new) != _other_fields(ax):
            raise Violation(f"{name}: other fields changed {_other_fields(ax)} -> {_other_fields(new)}", ("other_fields",))
        for v in (new.sampling, new.offset):
            if not math.isfinite(v):
                raise Violation(f"{name}: non-finite sampling/offset {new.sampling!r}/{new.offset!r}", ("finite", cat))

    def same(p, q):
        return _close(p.sampling, q.sampling) and _close(p.offset, q.offset)

    if not same(aba, ax):
        raise Violation(
            f"{a}->{b}->{a}: sampling {ax.sampling!r} -> {aba.sampling!r}, offset {ax.offset!r} -> {aba.offset!r}",
            ("roundtrip", cat),
        )
    if not same(abc, ac):
        raise Violation(
            f"{a}->{b}->{c} gives sampling {abc.sampling!r} offset {abc.offset!r}; {a}->{c} gives {ac.sampling!r} {ac.offset!r}",
            ("compose", cat),
        )
    # sampling and offset are scaled by the same, physically correct factor
    ref = ref_factor(a, b)
    if not (_close(ab.sampling, ax.sampling * ref) and _close(ab.offset, ax.offset * ref)):
        raise Violation(
            f"{a}->{b}: sampling {ax.sampling!r} -> {ab.sampling!r}, offset {ax.offset!r} -> {ab.offset!r}; physical factor {ref!r}",
            ("anchor", cat),
        )
    # ... hence the coordinates of the converted axis are the converted coordinates
    n = case["n"]
    got = ab.coordinates(n)
    exp = [x * ref for x in ax.coordinates(n)]
    scale = max(abs(x) for x in exp + [ax.sampling * ref])
    if len(got) != n or any(abs(g - e) > 1e-11 * scale for g, e in zip(got, exp)):
        raise Violation(f"{a}->{b}: coordinates {got} != converted coordinates {exp}", ("coordinates", cat))


# ----------------------------------------------------------------------- claim 3
def _ref_wavelength(E):
    from ase import units

    T = units._e * float(E)
    p = math.sqrt(2.0 * units._me * T * (1.0 + T / (2.0 * units._me * units._c**2)))
    return 1e10 * units._hplanck / p


@st.composite
def recip_angular_case(draw):
    r = CATEGORIES["reciprocal_space"]
    g = CATEGORIES["angular"]
    return {
        "a": draw(st.sampled_from(r)),
        "b": draw(st.sampled_from(r)),
        "c": draw(st.sampled_from(g)),
        "d": draw(st.sampled_from(g)),
        "energy": draw(gen.energies()),
        "with_energy": draw(st.sampled_from([True, True, True, True, False])),
    }


@claim(
    "C33",
    "reciprocal_to_angular",
    recip_angular_case,
    quick=2000,
    thorough=20000,
    tol="f64 rtol=1e-12",
    rule="source is not the base unit 1/Å or target is not mrad (a real conversion on top of k*lambda*1e3)",
    nontrivial_floor=0.4,
)
def check_reciprocal_to_angular(case, ctx):
    from abtem.core.units import get_conversion_factor

    a, b, c, d, E = case["a"], case["b"], case["c"], case["d"], case["energy"]
    if not case["with_energy"]:
        ctx.label("no_energy")
        try:
            out = get_conversion_factor(c, old_units=a)
        except RuntimeError:
            return  # documented: "energy must be provided ..."
        raise Violation(f"{a}->{c} without an energy returned {out!r}", ("no_energy_accepted",))
    ctx.nontrivial(_canon(a) != "1/Å" or c != "mrad")
    src = "base-source" if _canon(a) == "1/Å" else "scaled-source"

    def f(old, new, **kw):
        return float(get_conversion_factor(new, old_units=old, **kw))

    fac = f(a, c, energy=E)
    lam = _ref_wavelength(E)
    # anchor: k [a] -> k [1/A] -> angle [mrad] = k*lambda*1e3 -> angle [c]
    ref = ref_factor(a, "1/Å") * lam * 1e3 * ref_factor("mrad", c)
    if not _close(fac, ref):
        raise Violation(f"{a}->{c} at {E} eV = {fac!r}, physical value {ref!r}", ("recip->angular", "anchor", src, "mrad" if c == "mrad" else "rad/deg"))
    # composition through another reciprocal unit and through another angular unit
    via_b = f(a, b) * f(b, c, energy=E)
    if not _close(via_b, fac):
        raise Violation(f"{a}->{b}->{c} = {via_b!r} but {a}->{c} = {fac!r}", ("recip->angular", "compose_source"))
    via_d = f(a, d, energy=E) * f(d, c)
    if not _close(via_d, fac):
        raise Violation(f"{a}->{d}->{c} = {via_d!r} but {a}->{c} = {fac!r}", ("recip->angular", "compose_target"))
