"""C12 Detectors measure consistent integrated intensities (abtem/detectors.py, abtem/measurements.py).

Statement: for any waves and angular limits inside the simulated range, AnnularDetector(i, o),
DiffractionPatterns.integrate_radial(i, o), FlexibleAnnularDetector followed by
integrate_radial(i, o) and the sum over all segments of a SegmentedDetector spanning [i, o) give
the same intensity; annular intensities are additive over adjacent ranges; FlexibleAnnularDetector
bins have the width its axis metadata states.

Oracle (independent of abTEM): float64 ``|FFT2 psi|^2`` summed over the pixels whose scattering
angle ``alpha = lambda * |k|`` (``k`` from ``numpy.fft.fftfreq``, ``lambda`` from CODATA constants)
lies in ``[inner, outer)``.  abTEM classifies pixels in float32, so a pixel whose angle is within
a relative band of ``BAND`` of a limit may legitimately fall on either side: the oracle is the
interval [sum over certainly-inside pixels, that + sum over ambiguous pixels] and every abTEM path
must land inside it (``ulp32(64)`` slack).  Without ambiguous pixels the interval is a point, so
all paths are then equal to each other within 2*ulp32(64).  Additivity needs no band: the two
masks of one code path are complementary for *any* split point, including exact pixel radii.
"""

from __future__ import annotations

import math

import numpy as np
from hypothesis import strategies as st

from pbt import gen, tol
from pbt.core import Violation, claim

HC_EV_A = 12398.419843320026  # h*c [eV Angstrom]
MC2_EV = 510998.95  # electron rest energy [eV]
BAND = 4e-6  # relative half-width of the float32 edge-ambiguity band (eps32 = 1.2e-7)
RTOL = tol.ulp32(64)  # 7.6e-6


# ----------------------------------------------------------------------- reference model
def wavelength(energy_ev: float) -> float:
    """Relativistic de Broglie wavelength [Angstrom]."""
    return HC_EV_A / math.sqrt(energy_ev * (2.0 * MC2_EV + energy_ev))


def alpha_grid(gpts, extent, energy):
    """Scattering angle [mrad] of every pixel of the unshifted FFT grid (float64)."""
    lam = wavelength(energy) * 1e3
    ax = np.fft.fftfreq(gpts[0], d=extent[0] / gpts[0]) * lam
    ay = np.fft.fftfreq(gpts[1], d=extent[1] / gpts[1]) * lam
    return np.sqrt(ax[:, None] ** 2 + ay[None, :] ** 2)


def intensity64(arr):
    return np.abs(np.fft.fft2(arr.astype(np.complex128), axes=(-2, -1))) ** 2


def annulus_bounds(I, alpha, inner, outer, ctx=None):
    """(lower, upper, n_certain): float64 bounds of the intensity in [inner, outer)."""
    certain = (alpha >= inner * (1 + BAND)) & (alpha < outer * (1 - BAND))
    possible = (alpha >= inner * (1 - BAND)) & (alpha < outer * (1 + BAND))
    lower = (I * certain).sum((-2, -1))
    upper = (I * possible).sum((-2, -1))
    n_amb = int(possible.sum() - certain.sum())
    if ctx is not None and n_amb:
        ctx.skip(n_amb)
    return lower, upper, int(certain.sum())


def within(got, lower, upper, floor):
    """Largest excursion of ``got`` outside [lower, upper] in units of the allowed slack."""
    got = np.asarray(got, dtype=np.float64)
    slack = RTOL * max(float(np.max(upper)) if np.size(upper) else 0.0, floor)
    exc = np.maximum(lower - got, got - upper)
    worst = float(np.max(exc)) if exc.size else 0.0
    return worst <= slack, worst, slack


# ----------------------------------------------------------------------- generators
@st.composite
def waves_spec(draw, max_scan=4):
    gpts = [draw(st.integers(12, 36)), draw(st.integers(12, 36))]
    sx = draw(gen.floats(0.2, 0.6))
    ratio = draw(st.sampled_from([1.0, 1.0, 0.5, 2.0]) | gen.floats(0.5, 2.0))
    extent = [round(gpts[0] * sx, 3), round(gpts[1] * sx * ratio, 3)]
    extras = draw(st.lists(st.sampled_from(["param", "fp"]), max_size=2, unique=True))
    ens = [{"kind": k, "n": draw(st.integers(1, 3))} for k in extras]
    scan = draw(st.sampled_from(["none", "grid", "grid", "line", "line", "custom"]))
    if scan == "grid":
        ens.append({"kind": "grid", "n": [draw(st.integers(1, 3)), draw(st.integers(1, 3))]})
    elif scan in ("line", "custom"):
        ens.append({"kind": scan, "n": draw(st.integers(1, max_scan))})
    lazy = draw(st.booleans())
    chunks = None
    if lazy:
        chunks = []
        for e in ens:
            for n in e["n"] if isinstance(e["n"], list) else [e["n"]]:
                chunks.append(draw(gen.partition(n, 3)))
    return {
        "gpts": gpts,
        "extent": extent,
        "energy": draw(gen.energies()),
        "ens": ens,
        "lazy": lazy,
        "chunks": chunks,
        "seed": draw(gen.seeds()),
    }


@st.composite
def limit_spec(draw, kinds):
    kind = draw(st.sampled_from(kinds))
    spec = {"kind": kind, "u": draw(gen.floats(0.0, 1.0))}
    if kind == "pixel":
        spec["v"] = draw(gen.floats(0.0, 1.0))
        spec["w"] = draw(gen.floats(0.0, 1.0))
        spec["nudge"] = draw(st.integers(-3, 3))
    return spec


def resolve_limit(spec, lo, hi, alpha):
    """Turn a limit spec into a float in (lo, hi] (``lo`` itself only for kind 'lo').

    kinds: 'lo' / 'hi' the interval ends; 'frac' arbitrary; 'int' a whole number of mrad;
    'pixel' the exact radius of a grid pixel nudged by a few float32 ulps (edge inclusion).
    Falls back to 'frac' when the interval holds no value of the requested kind."""
    kind = spec["kind"]
    if kind == "lo":
        return lo, "lo"
    if kind == "hi":
        return hi, "hi"
    frac = lo + (0.02 + 0.96 * spec["u"]) * (hi - lo)
    if kind == "int":
        a, b = math.floor(lo) + 1, math.floor(hi)
        if a <= b:
            return float(a + min(b - a, int(spec["u"] * (b - a + 1)))), "int"
    if kind == "pixel":
        radii = np.unique(alpha[(alpha > lo * (1 + 1e-4)) & (alpha <= hi * (1 - 1e-4))])
        if radii.size:
            r = float(radii[min(radii.size - 1, int(spec["v"] * radii.size))])
            return r * (1.0 + spec["nudge"] * 2.0**-24), "pixel"
    return frac, "frac"


# ----------------------------------------------------------------------- building waves
def build_waves(spec):
    """Random complex64 waves with the ensemble axes abTEM's own builders produce
    (extra axes first, scan axes last).  Returns (waves, eager complex64 array)."""
    import dask.array as da

    from abtem.core.axes import FrozenPhononsAxis, ParameterAxis
    from abtem.scan import CustomScan, GridScan, LineScan
    from abtem.waves import Waves

    ex, ey = spec["extent"]
    axes, shape = [], []
    for e in spec["ens"]:
        k, n = e["kind"], e["n"]
        if k == "param":
            axes.append(ParameterAxis(label="C10", values=tuple(10.0 * i for i in range(n)), units="Å", _ensemble_mean=False))
            shape.append(n)
        elif k == "fp":
            axes.append(FrozenPhononsAxis(_ensemble_mean=True))
            shape.append(n)
        elif k == "grid":
            axes += GridScan(start=(0, 0), end=(ex, ey), gpts=tuple(n)).ensemble_axes_metadata
            shape += list(n)
        elif k == "line":
            axes += LineScan(start=(0, 0), end=(ex, ey), gpts=n).ensemble_axes_metadata
            shape.append(n)
        elif k == "custom":
            pos = np.stack([np.linspace(0, ex, n, endpoint=False), np.linspace(0, ey, n, endpoint=False)], axis=1)
            axes += CustomScan(pos).ensemble_axes_metadata
            shape.append(n)
    arr = gen.rand_complex(tuple(shape) + tuple(spec["gpts"]), spec["seed"])
    data = arr
    if spec["lazy"]:
        chunks = tuple(tuple(c) for c in spec["chunks"]) + ((spec["gpts"][0],), (spec["gpts"][1],))
        data = da.from_array(arr, chunks=chunks)
    waves = Waves(data, energy=spec["energy"], extent=(ex, ey), ensemble_axes_metadata=axes)
    return waves, arr


def values(measurement):
    if measurement.is_lazy:
        measurement = measurement.compute()
    return np.asarray(measurement.array)


def describe(spec):
    kinds = "+".join(e["kind"] for e in spec["ens"]) or "single"
    return kinds, ("lazy" if spec["lazy"] else "eager")


def label_waves(ctx, spec):
    kinds, mode = describe(spec)
    ctx.label(mode)
    ctx.label("ens:" + kinds)
    if spec["lazy"] and any(len(c) > 1 for c in spec["chunks"]):
        ctx.label("lazy-multichunk")


def ens_bucket(spec):
    """Stable signature of the ensemble layout for buckets."""
    scan = [e["kind"] for e in spec["ens"] if e["kind"] in ("grid", "line", "custom")]
    extra = [e["kind"] for e in spec["ens"] if e["kind"] in ("param", "fp")]
    return (scan[0] if scan else "noscan") + ("+extra" if extra else ""), ("lazy" if spec["lazy"] else "eager")


def compare(name, got, lower, upper, floor, spec, info):
    if tuple(np.shape(got)) != tuple(np.shape(lower)):
        raise Violation(
            f"{name}: result shape {np.shape(got)} != ensemble shape {np.shape(lower)}; {info}",
            bucket=("shape", name) + ens_bucket(spec),
        )
    ok, worst, slack = within(got, lower, upper, floor)
    if not ok:
        rel = worst / max(float(np.max(upper)), floor)
        raise Violation(
            f"{name}: intensity outside the float64 reference interval by {worst:.3e} "
            f"(rel {rel:.2e}, slack {slack:.2e}); {info}",
            bucket=("value", name),
        )


# ----------------------------------------------------------------------- claim 1: paths
@st.composite
def paths_case(draw):
    w = draw(waves_spec())
    return {
        "waves": w,
        "outer": draw(limit_spec(["hi", "frac", "frac", "int", "pixel", "none"])),
        "inner": draw(limit_spec(["lo", "lo", "frac", "int", "pixel"])),
        "seg": {
            "nr": draw(st.integers(1, 4)),
            "na": draw(st.integers(1, 6)),
            "rotation": draw(st.sampled_from([0.0, 0.0]) | gen.floats(0.0, 2 * math.pi - 1e-6)),
        },
    }


@claim(
    "C12",
    "annular_paths",
    paths_case,
    quick=400,
    thorough=40000,
    tol="ulp32(64) around a float64 mask sum; pixels within 4e-6 (relative) of a limit may fall on either side",
    rule="the annulus certainly contains >= 3 pixels (random data: each carries ~1/N of the intensity)",
    nontrivial_floor=0.4,
)
def check_paths(case, ctx):
    from abtem.detectors import AnnularDetector, SegmentedDetector

    spec = case["waves"]
    waves, arr = build_waves(spec)
    label_waves(ctx, spec)
    alpha = alpha_grid(spec["gpts"], spec["extent"], spec["energy"])
    I = intensity64(arr)
    floor = float(I.mean())  # one average pixel: absolute scale for (nearly) empty annuli
    cutoff = float(min(waves.cutoff_angles))

    outer_none = case["outer"]["kind"] == "none"
    if outer_none:
        outer, okind = cutoff, "none"
    else:
        outer, okind = resolve_limit(case["outer"], 0.0, cutoff, alpha)
    # outer=None: the inner limit stays below floor(cutoff) so that the input is valid under
    # both readings of the default (see below)
    inner_hi = float(math.floor(cutoff)) if outer_none and math.floor(cutoff) >= 1 else outer
    inner, ikind = resolve_limit(case["inner"], 0.0, inner_hi, alpha)
    if outer_none and not inner < inner_hi:
        inner, ikind = 0.0, "lo"
    if not inner < outer:
        inner, ikind = 0.0, "lo"
    ctx.label("outer:" + okind)
    ctx.label("inner:" + ikind)
    info = f"inner={inner!r} outer={outer!r} cutoff={cutoff!r} waves={spec}"

    lower, upper, n_in = annulus_bounds(I, alpha, inner, outer, ctx)
    ctx.nontrivial(n_in >= 3)

    if outer_none:
        # Default outer limit: documented only as "outer integration limit"; the code
        # integrates to floor(min cutoff) while angular_limits() reports min cutoff.
        # Either convention is accepted (interval from the smaller to the larger annulus).
        fl = math.floor(cutoff)
        if fl > inner:
            lower2, _, _ = annulus_bounds(I, alpha, inner, float(fl), ctx)
            lower = np.minimum(lower, lower2)
        got = values(AnnularDetector(inner=inner, outer=None).detect(waves))
        compare("annular(outer=None)", got, lower, upper, floor, spec, info)
        return

    # (a1) AnnularDetector
    got = values(AnnularDetector(inner=inner, outer=outer).detect(waves))
    compare("annular", got, lower, upper, floor, spec, info)

    # (a2) integrate_radial on the full pattern and on the default ("cutoff") pattern
    got = values(waves.diffraction_patterns(max_angle="full").integrate_radial(inner, outer))
    compare("integrate_radial(full)", got, lower, upper, floor, spec, info)
    got = values(waves.diffraction_patterns().integrate_radial(inner, outer))
    compare("integrate_radial(cutoff)", got, lower, upper, floor, spec, info)

    # (a3) SegmentedDetector spanning [inner, outer): sum over all segments
    seg = case["seg"]
    det = SegmentedDetector(nbins_radial=seg["nr"], nbins_azimuthal=seg["na"], inner=inner, outer=outer, rotation=seg["rotation"])
    m = det.detect(waves)
    a = values(m)
    if a.shape[-2:] != (seg["nr"], seg["na"]):
        raise Violation(f"segmented: base shape {a.shape[-2:]} != {(seg['nr'], seg['na'])}; {info}", bucket=("shape", "segmented-base"))
    compare("segmented-sum", a.astype(np.float64).sum((-2, -1)), lower, upper, floor, spec, info)


# ----------------------------------------------------------------------- claim 2: additivity
@st.composite
def additivity_case(draw):
    w = draw(waves_spec(max_scan=3))
    return {
        "waves": w,
        "outer": draw(limit_spec(["hi", "frac", "int", "pixel"])),
        "inner": draw(limit_spec(["lo", "lo", "frac", "int", "pixel"])),
        "mid": draw(limit_spec(["frac", "int", "pixel", "pixel", "pixel"])),
        "path": draw(st.sampled_from(["annular", "annular", "integrate_radial"])),
    }


@claim(
    "C12",
    "additivity",
    additivity_case,
    quick=400,
    thorough=40000,
    tol="ulp32(64) relative to the whole annulus (float32 summation order only)",
    rule="both sub-annuli certainly contain >= 1 pixel",
    nontrivial_floor=0.4,
)
def check_additivity(case, ctx):
    from abtem.detectors import AnnularDetector

    spec = case["waves"]
    waves, arr = build_waves(spec)
    label_waves(ctx, spec)
    alpha = alpha_grid(spec["gpts"], spec["extent"], spec["energy"])
    cutoff = float(min(waves.cutoff_angles))
    outer, okind = resolve_limit(case["outer"], 0.0, cutoff, alpha)
    inner, ikind = resolve_limit(case["inner"], 0.0, outer, alpha)
    if not inner < outer:
        inner, ikind = 0.0, "lo"
    mid, mkind = resolve_limit(case["mid"], inner, outer, alpha)
    if not inner < mid < outer:
        mid, mkind = 0.5 * (inner + outer), "frac"
    ctx.label("mid:" + mkind)
    ctx.label("path:" + case["path"])

    I = intensity64(arr)
    _, _, n1 = annulus_bounds(I, alpha, inner, mid)
    _, _, n2 = annulus_bounds(I, alpha, mid, outer)
    ctx.nontrivial(n1 >= 1 and n2 >= 1)

    if case["path"] == "annular":
        def A(i, o):
            return values(AnnularDetector(inner=i, outer=o).detect(waves)).astype(np.float64)
    else:
        dp = waves.diffraction_patterns(max_angle="cutoff")

        def A(i, o):
            return values(dp.integrate_radial(i, o)).astype(np.float64)

    whole, a, b = A(inner, outer), A(inner, mid), A(mid, outer)
    floor = float(I.mean())
    err = tol.max_err(a + b, whole)
    slack = RTOL * max(tol.scale(whole), floor)
    if err > slack:
        raise Violation(
            f"{case['path']}: A({inner!r},{mid!r}) + A({mid!r},{outer!r}) differs from A({inner!r},{outer!r}) by {err:.3e} "
            f"(rel {err / max(tol.scale(whole), floor):.2e}); one average pixel = {floor:.3e}; waves={spec}",
            bucket=("additivity", case["path"], mkind),
        )


# ----------------------------------------------------------------------- claim 3: flexible
@st.composite
def flexible_case(draw):
    w = draw(waves_spec(max_scan=3))
    return {
        "waves": w,
        "step": draw(st.sampled_from([0.25, 0.5, 1.0, 1.0, 1.5, 2.0])),
        "inner": draw(st.sampled_from([0.0, 0.0, 0.3, 1.0, 2.5]) | gen.floats(0.0, 4.0).map(lambda x: round(x, 3))),
        "outer": draw(st.sampled_from(["none", "multiple", "multiple", "frac", "frac", "cutoff"])),
        "u": draw(gen.floats(0.0, 1.0)),
        "k0": draw(gen.floats(0.0, 1.0)),
        "k1": draw(gen.floats(0.0, 1.0)),
    }


@claim(
    "C12",
    "flexible_bins",
    flexible_case,
    quick=300,
    thorough=30000,
    tol="ulp32(64) around float64 mask sums per bin; edge band 4e-6; metadata exact",
    rule=">= 2 radial bins and >= 3 pixels certainly inside the binned range",
    nontrivial_floor=0.4,
)
def check_flexible(case, ctx):
    from abtem.detectors import FlexibleAnnularDetector

    spec = case["waves"]
    waves, arr = build_waves(spec)
    label_waves(ctx, spec)
    alpha = alpha_grid(spec["gpts"], spec["extent"], spec["energy"])
    I = intensity64(arr)
    floor = float(I.mean())
    cutoff = float(min(waves.cutoff_angles))
    step, inner, okind = case["step"], case["inner"], case["outer"]

    # the detector needs room for one bin of a whole mrad span (nbins = floor(span)/step >= 1)
    need = float(max(1, math.ceil(step)))
    if cutoff - inner < need + 1e-6:
        inner = 0.0
    if cutoff - inner < need + 1e-6:
        ctx.label("range-too-small")
        return
    if okind == "none":
        outer_arg, outer = None, cutoff
    elif okind == "cutoff":
        outer_arg = outer = cutoff
    elif okind == "multiple":
        kmax = int(math.floor((cutoff - inner) / step))
        kmin = int(math.ceil(need / step))
        k = kmin + min(kmax - kmin, int(case["u"] * (kmax - kmin + 1)))
        while (inner + k * step) - inner < need + 1e-6 and k < kmax:
            k += 1  # float: (inner + k*step) - inner may fall just short of k*step
        outer_arg = outer = inner + k * step
        if outer - inner < need + 1e-6 or outer > cutoff:
            ctx.label("range-too-small")
            return
    else:
        # 1e-6 margin: (inner + need) - inner may round just below need, giving zero bins,
        # which polar_binning rejects ("number of bins must be greater than zero")
        outer_arg = outer = inner + need + 1e-6 + case["u"] * (cutoff - inner - need - 1e-6)
    span = outer - inner
    is_multiple = abs(span / step - round(span / step)) < 1e-9
    ctx.label("outer:" + okind)
    ctx.label("span-multiple-of-step" if is_multiple else "span-not-multiple")
    info = f"step={step} inner={inner!r} outer={outer_arg!r} cutoff={cutoff!r} waves={spec}"

    det = FlexibleAnnularDetector(step_size=step, inner=inner, outer=outer_arg)
    m = det.detect(waves)
    a = values(m)
    ens_shape = arr.shape[:-2]
    if a.shape[:-2] != ens_shape or a.shape[-1] != 1:
        raise Violation(f"flexible: shape {a.shape} for ensemble shape {ens_shape}; {info}", bucket=("shape", "flexible") + ens_bucket(spec))
    radial = m.axes_metadata[-2]
    delta, i0, nbins = float(radial.sampling), float(radial.offset), a.shape[-2]
    if delta != step or i0 != inner:
        raise Violation(f"flexible: axis says offset={i0!r} sampling={delta!r}, asked inner={inner!r} step={step!r}; {info}", bucket=("flexible", "metadata"))
    if i0 + nbins * delta > cutoff * (1 + 1e-9) or (outer_arg is not None and i0 + nbins * delta > outer * (1 + 1e-9)):
        raise Violation(f"flexible: {nbins} bins of {delta} mrad from {i0} exceed the range; {info}", bucket=("flexible", "exceeds-range"))

    _, _, n_in = annulus_bounds(I, alpha, i0, i0 + nbins * delta)
    ctx.nontrivial(nbins >= 2 and n_in >= 3)

    # every bin holds the intensity of the annulus its axis metadata describes
    a64 = a[..., 0].astype(np.float64)
    for k in range(nbins):
        lower, upper, _ = annulus_bounds(I, alpha, i0 + k * delta, i0 + (k + 1) * delta, ctx)
        ok, worst, slack = within(a64[..., k], lower, upper, floor)
        if not ok:
            raise Violation(
                f"flexible: bin {k} of {nbins} does not hold the intensity of [{i0 + k * delta!r}, {i0 + (k + 1) * delta!r}) mrad "
                f"stated by its axis (off by {worst:.3e}, slack {slack:.2e}, one average pixel {floor:.3e}); {info}",
                bucket=("flexible", "bin-width", "multiple" if is_multiple else "not-multiple"),
            )

    # integrate_radial between two bin edges == the annulus between these limits
    k0 = min(nbins - 1, int(case["k0"] * nbins))
    k1 = k0 + 1 + min(nbins - k0 - 1, int(case["k1"] * (nbins - k0)))
    lim0, lim1 = i0 + k0 * delta, i0 + k1 * delta
    got = values(m.integrate_radial(lim0, lim1))
    lower, upper, _ = annulus_bounds(I, alpha, lim0, lim1, ctx)
    frac_off = (i0 / delta) != round(i0 / delta)
    if tuple(got.shape) != tuple(lower.shape):
        raise Violation(f"flexible.integrate_radial: shape {got.shape} != {lower.shape}; {info}", bucket=("shape", "flexible-integrate") + ens_bucket(spec))
    ok, worst, slack = within(got, lower, upper, floor)
    if not ok:
        raise Violation(
            f"flexible.integrate_radial({lim0!r}, {lim1!r}) (bin edges {k0}..{k1} of {nbins}) off by {worst:.3e} (slack {slack:.2e}); {info}",
            bucket=("flexible", "integrate_radial", "fractional-offset" if frac_off else "aligned-offset"),
        )
