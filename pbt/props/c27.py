"""C27 Structure factors respect crystal symmetry (abtem/bloch/dynamical.py, utils.py).

Crystals are *constructed* with a lattice centring (basis x conventional centring
translations: I (1/2,1/2,1/2); F the three face centres; A (0,1/2,1/2); B (1/2,0,1/2);
C (1/2,1/2,0)), thermal sigmas / occupancies are given per element or replicated over the
centring translations so that they respect the centring too.

Claims
* ``friedel``      every reflection has its negative and F(-h) = conj F(h);
* ``centering``    reflections forbidden by the conventional reflection condition vanish,
                   and building with the declared / automatically detected centring keeps
                   every reflection that does not vanish (with unchanged values);
* ``potential``    ifftn(to_3d_array()) is real, and get_potential_3d() is the Fourier
                   synthesis of the structure factors sampled at r = (i/N1, j/N2, k/N3) of the
                   cell (direct summation at sampled grid points, up to a positive scale and a
                   constant);
* ``translation``  translating all atoms by an integer lattice vector changes no F.
"""

from __future__ import annotations

import math

import numpy as np
from hypothesis import strategies as st

from pbt import gen
from pbt.core import Violation, claim
from pbt.props.c26 import crystal_spec, make_crystal

LATTICES = ("cubic_P", "cubic_I", "cubic_F", "ortho_P", "ortho_I", "ortho_F", "ortho_A", "ortho_B", "ortho_C", "hex_P")
MAX_HKL = 5000


def conventional_condition(hkl, centering):
    """Reflection conditions of the International Tables (independent of abTEM)."""
    h, k, l = hkl[:, 0], hkl[:, 1], hkl[:, 2]
    if centering == "P":
        return np.ones(len(hkl), bool)
    if centering == "I":
        return (h + k + l) % 2 == 0
    if centering == "F":
        return ((h + k) % 2 == 0) & ((k + l) % 2 == 0)
    if centering == "A":
        return (k + l) % 2 == 0
    if centering == "B":
        return (h + l) % 2 == 0
    if centering == "C":
        return (h + k) % 2 == 0
    raise ValueError(centering)


# ----------------------------------------------------------------------- generators
@st.composite
def sf_case(draw):
    spec = draw(crystal_spec(lattices=LATTICES))
    lattice = spec["lattice"]
    if lattice.startswith("ortho") and lattice != "ortho_P":
        spec["basis"] = spec["basis"][: (1 if lattice == "ortho_F" else 2)]
    centering = lattice.split("_")[1]
    if centering == "P" and draw(st.integers(0, 3)) == 0:
        # supercell-like primitive crystal (as from ``atoms * (2, 1, 1)``): every atom has a
        # partner of the same species half a cell further along one axis
        axis = draw(st.integers(0, 2))
        half = []
        for z, *p in spec["basis"][:2]:
            q = list(p)
            q[axis] = round((q[axis] + 0.5) % 1.0, 6)
            half.append([z, *q])
        first = [list(b) for b in spec["basis"][:2]]
        if not {tuple(b[1:]) for b in half} & {tuple(round(v, 6) for v in b[1:]) for b in first}:
            spec["basis"] = first + half
            spec["doubled_axis"] = axis
    vol = spec["a"] * spec["b"] * spec["c"] * (math.sqrt(3) / 2 if lattice == "hex_P" else 1.0)
    g = draw(st.sampled_from([1.5, 2.0, 3.0, 4.0]) | gen.floats(1.5, 4.0).map(lambda v: round(v, 3)))
    g_max = round(min(g, (MAX_HKL / (4.19 * vol)) ** (1 / 3)), 3)
    nb = len(spec["basis"])
    elements = sorted({b[0] for b in spec["basis"]})
    sig = st.sampled_from([0.0, 0.05, 0.1, 0.15]) | gen.floats(0.0, 0.2).map(lambda v: round(v, 3))
    kind = draw(st.sampled_from(["none", "scalar", "element", "atom", "aniso", "aniso_element", "aniso_atom"]))
    if kind == "none":
        sigma = None
    elif kind == "scalar":
        sigma = draw(sig)
    elif kind == "element":
        sigma = {str(z): draw(sig) for z in elements}
    elif kind == "atom":
        sigma = [draw(sig) for _ in range(nb)]  # per basis atom, replicated over the translations
    elif kind == "aniso":
        sigma = [draw(sig), draw(sig), draw(sig)]
    elif kind == "aniso_element":
        sigma = {str(z): [draw(sig), draw(sig), draw(sig)] for z in elements}
    else:
        sigma = [[draw(sig), draw(sig), draw(sig)] for _ in range(nb)]
    occ = st.sampled_from([1.0, 0.5, 0.25]) | gen.floats(0.05, 1.0).map(lambda v: round(v, 3))
    okind = draw(st.sampled_from(["none", "none", "scalar", "element", "atom"]))
    if okind == "none":
        occupancy = None
    elif okind == "scalar":
        occupancy = draw(occ)
    elif okind == "element":
        occupancy = {str(z): draw(occ) for z in elements}
    else:
        occupancy = [draw(occ) for _ in range(nb)]
    return {
        "crystal": spec,
        "g_max": g_max,
        "declared": draw(st.sampled_from([centering, centering, "auto", "P"])),
        "sigma_kind": kind,
        "sigma": sigma,
        "occ_kind": okind,
        "occupancy": occupancy,
        "cutoff": draw(st.sampled_from(["taper", "taper", "hard"])),
        "parametrization": draw(st.sampled_from(["lobato", "lobato", "kirkland"])),
        "sample_seed": draw(gen.seeds()),
    }


@st.composite
def translation_case(draw):
    case = draw(sf_case())
    n = st.integers(-2, 2)
    case["shift"] = draw(st.tuples(n, n, n).filter(lambda v: any(v)).map(list))
    return case


def _nontrivial(case):
    c = case["crystal"]
    return len(c["basis"]) >= 2 or not c["lattice"].endswith("_P")


# ----------------------------------------------------------------------- building
def _props(case, atoms):
    from ase.data import chemical_symbols

    ntrans = len(atoms) // len(case["crystal"]["basis"])
    kind, sigma = case["sigma_kind"], case["sigma"]
    if kind == "none":
        ts = 0.0
    elif kind == "scalar":
        ts = float(sigma)
    elif kind in ("element", "aniso_element"):
        ts = {chemical_symbols[int(z)]: (tuple(v) if isinstance(v, list) else v) for z, v in sigma.items()}
    elif kind == "atom":
        ts = list(sigma) * ntrans
    elif kind == "aniso":
        ts = tuple(sigma)
    else:
        ts = np.array(list(sigma) * ntrans, float)
    okind, o = case["occ_kind"], case["occupancy"]
    if okind == "none":
        oc = 1.0
    elif okind == "scalar":
        oc = float(o)
    elif okind == "element":
        oc = {chemical_symbols[int(z)]: v for z, v in o.items()}
    else:
        oc = list(o) * ntrans
    return ts, oc


def build_sf(case, centering, atoms=None):
    import abtem

    atoms = make_crystal(case["crystal"]) if atoms is None else atoms
    ts, oc = _props(case, atoms)
    return abtem.StructureFactor(
        atoms,
        g_max=case["g_max"],
        parametrization=case["parametrization"],
        thermal_sigma=ts,
        occupancy=oc,
        cutoff=case["cutoff"],
        centering=centering,
    )


def _values(sf):
    arr = sf.build(lazy=False)
    return arr, np.asarray(arr.hkl), np.asarray(arr.array)


def _labels(case, ctx):
    ctx.label(case["crystal"]["lattice"])
    ctx.label("declared:" + case["declared"])
    ctx.label("sigma:" + case["sigma_kind"])
    ctx.label("half-cell translation", "doubled_axis" in case["crystal"])
    ctx.nontrivial(_nontrivial(case))


def _index(hkl):
    return {tuple(int(v) for v in row): i for i, row in enumerate(hkl)}


# ======================================================================= claims
@claim(
    "C27",
    "friedel",
    sf_case,
    quick=200,
    thorough=5000,
    tol="1e-5 relative to max|F| (complex64)",
    rule=">=2 basis atoms or a non-P centring",
    nontrivial_floor=0.5,
)
def check_friedel(case, ctx):
    _labels(case, ctx)
    _, hkl, F = _values(build_sf(case, case["declared"]))
    if F.shape != (len(hkl),) or not np.iscomplexobj(F):
        raise Violation(f"structure factor array shape {F.shape} dtype {F.dtype} for {len(hkl)} reflections", ("friedel", "shape"))
    if not np.all(np.isfinite(F)):
        raise Violation(f"non-finite structure factors for {case}", ("friedel", "nonfinite"))
    idx = _index(hkl)
    if len(idx) != len(hkl):
        raise Violation("duplicate reflections in hkl", ("friedel", "duplicates"))
    if (0, 0, 0) not in idx:
        raise Violation("(000) missing", ("friedel", "no_000"))
    neg = np.array([idx.get((-h, -k, -l), -1) for (h, k, l) in idx], int)
    if (neg < 0).any():
        j = int(np.flatnonzero(neg < 0)[0])
        raise Violation(f"reflection {tuple(int(v) for v in hkl[j])} is kept but its negative is not for {case}", ("friedel", "missing_negative"))
    scale = float(np.abs(F).max())
    err = np.abs(F[neg] - np.conj(F))
    if not float(err.max()) <= 1e-5 * scale:
        j = int(err.argmax())
        raise Violation(
            f"F(-h) != conj F(h) at h={tuple(int(v) for v in hkl[j])}: {F[neg[j]]} vs {F[j]} (rel {err.max() / scale:.2e}) for {case}",
            ("friedel", "not_hermitian"),
        )


@claim(
    "C27",
    "centering",
    sf_case,
    quick=250,
    thorough=5000,
    tol="forbidden |F| < 2e-5 max|F|; kept set contains all |F| > 1e-4 max|F|; common values 1e-6",
    rule=">=2 basis atoms or a non-P centring",
    nontrivial_floor=0.5,
    floors={"non-P construction": 0.3},
)
def check_centering(case, ctx):
    _labels(case, ctx)
    true_centering = case["crystal"]["lattice"].split("_")[1]
    ctx.label("non-P construction", true_centering != "P")
    _, hkl_p, F_p = _values(build_sf(case, "P"))
    scale = float(np.abs(F_p).max())
    allowed = conventional_condition(hkl_p, true_centering)
    if (~allowed).any():
        worst = float(np.abs(F_p[~allowed]).max())
        if not worst <= 2e-5 * scale:
            j = int(np.flatnonzero(~allowed)[np.abs(F_p[~allowed]).argmax()])
            raise Violation(
                f"reflection {tuple(int(v) for v in hkl_p[j])} forbidden by {true_centering} centring has |F|/max|F| = {worst / scale:.2e} for {case}",
                ("centering", "forbidden_nonzero", true_centering),
            )
    declared = case["declared"]
    if declared == "P":
        return
    sf = build_sf(case, declared)
    used = sf.centering
    ctx.label("detected:" + str(used), declared == "auto")
    _, hkl_c, F_c = _values(sf)
    idx_c = _index(hkl_c)
    idx_p = _index(hkl_p)
    strong = np.flatnonzero(np.abs(F_p) > 1e-4 * scale)
    missing = [tuple(int(v) for v in hkl_p[j]) for j in strong if tuple(int(v) for v in hkl_p[j]) not in idx_c]
    if missing:
        j = idx_p[missing[0]]
        raise Violation(
            f"centering={declared!r} (used {used!r}) drops {len(missing)} non-vanishing reflections, e.g. {missing[0]} with |F|/max|F| = "
            f"{abs(F_p[j]) / scale:.3f}, for a crystal constructed with {true_centering} centring: {case}",
            ("centering", "drops_allowed", "auto" if declared == "auto" else "declared", str(used)),
        )
    extra = [h for h in idx_c if h not in idx_p]
    if extra:
        raise Violation(f"centred build has reflections outside the primitive set, e.g. {extra[0]}", ("centering", "extra"))
    common = np.array([idx_p[h] for h in idx_c], int)
    if not float(np.abs(F_p[common] - F_c).max()) <= 1e-6 * scale:
        raise Violation("structure factor values depend on the centring argument", ("centering", "values"))


@claim(
    "C27",
    "potential",
    sf_case,
    quick=150,
    thorough=4000,
    tol="max|Im| < 1e-5 max|Re|; synthesis 5e-4 of the sampled potential range",
    rule=">=2 basis atoms or a non-P centring",
    nontrivial_floor=0.5,
)
def check_potential(case, ctx):
    _labels(case, ctx)
    sfa, hkl, F = _values(build_sf(case, case["declared"]))
    F3 = np.asarray(sfa.to_3d_array())
    gpts = tuple(sfa.gpts)
    if F3.shape != gpts:
        raise Violation(f"to_3d_array shape {F3.shape} != gpts {gpts}", ("potential", "shape"))
    if int(np.count_nonzero(F3)) > len(hkl) or not math.isclose(float(np.abs(F3).sum()), float(np.abs(F).sum()), rel_tol=1e-4):
        raise Violation("to_3d_array does not hold exactly the listed structure factors", ("potential", "placement"))
    v = np.fft.ifftn(F3.astype(np.complex128))
    re, im = float(np.abs(v.real).max()), float(np.abs(v.imag).max())
    if not im <= 1e-5 * re:
        raise Violation(f"reconstructed potential is not real: max|Im|/max|Re| = {im / re:.2e} for {case}", ("potential", "not_real"))
    pot = np.asarray(sfa.get_potential_3d())
    if pot.shape != gpts or np.iscomplexobj(pot) or not np.all(np.isfinite(pot)):
        raise Violation(f"get_potential_3d shape {pot.shape} dtype {pot.dtype}", ("potential", "array"))
    # direct Fourier synthesis at sampled grid points r = (i/N1, j/N2, k/N3)
    rng = np.random.default_rng(case["sample_seed"])
    pts = np.stack([rng.integers(0, n, 48) for n in gpts], axis=1)
    pts[0] = 0  # an atom often sits at the origin
    frac = pts / np.array(gpts, float)
    ref = (F.astype(np.complex128)[None, :] * np.exp(2j * np.pi * (frac @ hkl.T.astype(float)))).sum(axis=1).real
    got = pot[pts[:, 0], pts[:, 1], pts[:, 2]].astype(float)
    dref = ref - ref.mean()
    dgot = got - got.mean()
    if float(np.abs(dref).max()) <= 1e-6 * float(np.abs(ref).max() + 1e-300):
        ctx.label("flat sample")
        return
    s = float(dgot @ dref) / float(dref @ dref)
    resid = float(np.abs(dgot - s * dref).max())
    if not (s > 0 and resid <= 5e-4 * float(np.abs(s * dref).max())):
        raise Violation(
            f"get_potential_3d is not the Fourier synthesis of the structure factors on the cell grid {gpts}: scale {s:.4e}, "
            f"residual/range {resid / max(float(np.abs(s * dref).max()), 1e-300):.2e} for {case}",
            ("potential", "synthesis"),
        )


@claim(
    "C27",
    "translation",
    translation_case,
    quick=200,
    thorough=5000,
    tol="1e-4 relative to max|F| (positions are float32)",
    rule=">=2 basis atoms or a non-P centring",
    nontrivial_floor=0.5,
)
def check_translation(case, ctx):
    _labels(case, ctx)
    atoms = make_crystal(case["crystal"])
    sf0 = build_sf(case, case["declared"], atoms)
    _, hkl0, F0 = _values(sf0)
    moved = atoms.copy()
    moved.positions = moved.positions + np.array(case["shift"], float) @ np.asarray(atoms.cell)
    sf1 = build_sf(case, case["declared"], moved)
    _, hkl1, F1 = _values(sf1)
    if sf0.centering != sf1.centering:
        raise Violation(
            f"detected centring changes from {sf0.centering} to {sf1.centering} under a lattice translation {case['shift']}",
            ("translation", "centering"),
        )
    if hkl0.shape != hkl1.shape or not np.array_equal(hkl0, hkl1):
        raise Violation("set of reflections changes under a lattice translation", ("translation", "hkl"))
    scale = float(np.abs(F0).max())
    err = np.abs(F1 - F0)
    if not float(err.max()) <= 1e-4 * scale:
        j = int(err.argmax())
        raise Violation(
            f"F{tuple(int(v) for v in hkl0[j])} changes by {err.max() / scale:.2e} (relative to max|F|) under the lattice translation {case['shift']} for {case}",
            ("translation", "values"),
        )
