"""C24 Electron energy relations match relativistic kinematics (abtem/core/energy.py).

Oracles are float64 closed forms written from SI constants (CODATA values as shipped by
ase.units, which abTEM uses), in a *different algebraic form* than abTEM's code:

    lambda [A]    = 1e10 * h / sqrt(2 m eE (1 + eE / (2 m c^2)))         (momentum form)
    sigma [1/(A eV)] = 2 pi m gamma e lambda_A * 1e-20 / h^2 (SI, gamma = 1 + eE/mc^2)
                  = 2 pi / (lambda E) * (mc^2 + E) / (2 mc^2 + E)        (second form)
    d_alpha [mrad] = d_k [1/A] * lambda [A] * 1e3

The oracle itself is pinned to textbook values (Kirkland, Advanced Computing in Electron
Microscopy, table of wavelengths / interaction parameters) in ``anchors``.
"""

from __future__ import annotations

import math

from hypothesis import strategies as st

from pbt.core import Violation, claim
from pbt import gen

RTOL = 1e-12

# textbook anchors: energy [eV] -> (wavelength [A], sigma [1/(kV A)])  4-5 significant digits
ANCHORS = {
    60e3: (0.048661, 1.1357),
    80e3: (0.041757, 1.0087),
    100e3: (0.037014, 0.9244),
    120e3: (0.033492, 0.8638),
    200e3: (0.025079, 0.7288),
    300e3: (0.019687, 0.6526),
}


def _const():
    from ase import units

    return units._hplanck, units._c, units._me, units._e


def ref_wavelength(E):
    """Relativistic de Broglie wavelength in Angstrom: h / p with p^2 c^2 = T^2 + 2 T m c^2."""
    h, c, m, e = _const()
    T = e * float(E)  # kinetic energy in J
    p = math.sqrt(2.0 * m * T * (1.0 + T / (2.0 * m * c * c)))
    return 1e10 * h / p


def ref_sigma(E):
    """Interaction parameter in 1/(A eV) from SI: 2 pi (gamma m) e lambda / h^2."""
    h, c, m, e = _const()
    gamma = 1.0 + e * float(E) / (m * c * c)
    lam_m = ref_wavelength(E) * 1e-10
    sigma_si = 2.0 * math.pi * gamma * m * e * lam_m / (h * h)  # rad / (V m)
    return sigma_si * 1e-10  # per Angstrom


def ref_sigma_alt(E):
    h, c, m, e = _const()
    E = float(E)
    mc2 = m * c * c / e
    return 2.0 * math.pi / (ref_wavelength(E) * E) * (mc2 + E) / (2.0 * mc2 + E)


def _rel(a, b):
    return abs(a - b) / abs(b)


# ----------------------------------------------------------------------- generators
def log_energy(lo=0.0, hi=7.0):
    """log-uniform in [1 eV, 10 MeV]"""
    return gen.floats(lo, hi).map(lambda x: min(10.0**x, 1e7))


@st.composite
def energy_value(draw):
    kind = draw(st.sampled_from(["log", "log", "log", "int", "edge", "typical"]))
    if kind == "log":
        return draw(log_energy())
    if kind == "int":
        return draw(st.integers(1, 10_000_000))
    if kind == "edge":
        return draw(st.sampled_from([1.0, 1, 1e7, 10_000_000, 1.0000000000000002, 9999999.999999998]))
    return draw(gen.energies())


@st.composite
def value_case(draw):
    return {"energy": draw(energy_value())}


@st.composite
def pair_case(draw):
    e1 = draw(log_energy())
    how = draw(st.sampled_from(["close", "close", "far", "ratio"]))
    if how == "close":
        # relative gap from 1e-9 upwards
        rel = 10.0 ** draw(gen.floats(-9.0, -1.0))
        e2 = e1 * (1.0 + rel)
        if e2 < e1 * (1 + 1e-9):
            e2 = e1 * (1 + 2e-9)
    elif how == "far":
        e2 = draw(log_energy())
        if e2 < e1:
            e1, e2 = e2, e1
        if e2 < e1 * (1 + 1e-9):
            e2 = e1 * 2.0
    else:
        e2 = e1 * draw(gen.floats(1.001, 1000.0))
    e2 = min(e2, 1e7 * (1 + 1e-6))
    if e2 < e1 * (1 + 1e-9):
        e1 = e2 / 2.0
    return {"e1": e1, "e2": e2}


@st.composite
def sampling_case(draw):
    ndim = draw(st.integers(0, 3))
    ks = [10.0 ** draw(gen.floats(-6.0, 2.0)) for _ in range(ndim)]
    if ndim and draw(st.integers(0, 9)) == 0:
        ks[0] = 0.0
    return {"energy": draw(energy_value()), "reciprocal_space_sampling": ks}


@st.composite
def nonpositive_case(draw):
    kind = draw(st.sampled_from(["zero", "negzero", "izero", "tiny", "neg", "negint", "huge"]))
    if kind == "zero":
        e = 0.0
    elif kind == "negzero":
        e = -0.0
    elif kind == "izero":
        e = 0
    elif kind == "tiny":
        e = -(10.0 ** draw(gen.floats(-320.0, -1.0)))
    elif kind == "neg":
        e = -(10.0 ** draw(gen.floats(-1.0, 7.0)))
    elif kind == "negint":
        e = -draw(st.integers(1, 10_000_000))
    else:
        e = -(10.0 ** draw(gen.floats(7.0, 300.0)))
    if kind == "tiny" and e == 0.0:
        e = -5e-324
    return {"energy": e, "kind": kind, "function": draw(st.sampled_from(["wavelength", "sigma", "angular", "accelerator"]))}


# ----------------------------------------------------------------------- claims
@claim(
    "C24",
    "wavelength_sigma",
    value_case,
    quick=4000,
    thorough=100000,
    tol="f64 rtol=1e-12",
    rule="energy is not one of the six textbook anchor energies (generic value compared against the closed form)",
    nontrivial_floor=0.4,
)
def check_wavelength_sigma(case, ctx):
    from abtem.core.energy import (
        Accelerator,
        energy2mass,
        energy2sigma,
        energy2wavelength,
        relativistic_mass_correction,
    )

    E = case["energy"]
    ctx.label("int" if isinstance(E, int) else "float")
    ctx.label(f"decade{int(math.floor(math.log10(E)))}")
    ctx.nontrivial(float(E) not in ANCHORS)
    h, c, m, e = _const()

    lam = energy2wavelength(E)
    ref = ref_wavelength(E)
    if not (isinstance(lam, float) and math.isfinite(lam) and lam > 0):
        raise Violation(f"wavelength({E!r}) = {lam!r} is not a positive finite float", ("wavelength", "positive"))
    if _rel(lam, ref) > RTOL:
        raise Violation(f"wavelength({E!r}) = {lam!r}, closed form {ref!r} (rel {_rel(lam, ref):.2e})", ("wavelength", "value"))

    gamma = relativistic_mass_correction(E)
    gref = 1.0 + e * float(E) / (m * c * c)
    if _rel(gamma, gref) > RTOL:
        raise Violation(f"relativistic_mass_correction({E!r}) = {gamma!r} != {gref!r}", ("gamma",))
    mass = energy2mass(E)
    if _rel(mass, gref * m) > RTOL:
        raise Violation(f"energy2mass({E!r}) = {mass!r} != {gref * m!r}", ("mass",))

    sig = energy2sigma(E)
    if not (isinstance(sig, float) and math.isfinite(sig) and sig > 0):
        raise Violation(f"sigma({E!r}) = {sig!r} is not a positive finite float", ("sigma", "positive"))
    sref = ref_sigma(E)
    if _rel(sig, sref) > RTOL:
        raise Violation(f"sigma({E!r}) = {sig!r}, 2 pi m gamma e lambda / h^2 = {sref!r} (rel {_rel(sig, sref):.2e})", ("sigma", "value"))
    # the statement's formula with abTEM's own lambda and relativistic mass
    s2 = 2.0 * math.pi * mass * e * (lam * 1e-10) / (h * h) * 1e-10
    if _rel(sig, s2) > RTOL:
        raise Violation(f"sigma({E!r}) = {sig!r} but 2 pi m lambda e / h^2 from energy2mass/energy2wavelength = {s2!r}", ("sigma", "self_consistent"))
    # oracle cross-check (harness sanity: two independent forms of the reference agree)
    if _rel(ref_sigma_alt(E), sref) > 1e-10:
        raise RuntimeError(f"reference forms of sigma disagree at {E!r}")

    # the Accelerator object exposes the same numbers
    acc = Accelerator(energy=E)
    if acc.energy != float(E) or acc.wavelength != lam or acc.sigma != sig:
        raise Violation(f"Accelerator({E!r}) gives energy={acc.energy!r} wavelength={acc.wavelength!r} sigma={acc.sigma!r}", ("accelerator",))


@st.composite
def anchor_case(draw):
    return {"energy": draw(st.sampled_from(sorted(ANCHORS)))}


@claim(
    "C24",
    "anchors",
    anchor_case,
    quick=40,
    thorough=100,
    tol="textbook 4-5 significant digits (rtol 6e-5)",
    rule="always (finite domain: six textbook energies; pins the closed-form oracle and abTEM to published values)",
    nontrivial_floor=0.9,
)
def check_anchors(case, ctx):
    from abtem.core.energy import energy2sigma, energy2wavelength

    E = case["energy"]
    lam_tab, sig_tab = ANCHORS[E]
    ctx.nontrivial()
    # the oracle itself (a wrong oracle is a harness error, not a finding)
    if _rel(ref_wavelength(E), lam_tab) > 6e-5 or _rel(ref_sigma(E) * 1e3, sig_tab) > 6e-5:
        raise RuntimeError(f"reference closed forms disagree with the textbook at {E}")
    if _rel(energy2wavelength(E), lam_tab) > 6e-5:
        raise Violation(f"wavelength({E}) = {energy2wavelength(E)} vs textbook {lam_tab}", ("anchor", "wavelength"))
    if _rel(energy2sigma(E) * 1e3, sig_tab) > 6e-5:
        raise Violation(f"sigma({E}) = {energy2sigma(E)} vs textbook {sig_tab}e-3", ("anchor", "sigma"))


@claim(
    "C24",
    "wavelength_decreasing",
    pair_case,
    quick=3000,
    thorough=60000,
    tol="exact (strict inequality on pairs with E2 >= E1 (1+1e-9))",
    rule="relative energy gap below 1e-3 (the two wavelengths differ in the last digits only)",
    nontrivial_floor=0.15,
)
def check_decreasing(case, ctx):
    from abtem.core.energy import energy2wavelength

    e1, e2 = case["e1"], case["e2"]
    assert e2 >= e1 * (1 + 1e-9) > 0  # generator contract
    gap = e2 / e1 - 1.0
    ctx.nontrivial(gap < 1e-3)
    ctx.label("gap<1e-6", gap < 1e-6)
    l1, l2 = energy2wavelength(e1), energy2wavelength(e2)
    if not (l2 < l1):
        raise Violation(f"wavelength not strictly decreasing: E={e1!r} -> {l1!r}, E={e2!r} -> {l2!r}", ("monotone",))
    if not (l1 > 0 and l2 > 0):
        raise Violation(f"non-positive wavelength {l1!r}, {l2!r}", ("wavelength", "positive"))


@claim(
    "C24",
    "angular_sampling",
    sampling_case,
    quick=3000,
    thorough=60000,
    tol="f64 rtol=1e-12",
    rule="at least one non-zero reciprocal sampling",
    nontrivial_floor=0.5,
)
def check_angular(case, ctx):
    from abtem.core.energy import reciprocal_space_sampling_to_angular_sampling

    E = case["energy"]
    ks = tuple(case["reciprocal_space_sampling"])
    ctx.label(f"ndim{len(ks)}")
    ctx.nontrivial(any(k != 0 for k in ks))
    out = reciprocal_space_sampling_to_angular_sampling(ks, E)
    if not (isinstance(out, tuple) and len(out) == len(ks)):
        raise Violation(f"result {out!r} for sampling {ks!r}", ("angular", "shape"))
    lam = ref_wavelength(E)
    for k, a in zip(ks, out):
        ref = k * lam * 1e3
        if abs(a - ref) > RTOL * abs(ref):
            raise Violation(f"angular sampling {a!r} for dk={k!r} at E={E!r}; dk*lambda*1e3 = {ref!r}", ("angular", "value"))


@claim(
    "C24",
    "rejects_nonpositive",
    nonpositive_case,
    quick=1500,
    thorough=20000,
    tol="exact (ValueError)",
    rule="always (every case is a non-positive energy that must be rejected)",
    nontrivial_floor=0.9,
)
def check_rejects(case, ctx):
    from abtem.core.energy import (
        Accelerator,
        energy2sigma,
        energy2wavelength,
        reciprocal_space_sampling_to_angular_sampling,
    )

    E = case["energy"]
    assert E <= 0
    fn = case["function"]
    ctx.label(case["kind"])
    ctx.label(fn)
    ctx.nontrivial()
    try:
        if fn == "wavelength":
            out = energy2wavelength(E)
        elif fn == "sigma":
            out = energy2sigma(E)
        elif fn == "angular":
            out = reciprocal_space_sampling_to_angular_sampling((0.1, 0.2), E)
        else:
            acc = Accelerator(energy=E)
            out = (acc.wavelength, acc.sigma)
    except ValueError:
        return  # documented rejection
    raise Violation(f"{fn} accepted the non-positive energy {E!r} and returned {out!r}", ("accepts_nonpositive", fn, "zero" if E == 0 else "negative"))
