"""C17 Simulation grids stay consistent through any history of edits (abtem/core/grid.py).

A case is an initial ``Grid(...)`` plus a list of operations, interpreted one by one; the
contract is asserted after EVERY step:

  * all of extent / gpts / sampling defined  =>  per axis extent == (gpts - endpoint) * sampling
    (rtol 1e-12) and reciprocal_space_sampling == 1 / (gpts * sampling); gpts positive ints;
    nothing NaN / inf / non-positive;
  * an assignment that raises (RuntimeError: locks, invalid length) leaves all three unchanged;
    on a grid without locks a valid assignment must not raise;
  * the assigned quantity has the assigned value (extent, gpts exactly; sampling is the
    largest value <= the requested one that divides the extent, or the requested one when
    the extent follows) - the contract abTEM's own test_grid.py states for single edits;
  * a quantity whose lock flag is set and that was defined before the step has exactly the
    value it had before the step.

The lock clause is checked LAST in every step, so that a known lock misbehaviour (see
known_findings.d/C17.json) never masks another clause in the same step; its bucket is
("locked_changed", "locks=<flags>", <rule>), i.e. the lock combination and the operation.

Degenerate single-point axes that include their endpoint (gpts == 1 with endpoint=True) are
not generated: no sampling satisfies extent == 0 * sampling for a positive extent.
Re-assignments of a *nearly* equal extent under lock_extent (abTEM compares with np.allclose and
then stores the new value, e.g. 1.9999999999999998 -> 2.0) are skipped: an assigned extent is
either identical to the locked one or differs by > 1e-3 relative.
"""

from __future__ import annotations

import math

from hypothesis import strategies as st

from pbt.core import Violation, claim
from pbt import gen

RTOL = 1e-12
QUANT = ("extent", "gpts", "sampling")


# ----------------------------------------------------------------------- generators
def _base_samplings():
    return st.sampled_from([0.1, 0.05, 0.2, 0.25, 0.3, 0.02]) | gen.floats(0.01, 2.0)


@st.composite
def _per_axis(draw, elem_for_axis, dims, scalar_elem=None):
    """a scalar (applies to every axis) or a per-axis list"""
    if dims == 1:
        return draw(elem_for_axis(0)) if draw(st.booleans()) else [draw(elem_for_axis(0))]
    if draw(st.booleans()):
        return draw(scalar_elem if scalar_elem is not None else elem_for_axis(0))
    return [draw(elem_for_axis(i)) for i in range(dims)]


def _extent_values(d0):
    return st.one_of(
        st.integers(1, 200).map(lambda k: k * d0),  # "exact" multiples of the base sampling (float noise included)
        st.integers(1, 60).map(lambda k: round(k * 0.1, 10)),  # 1.1 / 0.1 = 11.000000000000002 paths
        gen.floats(0.5, 40.0),
        st.integers(1, 40).map(float),
    )


def _sampling_values(d0):
    return st.one_of(st.sampled_from([d0, d0 / 2, 2 * d0, d0 / 3, 0.1, 0.05]), gen.floats(0.01, 2.0))


def _gpts_values(lo):
    return st.integers(lo, 200) | st.integers(lo, 12)


@st.composite
def grid_history(draw, max_ops=10):
    dims = draw(st.sampled_from([1, 2, 2, 2]))
    ep = draw(st.sampled_from(["False", "True", "mixed"]))
    if ep == "False":
        endpoint = [False] * dims
    elif ep == "True":
        endpoint = [True] * dims
    else:
        endpoint = [draw(st.booleans()) for _ in range(dims)]
    endpoint_arg = endpoint[0] if (len(set(endpoint)) == 1 and draw(st.booleans())) else list(endpoint)
    d0 = draw(_base_samplings())
    min_n = [2 if e else 1 for e in endpoint]
    scalar_min_n = max(min_n)

    def extent_v():
        return _per_axis(lambda i: _extent_values(d0), dims)

    def sampling_v():
        return _per_axis(lambda i: _sampling_values(d0), dims)

    def gpts_v():
        return _per_axis(lambda i: _gpts_values(min_n[i]), dims, scalar_elem=_gpts_values(scalar_min_n))

    given = draw(st.sampled_from([[], ["extent"], ["gpts"], ["sampling"], ["extent", "gpts"], ["extent", "sampling"], ["gpts", "sampling"], ["extent", "gpts"], ["gpts", "sampling"]]))
    init = {"extent": None, "gpts": None, "sampling": None}
    if "extent" in given:
        init["extent"] = draw(extent_v())
    if "gpts" in given:
        init["gpts"] = draw(gpts_v())
    if "sampling" in given:
        init["sampling"] = draw(sampling_v())
    # lock flags only on quantities that are defined after construction
    lockable = list(QUANT) if len(given) == 2 else list(given)
    lock_choice = draw(st.sampled_from(["none", "none", "one", "one", "one", "two", "three"]))
    locks = []
    if lockable and lock_choice != "none":
        k = {"one": 1, "two": 2, "three": 3}[lock_choice]
        locks = sorted(draw(st.lists(st.sampled_from(lockable), min_size=min(k, len(lockable)), max_size=min(k, len(lockable)), unique=True)))

    def op():
        return st.one_of(
            extent_v().map(lambda v: {"op": "set_extent", "value": v}),
            extent_v().map(lambda v: {"op": "set_extent", "value": v}),
            gpts_v().map(lambda v: {"op": "set_gpts", "value": v}),
            gpts_v().map(lambda v: {"op": "set_gpts", "value": v}),
            sampling_v().map(lambda v: {"op": "set_sampling", "value": v}),
            sampling_v().map(lambda v: {"op": "set_sampling", "value": v}),
            st.sampled_from(QUANT).map(lambda q: {"op": "set_same", "field": q}),
            st.just({"op": "copy"}),
            st.sampled_from(QUANT).map(lambda q: {"op": "bad_length", "field": q}),
            match_op(),
        )

    @st.composite
    def match_op(draw):
        og = draw(st.sampled_from([[], ["extent"], ["gpts"], ["sampling"], ["extent", "gpts"], ["extent", "sampling"], ["gpts", "sampling"]]))
        other = {"extent": None, "gpts": None, "sampling": None}
        if "extent" in og:
            other["extent"] = draw(extent_v())
        if "gpts" in og:
            other["gpts"] = draw(gpts_v())
        if "sampling" in og:
            other["sampling"] = draw(sampling_v())
        return {"op": "match", "other": other, "check_match": draw(st.booleans()), "other_is_self_copy": draw(st.integers(0, 5)) == 0}

    # lists average ~6 operations for min_size=1; draw the minimal length so that longer
    # histories (>= 3 successful assignments) are common and still shrink to one operation
    min_ops = draw(st.sampled_from([1, 4, 8]))
    ops = draw(st.lists(op(), min_size=min_ops, max_size=max_ops))
    return {"dimensions": dims, "endpoint": endpoint_arg, "init": init, "locks": locks, "ops": ops}


def history():
    return grid_history(max_ops=20)


# ----------------------------------------------------------------------- helpers
def _arg(v):
    return tuple(v) if isinstance(v, list) else v


def _make_grid(case, spec=None, locks=None):
    from abtem.core.grid import Grid

    spec = case["init"] if spec is None else spec
    locks = case["locks"] if locks is None else locks
    return Grid(
        extent=_arg(spec["extent"]),
        gpts=_arg(spec["gpts"]),
        sampling=_arg(spec["sampling"]),
        dimensions=case["dimensions"],
        endpoint=_arg(case["endpoint"]),
        lock_extent="extent" in locks,
        lock_gpts="gpts" in locks,
        lock_sampling="sampling" in locks,
    )


def _state(g):
    return {"extent": g.extent, "gpts": g.gpts, "sampling": g.sampling}


def _expand(v, dims):
    return tuple(v) if isinstance(v, (list, tuple)) else (v,) * dims


def _lockname(locks):
    return "locks=" + ("+".join(locks) if locks else "none")


def _check_invariants(g, dims, endpoint, where, lockname, rule):
    """consistency of a grid whose three quantities are all defined"""
    s = _state(g)
    for q in QUANT:
        v = s[q]
        if v is None:
            continue
        if not (isinstance(v, tuple) and len(v) == dims):
            raise Violation(f"{where}: {q} = {v!r} is not a {dims}-tuple", ("malformed", q))
        for x in v:
            if q == "gpts":
                if not (isinstance(x, int) and not isinstance(x, bool) and x > 0):
                    raise Violation(f"{where}: gpts {v!r} are not positive ints", ("gpts_not_positive_int", lockname, rule))
            elif not (isinstance(x, float) and math.isfinite(x) and x > 0):
                raise Violation(f"{where}: {q} {v!r} is not positive and finite", ("not_positive_finite", q, lockname, rule))
    if any(s[q] is None for q in QUANT):
        return False
    for ax in range(dims):
        E, N, D = s["extent"][ax], s["gpts"][ax], s["sampling"][ax]
        ref = (N - 1) * D if endpoint[ax] else N * D
        if abs(E - ref) > RTOL * max(abs(E), abs(ref)):
            raise Violation(
                f"{where}: inconsistent grid on axis {ax}: extent {E!r} != ({N} - {int(endpoint[ax])}) * {D!r} = {ref!r}",
                ("inconsistent", lockname, rule, "endpoint" if endpoint[ax] else "periodic"),
            )
    rs = g.reciprocal_space_sampling
    for ax in range(dims):
        ref = 1.0 / (s["gpts"][ax] * s["sampling"][ax])
        if abs(rs[ax] - ref) > RTOL * ref:
            raise Violation(f"{where}: reciprocal_space_sampling {rs!r} != 1/(gpts*sampling) = {ref!r} on axis {ax}", ("reciprocal", lockname, rule))
    return True


def _check_sampling_assigned(before, after, req, dims, endpoint, locks, ctx, where, lockname):
    """after a successful sampling assignment"""
    for ax in range(dims):
        d = req[ax]
        D = after["sampling"][ax]
        if "gpts" in locks or before["extent"] is None:
            # the extent follows (or nothing else is defined): sampling is what was asked
            if abs(D - d) > RTOL * d:
                raise Violation(f"{where}: sampling[{ax}] = {D!r} after assigning {d!r}", ("assigned_value", "sampling", lockname))
            continue
        E = before["extent"][ax]
        e = 1 if endpoint[ax] else 0
        n = after["gpts"][ax] - e  # number of intervals
        if D > d * (1 + RTOL):
            raise Violation(f"{where}: sampling[{ax}] = {D!r} is coarser than the requested {d!r}", ("assigned_value", "sampling_coarser", lockname))
        q = E / d
        if abs(q - round(q)) <= 1e-9 * q:
            ctx.skip()  # extent/sampling is an integer up to rounding: either neighbour is a valid ceil
            ok = n in (round(q), round(q) + 1)
        else:
            ok = n == math.ceil(q)
        if not ok:
            raise Violation(
                f"{where}: extent {E!r} / requested sampling {d!r} = {q!r} but {n} intervals were chosen (gpts {after['gpts'][ax]})",
                ("assigned_value", "sampling_gpts", lockname),
            )


def _run_history(case, ctx):
    from abtem.core.grid import Grid

    dims = case["dimensions"]
    endpoint = _expand(case["endpoint"], dims)
    locks = list(case["locks"])
    lockname = _lockname(locks)
    ctx.label(lockname)
    ctx.label("endpoint" if any(endpoint) else "periodic")

    g = _make_grid(case)
    defined = _check_invariants(g, dims, endpoint, "after construction", lockname, "init")
    for q in QUANT:
        v = case["init"][q]
        if v is not None and q != "sampling":
            exp = tuple((int if q == "gpts" else float)(x) for x in _expand(v, dims))
            if _state(g)[q] != exp:
                raise Violation(f"constructor: {q} = {_state(g)[q]!r}, given {exp!r}", ("constructor_value", q))

    successes, touched, steps_defined = 0, set(), 0
    for step, op in enumerate(case["ops"]):
        before = _state(g)
        kind = op["op"]
        where = f"step {step} {op} on {before} ({lockname}, endpoint={endpoint})"

        if kind == "copy":
            h = g.copy()
            if _state(h) != before or h.endpoint != g.endpoint or h.dimensions != dims or not (h == g):
                raise Violation(f"{where}: copy differs: {_state(h)}", ("copy",))
            if (h._lock_extent, h._lock_gpts, h._lock_sampling) != (g._lock_extent, g._lock_gpts, g._lock_sampling):
                raise Violation(f"{where}: copy lost the lock flags", ("copy", "locks"))
            g = h
            continue

        if kind == "match":
            if sorted(locks) not in ([], ["extent"], ["gpts"]):
                ctx.label("match_skipped")
                continue
            if op["other_is_self_copy"]:
                other = g.copy()
                other._lock_extent = other._lock_gpts = other._lock_sampling = False
            else:
                other = _make_grid(case, spec=op["other"], locks=[])
            _check_invariants(other, dims, endpoint, where + " (other, before)", "locks=none", "init")
            raised = None
            try:
                g.match(other, check_match=op["check_match"])
            except RuntimeError as e:
                raised = e
                if not locks and not op["check_match"]:
                    raise Violation(f"{where}: match raised {e!r} on a grid without locks", ("unexpected_raise", lockname, "match"))
            ctx.label("match_raised" if raised else "match_ok")
            after = _state(g)
            _check_invariants(g, dims, endpoint, where + " -> " + str(after), lockname, "match")
            _check_invariants(other, dims, endpoint, where + " (other) -> " + str(_state(other)), "locks=none", "match_other")
            if raised is None:
                try:
                    g.check_match(other)
                except RuntimeError as e:
                    raise Violation(f"{where}: after a successful match check_match fails: {e}", ("match_mismatch", lockname))
            for q in locks:
                if before[q] is not None and after[q] != before[q]:
                    raise Violation(f"{where}: locked {q} changed {before[q]!r} -> {after[q]!r}", ("locked_changed", lockname, "match"))
            continue

        # ---- plain assignments
        if kind == "set_same":
            field = op["field"]
            if before[field] is None:
                ctx.label("op_skipped")
                continue
            value = before[field]
            rule = f"set_{field}"  # same bucket as any other assignment of that quantity
        elif kind == "bad_length":
            field = op["field"]
            value = (1,) * (dims + 1)
            rule = f"bad_length_{field}"
        else:
            field = kind[4:]
            value = _arg(op["value"])
            rule = kind

        if field == "extent" and kind != "bad_length" and "extent" in locks and before["extent"] is not None:
            cur, new = before["extent"], tuple(float(x) for x in _expand(value, dims))
            if new != cur and all(abs(a - b) <= 1e-3 * abs(b) for a, b in zip(new, cur)):
                # lock_extent accepts re-assignments that are np.allclose to the current extent (so
                # that match() can re-assign float32-rounded extents) and stores the new value;
                # such nearly-equal values are outside this check (see module docstring)
                ctx.label("near_equal_locked_extent_skipped")
                continue

        raised = None
        try:
            setattr(g, field, value)
        except RuntimeError as e:
            raised = e
        except ValueError as e:
            # a wrong-length value may be rejected by numpy's broadcasting in the lock comparison
            # (ValueError) before Grid._validate rejects it (RuntimeError); any other ValueError escapes
            if kind != "bad_length":
                raise
            raised = e
        after = _state(g)

        if kind == "bad_length" and raised is None:
            raise Violation(f"{where}: a {dims + 1}-tuple was accepted for a {dims}-d grid", ("bad_length_accepted", field))
        if raised is not None:
            ctx.label("raised")
            if after != before:
                raise Violation(f"{where}: raised {raised!r} but changed the grid to {after}", ("raised_but_changed", lockname, rule))
            if not locks and kind != "bad_length":
                raise Violation(f"{where}: raised {raised!r} on a grid without locks", ("unexpected_raise", lockname, rule))
            continue

        successes += 1
        touched.add(field)
        where2 = where + " -> " + str(after)
        if _check_invariants(g, dims, endpoint, where2, lockname, rule):
            steps_defined += 1
        # the assigned quantity has the assigned value
        req = _expand(value, dims)
        if field == "extent":
            if after["extent"] != tuple(float(x) for x in req):
                raise Violation(f"{where2}: extent is not the assigned value", ("assigned_value", "extent", lockname))
        elif field == "gpts":
            if after["gpts"] != tuple(int(x) for x in req):
                raise Violation(f"{where2}: gpts is not the assigned value", ("assigned_value", "gpts", lockname))
        elif all(after[q] is not None for q in QUANT):
            _check_sampling_assigned(before, after, req, dims, endpoint, locks, ctx, where2, lockname)
        elif after["sampling"] != tuple(float(x) for x in req):
            raise Violation(f"{where2}: sampling is not the assigned value", ("assigned_value", "sampling", lockname))
        # locked quantities never change (checked last: see module docstring)
        for q in locks:
            if before[q] is not None and after[q] != before[q]:
                raise Violation(
                    f"{where2}: locked {q} changed {before[q]!r} -> {after[q]!r}",
                    ("locked_changed", lockname, rule),
                )

    ctx.label("fully_defined_steps>=1", steps_defined >= 1)
    ctx.nontrivial(successes >= 3 and len(touched) >= 2)


# ----------------------------------------------------------------------- claims
_RULE = "the history has >= 3 successful assignments touching >= 2 different quantities"


@claim(
    "C17",
    "history",
    history,
    quick=4000,
    thorough=40000,
    tol="f64 rtol=1e-12; locked quantities and assigned extent/gpts exact",
    rule=_RULE,
    nontrivial_floor=0.2,
    floors={"fully_defined_steps>=1": 0.5},
)
def check_history(case, ctx):
    _run_history(case, ctx)
