"""C29 Array-object structural operations keep data and metadata aligned
(abtem/array.py, abtem/core/axes.py).

Claims (each: result ``.array`` == the same NumPy operation on the input array, exactly
one axis-metadata entry per dimension, expected ensemble axes, base axes and metadata
carried over):
  getitem         ints / slices / lists / masks / None on ensemble axes; item metadata of
                  integer-indexed axes lands in ``metadata``; too many indices refused.
  stack           ``abtem.stack`` along every ensemble position with all spellings of the
                  new axis metadata.
  concatenate     ``abtem.concatenate`` along an ensemble axis (ordinal values joined).
  squeeze_expand  ``squeeze`` / ``expand_dims``.
  reduction       sum / mean / std / min / max over ensemble axes (keepdims or not);
                  base axes refused with RuntimeError.
  arithmetic      + - * / ** with scalars (both orders where offered), arrays, objects.

Generator soundness (from the code and its callers):
* at most one list/mask index per expression and no integer next to it (NumPy's
  advanced-indexing rules would otherwise move/merge dimensions);
* PotentialArray: always a tuple of items, no ``None`` (its ``__getitem__`` documents
  "only slice indices and ensemble indices"), no concatenate (``from_array_and_metadata``
  raises NotImplementedError by design);
* LinearAxis offsets after slicing are not asserted (DESIGN.md section 5);
* min / max only for real dtypes; in-place arithmetic only for eager objects;
* lazy objects: no ``None`` together with a list/mask index (dask 2026.8 raises inside
  ``dask.array.slicing`` for ``x[None, [0, 1]]``) and slice bounds within [-n, n] (dask
  returns a non-empty result for ``x[-n-1::-1]``) - dask defects, not abTEM code.
Base-axis float fields are compared to 1e-12 (abTEM re-derives sampling from
extent / gpts whenever it rebuilds an object), everything else exactly.
"""

from __future__ import annotations

import copy
import operator

import numpy as np
from hypothesis import strategies as st

from pbt import gen, tol
from pbt.core import Violation, claim
from pbt.props import _arrayobjs as ao
index_item, make_item, select = ao.index_item, ao.make_item, ao.select

BASE_RTOL = 1e-12
ALL_TYPES = ao.OBJ_TYPES


# ======================================================================= shared oracle parts
def _snapshot(obj):
    """What must be carried over: metadata and base axes of the *input* object."""
    return copy.deepcopy(dict(obj.metadata)), [copy.deepcopy(a) for a in obj.base_axes_metadata]


def _check_array(res_array, ref, what, bucket, rtol=0.0):
    got = ao.computed(res_array)
    if got.shape != ref.shape:
        raise Violation(f"{what}: result shape {got.shape}, NumPy gives {ref.shape}", ("shape",) + bucket)
    if rtol == 0.0:
        ok = got.dtype == ref.dtype and got.tobytes() == ref.tobytes() or np.array_equal(got, ref, equal_nan=True)
    else:
        ok = tol.close(got, ref, rtol=rtol)
    if not ok:
        raise Violation(
            f"{what}: array differs from the NumPy result (rel. err {tol.rel_err(got, ref):.2e}, dtype {got.dtype} vs {ref.dtype})",
            ("values",) + bucket,
        )


def _check_axes(res, expected_ens, base_axes, what, bucket):
    """expected_ens: list of (axis_object, exclude_fields) or None (= present, unasserted)."""
    axes = list(res.axes_metadata)
    ndim = len(res.array.shape)
    if len(axes) != ndim:
        raise Violation(f"{what}: {len(axes)} axis-metadata entries for {ndim} dimensions", ("axes_count",) + bucket)
    n_ens = ndim - len(base_axes)
    if len(expected_ens) != n_ens:
        raise Violation(f"{what}: result has {n_ens} ensemble dims, expected {len(expected_ens)}", ("ens_dims",) + bucket)
    for i, (got, exp) in enumerate(zip(axes[:n_ens], expected_ens)):
        if exp is None:
            continue
        exp_axis, exclude = exp
        if not ao.axes_identical(got, exp_axis, exclude=exclude):
            raise Violation(
                f"{what}: ensemble axis {i} is {ao.describe_axis(got)}, expected {ao.describe_axis(exp_axis)}",
                ("ens_axis",) + bucket,
            )
        if hasattr(got, "values") and len(got.values) != res.array.shape[i]:
            raise Violation(f"{what}: axis {i} has {len(got.values)} values for a dimension of {res.array.shape[i]}", ("values_len",) + bucket)
    for i, (got, exp) in enumerate(zip(axes[n_ens:], base_axes)):
        if not ao.axes_identical(got, exp, rtol=BASE_RTOL):
            raise Violation(f"{what}: base axis {i} changed: {ao.describe_axis(exp)} -> {ao.describe_axis(got)}", ("base_axis",) + bucket)


def _check_metadata(res, expected, what, bucket):
    got = res.metadata
    if set(got) != set(expected):
        raise Violation(f"{what}: metadata keys {sorted(got)} != expected {sorted(expected)}", ("metadata_keys",) + bucket)
    for k in expected:
        if not ao.same_value(got[k], expected[k]):
            raise Violation(f"{what}: metadata[{k!r}] = {got[k]!r}, expected {expected[k]!r}", ("metadata_value", k if k.startswith("base_tilt") else "item") + bucket)


def _obj_labels(ctx, spec):
    ctx.label("type=" + spec["type"])
    ctx.label("lazy" if spec["lazy"] else "eager")
    ctx.label(f"ens={len(spec['ens'])}")


def _item_metadata(aspec, axis_obj, index, obj_metadata):
    """Independent model of what selecting ONE item of an axis contributes to metadata."""
    cls = aspec["cls"]
    if cls not in ao.ORDINAL_AXES:
        return {}
    value = ao.plain_values(aspec["values"])[index]
    if cls == "TiltAxis":
        return {"base_tilt_x": value[0], "base_tilt_y": value[1]}
    if cls == "AxisAlignedTiltAxis":
        key = "base_tilt_" + aspec["fields"].get("direction", "x")
        return {key: value + obj_metadata[key] if key in obj_metadata else value}
    return {axis_obj.label: value}


# ======================================================================= __getitem__
@st.composite
def getitem_case(draw):
    spec = draw(ao.object_spec(min_ens=draw(st.sampled_from([0, 1, 1, 1])), max_ens=3))
    nens = len(spec["ens"])
    is_pot = spec["type"] == "PotentialArray"
    too_many = draw(st.integers(0, 11)) == 0
    if too_many:
        m = nens + (2 if is_pot else 1) + draw(st.integers(0, 1))
    else:
        m = draw(st.integers(min(1, nens), nens))
    items = []
    for i in range(m):
        n = spec["ens"][i]["n"] if i < nens else (spec["base"] + [2, 2, 2])[i - nens]
        it = draw(index_item(n))
        if it["kind"] == "masklist" and n == 0:
            it = {"kind": "mask", "mask": []}
        if it["kind"] == "slice" and spec["lazy"]:
            # dask (2026.8) mis-normalises out-of-range slice bounds with a negative step
            # (`da_array[-n-1::-1]` is not empty as in NumPy): lazy objects get in-range bounds
            for bound in ("start", "stop"):
                if it[bound] is not None:
                    it[bound] = max(-n, min(n, it[bound]))
        items.append(it)
    # NumPy advanced-indexing soundness: at most one list/mask, and no integer with it
    adv = [k for k, it in enumerate(items) if it["kind"] in ("list", "nparray", "mask", "masklist")]
    if adv:
        keep = adv[draw(st.integers(0, len(adv) - 1))]
        for k, it in enumerate(items):
            if k != keep and it["kind"] not in ("slice",):
                items[k] = {"kind": "slice", "start": None, "stop": None, "step": draw(st.sampled_from([None, 1, -1, 2]))}
    # dask (2026.8) itself fails on newaxis + a list/mask that selects everything in order
    # (`da_array[None, [0, 1]]` -> AttributeError in dask.array.slicing): not abTEM's code,
    # so lazy objects never get None next to a list/mask
    if not is_pot and not (spec["lazy"] and adv):
        for _ in range(draw(st.sampled_from([0, 0, 0, 1, 2]))):
            items.insert(draw(st.integers(0, len(items))), {"kind": "none"})
    bare = len(items) == 1 and not is_pot and draw(st.booleans())
    if len(items) == 0 and is_pot:
        items = [{"kind": "slice", "start": None, "stop": None, "step": None}] if nens else []
    return {"obj": spec, "items": items, "bare": bare}


def _mk(it):
    return None if it["kind"] == "none" else make_item(it)


@claim(
    "C29",
    "getitem",
    getitem_case,
    quick=300,
    thorough=12000,
    tol="exact",
    rule=">=1 ensemble axis and an index expression that changes the shape or refuses",
    nontrivial_floor=0.35,
    max_shrink_calls=250,
)
def check_getitem(case, ctx):
    spec, items = case["obj"], case["items"]
    _obj_labels(ctx, spec)
    nens = len(spec["ens"])
    is_pot = spec["type"] == "PotentialArray"
    obj = ao.make_object(spec)
    md0, base_axes = _snapshot(obj)
    ref = ao.make_array(spec)
    key = [_mk(it) for it in items]
    n_real = sum(1 for it in items if it["kind"] != "none")
    for it in items:
        ctx.label("item=" + it["kind"])
    if len(items) == 0 and not case["bare"]:
        if is_pot and nens == 0:
            return  # nothing to index
    index = key[0] if case["bare"] else tuple(key)

    if n_real > nens:
        ctx.nontrivial(nens >= 1)
        ctx.label("too_many")
        if is_pot and n_real == nens + 1:
            return  # slice index of a potential: a documented feature, not part of this property
        try:
            obj[index]
        except (IndexError if is_pot else RuntimeError):
            return
        raise Violation(f"{n_real} indices accepted for {nens} ensemble axes ({spec['type']})", ("base_axis_indexed", spec["type"]))

    res = obj[index]
    bucket = ("getitem", "lazy" if spec["lazy"] else "eager")
    if type(res) is not type(obj):
        raise Violation(f"type changed to {type(res).__name__}", ("type",) + bucket)
    expected_array = ref[tuple(key)]
    ctx.nontrivial(nens >= 1 and expected_array.shape != ref.shape)
    _check_array(res.array, expected_array, f"obj[{index!r}]", bucket)

    expected_axes = []
    expected_md = dict(md0)
    from abtem.core.axes import UnknownAxis

    pos = 0
    for it in items:
        if it["kind"] == "none":
            expected_axes.append((UnknownAxis(), ()))
            continue
        aspec = spec["ens"][pos]
        axis = ao.make_axis(aspec)
        if it["kind"] in ("int", "npint"):
            expected_md.update(_item_metadata(aspec, axis, it["i"], md0))
        elif aspec["cls"] in ao.ORDINAL_AXES:
            expected_axes.append((ao.axis_with_values(aspec, select(ao.plain_values(aspec["values"]), it)), ()))
        else:
            expected_axes.append((axis, ("offset",) if aspec["cls"] in ao.LINEAR_AXES else ()))
        pos += 1
    for aspec in spec["ens"][pos:]:
        expected_axes.append((ao.make_axis(aspec), ()))
    _check_axes(res, expected_axes, base_axes, f"obj[{index!r}]", bucket)
    _check_metadata(res, expected_md, f"obj[{index!r}]", bucket)
    # the input object is not disturbed
    if not ao.strict_equal(dict(obj.metadata), md0) or ao.computed(obj).tobytes() != ref.tobytes():
        raise Violation("indexing changed the indexed object", ("mutates",) + bucket)


# ======================================================================= stack
@st.composite
def stack_case(draw):
    spec = draw(ao.object_spec(max_ens=2))
    k = draw(st.integers(1, 3))
    members = [{"seed": draw(gen.seeds()), "lazy": draw(st.booleans())} for _ in range(k)]
    kind = draw(st.sampled_from(["none", "strs", "strs_tuple", "dict", "ordinal"]))
    if kind in ("strs", "strs_tuple"):
        am = {"kind": kind, "values": [draw(st.sampled_from(["a", "b", "bright", "dark", "Δ", ""])) for _ in range(k)]}
    elif kind == "dict":
        am = {"kind": kind, "label": draw(st.sampled_from(["", "run", "defocus"])), "values": [draw(st.integers(-40, 40)) / 8.0 for _ in range(k)]}
        if draw(st.booleans()):
            am["units"] = draw(st.sampled_from(["Å", "mrad", ""]))
    elif kind == "ordinal":
        am = {"kind": kind, "axis": draw(ao.axis_spec(n=k, classes=ao.ORDINAL_AXES))}
    else:
        am = {"kind": "none"}
    return {"obj": spec, "members": members, "axis": draw(st.integers(0, len(spec["ens"]))), "axis_metadata": am, "as_tuple": draw(st.booleans())}


@claim(
    "C29",
    "stack",
    stack_case,
    quick=210,
    thorough=8000,
    tol="exact",
    rule=">=2 members, or >=1 ensemble axis (the new axis is inserted between existing ones)",
    nontrivial_floor=0.4,
    max_shrink_calls=250,
)
def check_stack(case, ctx):
    from abtem.array import stack
    from abtem.core.axes import OrdinalAxis, UnknownAxis

    spec, members, axis, am = case["obj"], case["members"], case["axis"], case["axis_metadata"]
    _obj_labels(ctx, spec)
    ctx.label("axis_metadata=" + am["kind"])
    k = len(members)
    ctx.nontrivial(k >= 2 or len(spec["ens"]) >= 1)
    specs = []
    for m in members:
        s = dict(spec, seed=m["seed"], lazy=m["lazy"], chunks=None)
        if m["lazy"]:
            s["chunks"] = spec["chunks"] if spec["lazy"] else [[a["n"]] for a in spec["ens"]]
        specs.append(s)
    objs = [ao.make_object(s) for s in specs]
    md0, base_axes = _snapshot(objs[0])
    refs = [ao.make_array(s) for s in specs]
    if am["kind"] == "none":
        arg, new_axis = None, UnknownAxis()
    elif am["kind"] in ("strs", "strs_tuple"):
        arg = list(am["values"]) if am["kind"] == "strs" else tuple(am["values"])
        new_axis = OrdinalAxis(values=tuple(am["values"]))
    elif am["kind"] == "dict":
        arg = {key: (tuple(v) if key == "values" else v) for key, v in am.items() if key != "kind"}
        new_axis = OrdinalAxis(**{key: (tuple(v) if key == "values" else v) for key, v in am.items() if key != "kind"})
    else:
        arg, new_axis = ao.make_axis(am["axis"]), ao.make_axis(am["axis"])
    seq = tuple(objs) if case["as_tuple"] else list(objs)
    res = stack(seq, arg, axis=axis) if am["kind"] != "none" or axis != 0 else stack(seq)
    bucket = ("stack", am["kind"])
    if type(res) is not type(objs[0]):
        raise Violation(f"type changed to {type(res).__name__}", ("type",) + bucket)
    _check_array(res.array, np.stack(refs, axis=axis), f"stack(axis={axis})", bucket)
    ens = [(ao.make_axis(a), ()) for a in spec["ens"]]
    ens.insert(axis, (new_axis, ()))
    _check_axes(res, ens, base_axes, f"stack(axis={axis}, {am['kind']})", bucket)
    _check_metadata(res, md0, "stack", bucket)


# ======================================================================= concatenate
@st.composite
def concat_case(draw):
    types = [t for t in ALL_TYPES if t != "PotentialArray"]
    spec = draw(ao.object_spec(types=types, min_ens=1, max_ens=3))
    k = draw(st.integers(0, len(spec["ens"]) - 1))
    aspec = spec["ens"][k]
    if aspec["cls"] in ao.ORDINAL_AXES:
        aspec["fields"].pop("_concatenate", None)  # not defined for ordinal axes (see C35)
    parts = []
    for _ in range(draw(st.integers(1, 2))):
        n = draw(st.integers(1, 3))
        part = {"n": n, "seed": draw(gen.seeds()), "lazy": draw(st.booleans())}
        if aspec["cls"] in ao.ORDINAL_AXES:
            part["values"] = draw(ao.ordinal_values(aspec["cls"], n))
        parts.append(part)
    return {"obj": spec, "axis": k, "parts": parts}


@claim(
    "C29",
    "concatenate",
    concat_case,
    quick=210,
    thorough=8000,
    tol="exact",
    rule="always (>=1 ensemble axis and >=2 operands by construction)",
    nontrivial_floor=0.9,
    max_shrink_calls=250,
)
def check_concatenate(case, ctx):
    from abtem.array import concatenate

    spec, k, parts = case["obj"], case["axis"], case["parts"]
    _obj_labels(ctx, spec)
    aspec = spec["ens"][k]
    ordinal = aspec["cls"] in ao.ORDINAL_AXES
    ctx.label("axis_cls=" + aspec["cls"])
    ctx.nontrivial(True)
    specs = [spec]
    for p in parts:
        s = copy.deepcopy(spec)
        s["seed"], s["lazy"] = p["seed"], p["lazy"]
        s["ens"][k]["n"] = p["n"]
        if ordinal:
            s["ens"][k]["values"] = p["values"]
        s["chunks"] = [[a["n"]] for a in s["ens"]] if p["lazy"] else None
        specs.append(s)
    objs = [ao.make_object(s) for s in specs]
    md0, base_axes = _snapshot(objs[0])
    refs = [ao.make_array(s) for s in specs]
    axis_obj = ao.make_axis(aspec)
    bucket = ("concatenate", "ordinal" if ordinal else "plain")
    if not ordinal and not axis_obj._concatenate:
        ctx.label("refusal")
        try:
            concatenate(objs, axis=k)
        except RuntimeError:
            return
        raise Violation(f"concatenated along an axis marked _concatenate=False: {ao.describe_axis(axis_obj)}", ("accepts_nonconcatenable",))
    res = concatenate(objs, axis=k)
    if type(res) is not type(objs[0]):
        raise Violation(f"type changed to {type(res).__name__}", ("type",) + bucket)
    _check_array(res.array, np.concatenate(refs, axis=k), f"concatenate(axis={k})", bucket)
    ens = [(ao.make_axis(a), ()) for a in spec["ens"]]
    if ordinal:
        values = []
        for s in specs:
            values += ao.plain_values(s["ens"][k]["values"])
        ens[k] = (ao.axis_with_values(aspec, values), ())
    _check_axes(res, ens, base_axes, f"concatenate(axis={k})", bucket)
    _check_metadata(res, md0, "concatenate", bucket)


# ======================================================================= squeeze / expand_dims
@st.composite
def squeeze_expand_case(draw):
    op = draw(st.sampled_from(["squeeze", "expand", "expand"]))
    if op == "squeeze":
        spec = draw(ao.object_spec(max_ens=3, n_choices=[1, 1, 1, 2, 3]))
        ones = [i for i, a in enumerate(spec["ens"]) if a["n"] == 1]
        if draw(st.booleans()):
            axis = None
        else:
            axis = [i for i in ones if draw(st.booleans())]
        return {"op": op, "obj": spec, "axis": axis, "negative": draw(st.booleans())}
    spec = draw(ao.object_spec(max_ens=2))
    nens = len(spec["ens"])
    count = draw(st.integers(1, 2))
    axis = sorted(draw(st.lists(st.integers(0, nens + count - 1), min_size=count, max_size=count, unique=True)))
    order = draw(st.sampled_from(["sorted", "sorted", "sorted", "unsorted"])) if count == 2 else "sorted"
    if order == "unsorted":
        axis = axis[::-1]
    am = None
    if draw(st.booleans()):
        am = [draw(ao.axis_spec(n=1)) for _ in range(count)]
    return {"op": op, "obj": spec, "axis": axis, "axis_metadata": am, "bare_int": count == 1 and draw(st.booleans())}


@claim(
    "C29",
    "squeeze_expand",
    squeeze_expand_case,
    quick=270,
    thorough=10000,
    tol="exact",
    rule="the number of dimensions changes",
    nontrivial_floor=0.5,
    max_shrink_calls=250,
)
def check_squeeze_expand(case, ctx):
    from abtem.core.axes import UnknownAxis

    spec = case["obj"]
    _obj_labels(ctx, spec)
    ctx.label("op=" + case["op"])
    nens = len(spec["ens"])
    obj = ao.make_object(spec)
    md0, base_axes = _snapshot(obj)
    ref = ao.make_array(spec)
    if case["op"] == "squeeze":
        axis = case["axis"]
        if axis is None:
            removed = [i for i, a in enumerate(spec["ens"]) if a["n"] == 1]
            res = obj.squeeze()
        else:
            removed = list(axis)
            arg = tuple((i - ref.ndim) if case["negative"] else i for i in axis)
            res = obj.squeeze(arg)
        bucket = ("squeeze", "all" if axis is None else "subset")
        ctx.nontrivial(len(removed) > 0)
        # only ensemble axes are squeezed (documented: base axes describe the measurement)
        expected = ref.reshape([n for i, n in enumerate(ref.shape) if i not in removed])
        _check_array(res.array, expected, f"squeeze({axis})", bucket)
        ens = [(ao.make_axis(a), ()) for i, a in enumerate(spec["ens"]) if i not in removed]
        _check_axes(res, ens, base_axes, f"squeeze({axis})", bucket)
        _check_metadata(res, md0, "squeeze", bucket)
        return
    axis, am = case["axis"], case["axis_metadata"]
    unsorted = list(axis) != sorted(axis)
    ctx.label("unsorted_axes", unsorted)
    ctx.label("with_axis_metadata", am is not None)
    ctx.nontrivial(True)
    bucket = ("expand_dims", "unsorted" if unsorted else "sorted", "given" if am else "default")
    new_axes = [ao.make_axis(a) for a in am] if am else None
    arg_axis = axis[0] if case["bare_int"] else tuple(axis)
    res = obj.expand_dims(arg_axis, [ao.make_axis(a) for a in am]) if am else obj.expand_dims(arg_axis)
    if type(res) is not type(obj):
        raise Violation(f"type changed to {type(res).__name__}", ("type",) + bucket)
    _check_array(res.array, np.expand_dims(ref, tuple(axis)), f"expand_dims({axis})", bucket)
    total = nens + len(axis)
    ens = [None] * total
    for j, a in enumerate(axis):
        ens[a] = (new_axes[j] if new_axes else UnknownAxis(), ())
    rest = iter(spec["ens"])
    for i in range(total):
        if ens[i] is None:
            ens[i] = (ao.make_axis(next(rest)), ())
    _check_axes(res, ens, base_axes, f"expand_dims({axis})", bucket)
    _check_metadata(res, md0, "expand_dims", bucket)


# ======================================================================= reductions
@st.composite
def reduction_case(draw):
    spec = draw(ao.object_spec(max_ens=3))
    nens = len(spec["ens"])
    ndim = nens + len(spec["base"])
    real = np.dtype(spec["dtype"]).kind != "c"
    func = draw(st.sampled_from(["sum", "mean", "std"] + (["min", "max"] if real else [])))
    mode = draw(st.sampled_from(["ens", "ens", "ens", "ens", "base", "none"])) if nens else draw(st.sampled_from(["base", "none"]))
    if mode == "none":
        axis = None
    elif mode == "ens":
        axes = draw(st.lists(st.integers(0, nens - 1), min_size=1, max_size=nens, unique=True))
        axis = [a - ndim if draw(st.booleans()) else a for a in axes]
        if len(axis) == 1 and draw(st.booleans()):
            axis = axis[0]
    else:
        axes = draw(st.lists(st.integers(0, ndim - 1), min_size=1, max_size=2, unique=True))
        if all(a < nens for a in axes):
            axes[0] = draw(st.integers(nens, ndim - 1))
        axis = [a - ndim if draw(st.booleans()) else a for a in axes]
        if len(axis) == 1 and draw(st.booleans()):
            axis = axis[0]
    return {"obj": spec, "func": func, "mode": mode, "axis": axis, "keepdims": draw(st.booleans())}


@claim(
    "C29",
    "reduction",
    reduction_case,
    quick=300,
    thorough=12000,
    tol="ulp32 (1e-5 of max|input|; reference reduced in float64/complex128)",
    rule=">=1 ensemble axis is reduced, or a base axis must be refused",
    nontrivial_floor=0.5,
    max_shrink_calls=250,
)
def check_reduction(case, ctx):
    spec, func, axis, keepdims = case["obj"], case["func"], case["axis"], case["keepdims"]
    _obj_labels(ctx, spec)
    ctx.label("func=" + func)
    ctx.label("mode=" + case["mode"])
    ctx.label("keepdims", keepdims)
    nens = len(spec["ens"])
    obj = ao.make_object(spec)
    md0, base_axes = _snapshot(obj)
    ref = ao.make_array(spec)
    wide = ref.astype(np.complex128 if ref.dtype.kind == "c" else np.float64)
    arg = tuple(axis) if isinstance(axis, list) else axis
    method = getattr(obj, func)
    if case["mode"] == "base":
        ctx.nontrivial(True)
        try:
            method(arg, keepdims=keepdims)
        except RuntimeError:
            return
        raise Violation(f"{func}(axis={arg}) reduced a base axis of a {spec['type']} with {nens} ensemble axes", ("base_axis_reduced", func))
    scale = float(np.max(np.abs(wide))) if wide.size else 0.0
    if case["mode"] == "none":
        got = method()  # documented: reduction of the flattened array
        exp = getattr(np, func)(wide)
        got = np.asarray(got.compute() if hasattr(got, "compute") else got)
        if got.shape != () or not abs(complex(got) - complex(exp)) <= 1e-5 * max(scale, abs(exp)) * (wide.size if func == "sum" else 1):
            raise Violation(f"{func}() = {got!r}, NumPy gives {exp!r}", ("values", "flat", func))
        return
    ctx.nontrivial(True)
    norm = tuple(sorted(a % ref.ndim for a in (arg if isinstance(arg, tuple) else (arg,))))
    bucket = ("reduction", "keepdims" if keepdims else "dropdims", "lazy" if spec["lazy"] else "eager")
    res = method(arg, keepdims=keepdims)
    if type(res) is not type(obj):
        raise Violation(f"type changed to {type(res).__name__}", ("type",) + bucket)
    exp = getattr(np, func)(wide, axis=norm, keepdims=keepdims)
    got = ao.computed(res)
    if got.shape != exp.shape:
        raise Violation(f"{func}(axis={arg}, keepdims={keepdims}): shape {got.shape}, NumPy gives {exp.shape}", ("shape",) + bucket)
    nterms = int(np.prod([ref.shape[a] for a in norm]))
    if not tol.max_err(got, exp) <= 1e-5 * scale * (nterms if func == "sum" else 1):
        raise Violation(f"{func}(axis={arg}): values differ from NumPy by {tol.max_err(got, exp):.3e} (scale {scale:.3e})", ("values", func) + bucket)
    ens = []
    for i, a in enumerate(spec["ens"]):
        if i in norm:
            if keepdims:
                ens.append(None)  # must exist; what it describes after reduction is not specified
        else:
            ens.append((ao.make_axis(a), ()))
    _check_axes(res, ens, base_axes, f"{func}(axis={arg}, keepdims={keepdims})", bucket)
    _check_metadata(res, md0, func, bucket)


# ======================================================================= arithmetic
_OPS = {"add": operator.add, "sub": operator.sub, "mul": operator.mul, "truediv": operator.truediv, "pow": operator.pow}
_IOPS = {"add": operator.iadd, "sub": operator.isub, "mul": operator.imul, "truediv": operator.itruediv}


@st.composite
def arithmetic_case(draw):
    spec = draw(ao.object_spec(max_ens=2))
    op = draw(st.sampled_from(["add", "sub", "mul", "mul", "truediv", "truediv", "pow"]))
    if op == "pow":
        operand = {"kind": "scalar", "value": draw(st.sampled_from([2, 3, 2.0, 0.5, -1]))}
    else:
        kind = draw(st.sampled_from(["scalar", "scalar", "scalar", "ndarray", "ndarray_base", "dask", "object"]))
        if kind == "scalar":
            sk = draw(st.sampled_from(["int", "float", "complex"]))
            if sk == "int":
                v = draw(st.sampled_from([1, 2, 3, -2, 7]))
            elif sk == "float":
                v = draw(st.sampled_from([0.5, 2.0, -1.5, 3.25, 1e-3]))
            else:
                v = {"re": draw(st.sampled_from([0.0, 1.0, -0.5])), "im": draw(st.sampled_from([1.0, -2.0, 0.5]))}
            operand = {"kind": "scalar", "value": v}
        else:
            operand = {"kind": kind, "seed": draw(gen.seeds()), "lazy": draw(st.booleans())}
    reverse = operand["kind"] == "scalar" and draw(st.booleans())
    inplace = (
        not reverse
        and op != "pow"
        and not spec["lazy"]
        and draw(st.integers(0, 4)) == 0
        and not (operand["kind"] == "scalar" and isinstance(operand["value"], dict))
        and not (operand["kind"] in ("dask", "object") and operand.get("lazy"))
        and operand["kind"] != "dask"
    )
    return {"obj": spec, "op": op, "operand": operand, "reverse": reverse, "inplace": inplace}


@claim(
    "C29",
    "arithmetic",
    arithmetic_case,
    quick=300,
    thorough=12000,
    tol="ulp32 (1e-6 relative; same dtype arithmetic as NumPy)",
    rule="always (every operation changes the values)",
    nontrivial_floor=0.9,
    max_shrink_calls=250,
)
def check_arithmetic(case, ctx):
    import dask.array as da

    spec, opname, operand = case["obj"], case["op"], case["operand"]
    _obj_labels(ctx, spec)
    ctx.label("op=" + opname)
    ctx.label("operand=" + operand["kind"])
    ctx.label("reverse", case["reverse"])
    ctx.label("inplace", case["inplace"])
    ctx.nontrivial(True)
    obj = ao.make_object(spec)
    md0, base_axes = _snapshot(obj)
    ref = ao.make_array(spec)
    kind = operand["kind"]
    if kind == "scalar":
        v = operand["value"]
        other = other_ref = complex(v["re"], v["im"]) if isinstance(v, dict) else v
    else:
        ospec = dict(spec, seed=operand["seed"], lazy=operand["lazy"])
        ospec["chunks"] = [[a["n"]] for a in spec["ens"]] if operand["lazy"] else None
        other_ref = ao.make_array(ospec)
        if kind == "ndarray_base":
            other_ref = other_ref[(0,) * len(spec["ens"])]
        if kind == "object":
            other = ao.make_object(ospec)
        elif kind == "dask":
            other = da.from_array(other_ref, chunks=-1)
        else:
            other = other_ref.copy()
    fn = _OPS[opname]
    bucket = (opname, kind, "reverse" if case["reverse"] else ("inplace" if case["inplace"] else "forward"))
    with np.errstate(all="ignore"):
        if case["reverse"]:
            expected = fn(other_ref, ref)
            try:
                res = fn(other, obj)
            except TypeError as e:
                if opname in ("add", "sub", "pow") and "unsupported operand" in str(e):
                    ctx.label("reverse_not_offered")
                    return  # abTEM does not define __radd__/__rsub__/__rpow__: Python refuses
                raise
        elif case["inplace"]:
            expected = fn(ref, other_ref)
            res = _IOPS[opname](obj, other)
        else:
            expected = fn(ref, other_ref)
            res = fn(obj, other)
    what = f"{'scalar' if kind == 'scalar' else kind} {opname} ({bucket[2]})"
    if type(res) is not type(obj):
        raise Violation(f"{what}: result is a {type(res).__name__}", ("type",) + bucket)
    got = ao.computed(res)
    if got.shape != expected.shape:
        raise Violation(f"{what}: shape {got.shape}, NumPy gives {expected.shape}", ("shape",) + bucket)
    if not tol.close(got, expected, rtol=1e-6):
        raise Violation(
            f"{what}: values differ from the NumPy result by {tol.rel_err(got, expected):.3e} (operand {operand.get('value', kind)!r})",
            ("values",) + bucket,
        )
    ens = [(ao.make_axis(a), ()) for a in spec["ens"]]
    _check_axes(res, ens, base_axes, what, bucket)
    _check_metadata(res, md0, what, bucket)
