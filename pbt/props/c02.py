"""C02 A frozen-phonon ensemble equals independent per-configuration simulations."""

from __future__ import annotations

import numpy as np
from hypothesis import strategies as st

from pbt import gen, pipeline as pl, tol
from pbt.core import Violation, claim

RTOL = 2e-4


# ------------------------------------------------------------------------------ claim 1
@st.composite
def members_case(draw):
    spec = draw(
        pl.pipeline_spec(
            potential_kinds=("fp", "fp", "fp_mean", "atoms_ensemble"),
            max_configs=4,
            max_slices=4,
            max_detectors=2,
            gpts=(8, 20),
            finite_fraction=0.05,
        )
    )
    spec["lazy"] = draw(st.booleans())
    spec["max_batch"] = draw(st.sampled_from(["auto", 1, 2, 3]))
    return spec


def _first_axis_is_config(obj):
    from abtem.core.axes import FrozenPhononsAxis

    return len(obj.axes_metadata) > 0 and isinstance(obj.axes_metadata[0], FrozenPhononsAxis)


@claim(
    "C02",
    "members_equal_single_runs",
    members_case,
    quick=160,
    thorough=4000,
    tol=f"pipeline rtol={RTOL} (inf-norm, relative to max|ref|)",
    rule="num_configs >= 2 (sigma is always > 0)",
    nontrivial_floor=0.3,
)
def check_members(case, ctx):
    import abtem

    pot = case["potential"]
    n = pot["num_configs"]
    ctx.label(f"kind={pot['kind']}")
    ctx.label("lazy" if case["lazy"] else "eager")
    ctx.label("mean" if pot["ensemble_mean"] else "members")
    ctx.label("exit_planes", pot.get("exit_planes") is not None)
    ctx.label(f"builder={case['builder']['kind']}")
    ctx.nontrivial(n >= 2)

    outs, _ = pl.run_pipeline(case, lazy=case["lazy"], max_batch=case["max_batch"])

    # reference: public iteration over the ensemble gives the displaced configurations
    fp = pl.make_frozen_phonons(pot)
    configs = list(fp)
    if len(configs) != n:
        raise Violation(f"iterating the ensemble gave {len(configs)} configurations, expected {n}", ("num_configs",))
    single = dict(pot)
    refs = []
    for k in range(n):
        single_pot_spec = dict(pot, kind="atoms")
        p = pl.make_potential(single_pot_spec, case["gpts"])
        # replace the atoms by the k-th displaced configuration (same cell, same slicing)
        p = abtem.Potential(
            configs[k],
            gpts=tuple(case["gpts"]),
            slice_thickness=p.slice_thickness,
            parametrization=pot["parametrization"],
            projection=pot["projection"],
            exit_planes=tuple(pot["exit_planes"]) if isinstance(pot.get("exit_planes"), list) else pot.get("exit_planes"),
        )
        r, _ = pl.run_pipeline(case, lazy=False, potential=p)
        refs.append(r)

    for di, (out, det) in enumerate(zip(outs, case["detectors"])):
        members = np.stack([refs[k][di].array for k in range(n)])
        if _first_axis_is_config(out):
            got = out.array
            ref = members
            what = "member"
        else:
            got = out.array
            ref = members.mean(axis=0)
            what = "mean"
        if got.shape != ref.shape:
            raise Violation(
                f"detector {det['kind']}: shape {got.shape} vs per-configuration reference {ref.shape}",
                ("shape", what, det["kind"]),
            )
        if not tol.close(got, ref, rtol=RTOL):
            # which member is off?
            if what == "member":
                errs = [tol.rel_err(got[k], ref[k], floor=tol.scale(ref)) for k in range(n)]
                bad = [k for k, e in enumerate(errs) if e > RTOL]
                raise Violation(
                    f"{'lazy' if case['lazy'] else 'eager'} ensemble members {bad} differ from independent single-configuration runs "
                    f"(rel err {max(errs):.2e}, detector {det['kind']})",
                    ("member_mismatch", "lazy" if case["lazy"] else "eager"),
                )
            raise Violation(
                f"{'lazy' if case['lazy'] else 'eager'} ensemble mean differs from the mean of single-configuration runs "
                f"(rel err {tol.rel_err(got, ref):.2e}, detector {det['kind']})",
                ("mean_mismatch", "lazy" if case["lazy"] else "eager"),
            )


# ------------------------------------------------------------------------------ claim 2
@st.composite
def seeds_case(draw):
    atoms = draw(gen.atoms_spec(max_atoms=5))
    n = draw(st.integers(1, 5))
    sig_kind = draw(st.sampled_from(["float", "dict", "per_atom", "aniso_dict"]))
    seed_kind = draw(st.sampled_from(["int", "tuple"]))
    seed = draw(st.integers(0, 2**31 - 1)) if seed_kind == "int" else [draw(st.integers(0, 2**31 - 1)) for _ in range(n)]
    return {
        "atoms": atoms,
        "num_configs": n,
        "sigma_kind": sig_kind,
        "sigma": draw(st.sampled_from([0.05, 0.1, 0.3])),
        "directions": draw(st.sampled_from(["xyz", "xy", "z", "x", "yz"])),
        "seed": seed,
        "chunks": draw(st.integers(1, 3)),
    }


def _sigmas(case, atoms):
    from ase.data import chemical_symbols

    k = case["sigma_kind"]
    s = case["sigma"]
    syms = sorted({chemical_symbols[z] for z in case["atoms"]["numbers"]})
    if k == "float":
        return s
    if k == "dict":
        return {sym: s * (1 + 0.5 * i) for i, sym in enumerate(syms)}
    if k == "per_atom":
        return [s * (1 + 0.25 * i) for i in range(len(atoms))]
    return {sym: (s, 2 * s, 0.5 * s) for sym in syms}


@claim(
    "C02",
    "configurations_from_seeds_only",
    seeds_case,
    quick=400,
    thorough=8000,
    tol="exact (positions bit-identical)",
    rule="num_configs >= 2",
    nontrivial_floor=0.4,
)
def check_seeds(case, ctx):
    import abtem

    atoms = gen.make_atoms(case["atoms"])
    n = case["num_configs"]
    seed = tuple(case["seed"]) if isinstance(case["seed"], list) else case["seed"]
    sig = _sigmas(case, atoms)
    fp = abtem.FrozenPhonons(atoms, n, sig, directions=case["directions"], seed=seed, ensemble_mean=False)
    ctx.label(f"sigma={case['sigma_kind']}")
    ctx.label(f"dirs={case['directions']}")
    ctx.nontrivial(n >= 2)
    seeds = tuple(int(s) for s in fp.seed)
    if len(seeds) != n:
        raise Violation(f"{len(seeds)} seeds for {n} configurations", ("seed_count",))
    if isinstance(seed, tuple) and seeds != tuple(seed):
        raise Violation("explicit seed tuple not kept", ("seed_tuple",))
    base = [a.positions.copy() for a in fp]
    # (a) each configuration is determined by its own seed alone
    for k in range(n):
        one = abtem.FrozenPhonons(atoms, 1, sig, directions=case["directions"], seed=(seeds[k],), ensemble_mean=False)
        p = list(one)[0].positions
        if not np.array_equal(p, base[k]):
            raise Violation(f"configuration {k} differs when generated alone from its seed", ("seed_alone",))
    # (b) reversed processing order gives the same configurations
    rev = abtem.FrozenPhonons(atoms, n, sig, directions=case["directions"], seed=seeds[::-1], ensemble_mean=False)
    for k, a in enumerate(list(rev)[::-1]):
        if not np.array_equal(a.positions, base[k]):
            raise Violation(f"configuration {k} depends on processing order", ("order",))
    # (c) chunked eager blocks and lazy blocks give the same configurations
    c = min(case["chunks"], n)
    got = []
    for _, _, block in fp.generate_blocks(c):
        got.extend(a.positions for a in block.item())
    if len(got) != n or any(not np.array_equal(g, b) for g, b in zip(got, base)):
        raise Violation(f"generate_blocks({c}) changes the configurations", ("generate_blocks",))
    lazy_blocks = fp.ensemble_blocks(c).compute()
    got = []
    for blk in lazy_blocks.ravel():
        got.extend(a.positions for a in blk)
    if len(got) != n or any(not np.array_equal(g, b) for g, b in zip(got, base)):
        raise Violation(f"lazy ensemble_blocks({c}) changes the configurations", ("ensemble_blocks",))
    # (d) displacement only along the requested directions, and non-zero along them
    for k in range(n):
        d = base[k] - atoms.positions
        for ax, name in enumerate("xyz"):
            if name not in case["directions"] and np.any(d[:, ax] != 0):
                raise Violation(f"displacement along excluded direction {name}", ("directions",))
    # (e) the caller's atoms are untouched and distinct seeds give distinct configurations
    if n >= 2 and len(set(seeds)) == n:
        if any(np.array_equal(base[0], base[k]) for k in range(1, n)):
            raise Violation("two configurations with different seeds are identical", ("identical_configs",))


# ------------------------------------------------------------------------------ claim 3 (PRISM)
@st.composite
def prism_case(draw):
    pot = draw(pl.potential_spec(kinds=("fp", "fp_mean", "fp_mean", "atoms_ensemble"), max_slices=3, max_configs=3, finite_fraction=0.0, exit_planes=False))
    cell = pot["atoms"]["cell"]
    scan = draw(pl.scan_spec(cell))
    if scan["kind"] == "none":
        scan = {"kind": "custom", "positions": [[round(0.3 * cell[0], 3), round(0.6 * cell[1], 3)]]}
    return {
        "potential": pot,
        "gpts": pl.sound_gpts([draw(st.integers(10, 18)), draw(st.integers(10, 18))], pot),
        "energy": draw(st.sampled_from([80e3, 100e3, 200e3])),
        "semiangle": round(draw(gen.floats(0.3, 0.7)), 3),
        "scan": scan,
        "detectors": [draw(pl.detector_spec()) for _ in range(draw(st.integers(1, 3)))],
        "lazy": draw(st.booleans()),
        "call": draw(st.sampled_from(["scan", "reduce"])),
    }


@claim(
    "C02",
    "prism_members_equal_single_runs",
    prism_case,
    quick=120,
    thorough=2500,
    tol=f"pipeline rtol={RTOL} (inf-norm, relative to max|ref|), atol 1e-6 of the unit probe intensity for measurements",
    rule="num_configs >= 2",
    nontrivial_floor=0.3,
)
def check_prism_members(case, ctx):
    """The same statement through PRISM: an S-matrix built on a frozen-phonon potential gives,
    per configuration, the result of the S-matrix built on that configuration alone; with
    ensemble_mean the detected measurements are the mean of those (waves are never averaged)."""
    import abtem

    pot = case["potential"]
    n = pot["num_configs"]
    ctx.label(f"kind={pot['kind']}")
    ctx.label("lazy" if case["lazy"] else "eager")
    ctx.label("mean" if pot["ensemble_mean"] else "members")
    ctx.label(f"ndet={len(case['detectors'])}")
    ctx.nontrivial(n >= 2)
    cell = pot["atoms"]["cell"]
    tmp = abtem.Probe(semiangle_cutoff=1.0, energy=case["energy"], gpts=tuple(case["gpts"]), extent=(cell[0], cell[1]))
    cut = min(tmp.cutoff_angles)
    semi = case["semiangle"] * cut

    def run(potential, lazy):
        S = abtem.SMatrix(potential=potential, semiangle_cutoff=semi, energy=case["energy"], interpolation=1, downsample=False)
        dets = pl.make_detectors(case["detectors"], cut)
        fn = S.scan if case["call"] == "scan" else S.reduce
        out = fn(scan=pl.make_scan(case["scan"]), detectors=dets, lazy=lazy)
        out = list(out) if isinstance(out, (list, tuple)) else [out]
        return [o.compute() for o in out] if lazy else out

    outs = run(pl.make_potential(pot, case["gpts"]), case["lazy"])
    configs = list(pl.make_frozen_phonons(pot))
    full = pl.make_potential(dict(pot, kind="atoms"), case["gpts"])
    refs = []
    for k in range(n):
        p = abtem.Potential(configs[k], gpts=tuple(case["gpts"]), slice_thickness=full.slice_thickness, parametrization=pot["parametrization"], projection=pot["projection"])
        refs.append(run(p, False))
    for di, (out, det) in enumerate(zip(outs, case["detectors"])):
        members = np.stack([refs[k][di].array for k in range(n)])
        got = out.array
        if _first_axis_is_config(out) and (got.shape[0] == n and not (n == 1 and pot["ensemble_mean"] and det["kind"] != "waves")):
            ref, what = members, "member"
        else:
            # averaged over the configurations; the eager PRISM path keeps a length-one
            # configuration axis for some measurement types (observed, not asserted)
            ref, what = members.mean(axis=0), "mean"
            if _first_axis_is_config(out) and got.shape[0] == 1:
                got = got[0]
        if got.shape != ref.shape and np.squeeze(got).shape == np.squeeze(ref).shape:
            got, ref = np.squeeze(got), np.squeeze(ref)
        if got.shape != ref.shape:
            raise Violation(f"PRISM detector {det['kind']}: shape {got.shape} vs per-configuration reference {ref.shape}", ("prism", "shape", what, det["kind"]))
        atol = 0.0 if det["kind"] == "waves" else 1e-6
        if not tol.close(got, ref, rtol=RTOL, atol=atol):
            raise Violation(
                f"PRISM {'lazy' if case['lazy'] else 'eager'} ensemble {what} differs from independent single-configuration S-matrix runs: "
                f"rel err {tol.rel_err(got, ref):.2e}, detector {det['kind']} ({len(case['detectors'])} detectors)",
                ("prism", what + "_mismatch", "lazy" if case["lazy"] else "eager"),
            )
