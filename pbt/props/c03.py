"""C03 Parameter ensembles decompose into individual simulations.

Clauses and how they are checked
--------------------------------
(a) member i of an ensemble built from distribution-valued parameters equals the run
    with the scalar values i (claims ``transfer_members``, ``builder_members``); the
    ensemble axes are located by POSITION (transforms prepend their axes in the documented
    parameter order; several of them carry an empty label);
(b) the axis metadata of each ensemble axis lists exactly the distribution values in
    order (modulo the documented ``defocus = -C10``);
(c) weighted distributions: through ``Aberrations`` / ``CTF`` (which apply the weights to
    the amplitudes) member i == weights[i] * scalar run; through the transforms that do
    not use weights (aperture, envelopes, tilt) member i is the scalar run up to the
    factor 1 or weights[i]; through ``Probe`` (normalised afterwards) member i == scalar run;
(d) ``ensemble_mean=True`` results equal the plain mean over that axis of the same run
    with ``ensemble_mean=False`` (claim ``ensemble_mean``) - "averaging commutes with the
    ensemble"; no normalisation of the weights is demanded.

The scalar runs are independent simulations through the public API.
"""

from __future__ import annotations

import itertools

import numpy as np
from hypothesis import strategies as st

from pbt import gen, tol
from pbt.core import Violation, claim

RTOL_TRANSFORM = 2e-5  # one reciprocal-space multiplication (2 FFTs), complex64
RTOL_PIPELINE = 2e-4  # build + multislice (+ detection)

# --------------------------------------------------------------------------- parameters
# order of abtem.transfer.polar_symbols = order in which aberration ensemble axes are added
_POLAR = ["C10", "C30", "C50", "C12", "phi12", "C32", "phi32", "C52", "phi52", "C21", "phi21", "C41", "phi41", "C23", "phi23", "C43", "phi43", "C34", "phi34", "C54", "phi54", "C45", "phi45", "C56", "phi56"]
_ALIAS = {"defocus": "C10", "Cs": "C30", "C5": "C50", "astigmatism": "C12", "astigmatism_angle": "phi12", "coma": "C21", "coma_angle": "phi21", "trefoil": "C23", "trefoil_angle": "phi23", "astigmatism3": "C32", "quadrafoil": "C34", "coma4": "C41", "pentafoil": "C45", "hexafoil": "C56"}
_SCALE = {1: 150.0, 2: 2e3, 3: 2e5, 4: 2e6, 5: 2e7}  # Å: a few rad of phase at ~20 mrad


def _range_of(name):
    sym = _ALIAS.get(name, name)
    if sym.startswith("phi"):
        return (-3.0, 3.0)
    s = _SCALE[int(sym[1])]
    return (-s, s)


_OTHER_RANGES = {"semiangle_cutoff": (6.0, 40.0), "focal_spread": (5.0, 120.0), "angular_spread": (0.2, 4.0), "tilt": (-15.0, 15.0)}


def _r(x, lo, hi):
    # keep 4 significant digits relative to the range
    return float(np.round(x, max(0, 3 - int(np.floor(np.log10(max(abs(lo), abs(hi))))))))


@st.composite
def dist_spec(draw, lo, hi, max_n=4, weighted_ok=True, positive=False):
    kinds = ["list", "ndarray", "from_values", "uniform"] + (["gaussian", "from_values_w"] if weighted_ok else [])
    kind = draw(st.sampled_from(kinds))
    n = draw(st.sampled_from([2, 3, 2, 4, 1][: 4 if max_n >= 4 else 3] + [1]))
    n = min(n, max_n)
    em = draw(st.booleans())
    if kind in ("list", "ndarray", "from_values", "from_values_w"):
        vals = draw(st.lists(gen.floats(lo, hi).map(lambda x: _r(x, lo, hi)), min_size=n, max_size=n, unique=True))
        out = {"kind": kind, "values": vals, "ensemble_mean": em}
        if kind == "from_values_w":
            out["weights"] = [round(draw(gen.floats(0.2, 1.5)), 3) for _ in range(n)]
        return out
    if kind == "uniform":
        a, b = _r(draw(gen.floats(lo, hi)), lo, hi), _r(draw(gen.floats(lo, hi)), lo, hi)
        return {"kind": "uniform", "low": min(a, b), "high": max(a, b), "n": n, "endpoint": draw(st.booleans()), "ensemble_mean": em}
    span = hi - lo
    std = _r(draw(gen.floats(0.02, 0.12)) * span, lo, hi)
    c_lo, c_hi = (lo + 3.2 * std, hi - 3.2 * std) if positive else (lo, hi)
    centre = _r(draw(gen.floats(min(c_lo, c_hi), max(c_lo, c_hi))), lo, hi)
    return {"kind": "gaussian", "std": std, "n": n, "center": centre, "ensemble_mean": em, "normalize": draw(st.sampled_from(["intensity", "amplitude"])), "limit": draw(st.sampled_from([3.0, 2.0]))}


def make_dist(spec, ensemble_mean=None):
    import abtem

    em = spec["ensemble_mean"] if ensemble_mean is None else ensemble_mean
    k = spec["kind"]
    if k == "list":
        return list(spec["values"])
    if k == "ndarray":
        return np.array(spec["values"], dtype=float)
    if k == "from_values":
        return abtem.distributions.from_values(np.array(spec["values"], dtype=float), ensemble_mean=em)
    if k == "from_values_w":
        return abtem.distributions.from_values(np.array(spec["values"], dtype=float), weights=np.array(spec["weights"], dtype=float), ensemble_mean=em)
    if k == "uniform":
        return abtem.distributions.uniform(spec["low"], spec["high"], spec["n"], endpoint=spec["endpoint"], ensemble_mean=em)
    if k == "gaussian":
        return abtem.distributions.gaussian(spec["std"], spec["n"], center=spec["center"], ensemble_mean=em, sampling_limit=spec["limit"], normalize=spec["normalize"])
    raise ValueError(k)


def dist_values(spec):
    """Independent model (float64) of the values a distribution spec denotes."""
    k = spec["kind"]
    if k in ("list", "ndarray", "from_values", "from_values_w"):
        return np.array(spec["values"], dtype=float)
    if k == "uniform":
        return np.linspace(spec["low"], spec["high"], spec["n"], endpoint=spec["endpoint"])
    s, c, L = spec["std"], spec["center"], spec["limit"]
    if spec["n"] == 1:
        return np.array([float(c)])  # a single-sample Gaussian is represented by its centre
    return np.linspace(-s * L + c, s * L + c, spec["n"])


def dist_weights(spec):
    k = spec["kind"]
    if k == "from_values_w":
        return np.array(spec["weights"], dtype=float)
    if k == "gaussian":
        v = dist_values(spec)
        w = np.exp(-0.5 * (v - spec["center"]) ** 2 / spec["std"] ** 2)
        return w / np.sqrt((w**2).sum()) if spec["normalize"] == "intensity" else w / w.sum()
    n = len(spec["values"]) if "values" in spec else spec["n"]
    return np.ones(n)


def is_weighted(spec):
    return spec["kind"] in ("gaussian", "from_values_w")


def is_dist(v):
    return isinstance(v, dict)


def has_distinct(spec):
    return len(set(np.round(dist_values(spec), 9).tolist())) >= 2


# --------------------------------------------------------------------------- waves to transform
@st.composite
def waves_spec(draw):
    g = draw(gen.gpts2d(8, 16))
    return {
        "gpts": g,
        "extent": [round(draw(gen.floats(4.0, 9.0)), 3), round(draw(gen.floats(4.0, 9.0)), 3)],
        "energy": draw(gen.energies()),
        "seed": draw(gen.seeds()),
        "extra_axis": draw(st.sampled_from([0, 0, 2, 3])),
        "lazy": draw(st.booleans()),
        "reciprocal": draw(st.booleans()),
    }


def make_waves(ws):
    import abtem
    import dask.array as da
    from abtem.core.axes import ParameterAxis

    shape = tuple(ws["gpts"]) if not ws["extra_axis"] else (ws["extra_axis"],) + tuple(ws["gpts"])
    arr = gen.bandlimited_complex(shape, ws["seed"], frac=0.6)
    arr = (arr / np.abs(arr).max()).astype(np.complex64)
    if ws["reciprocal"]:
        arr = np.fft.fft2(arr).astype(np.complex64)
    metas = [ParameterAxis(label="member", values=tuple(float(i) for i in range(ws["extra_axis"])))] if ws["extra_axis"] else []
    if ws["lazy"]:
        arr = da.from_array(arr, chunks=((1,) if ws["extra_axis"] else ()) + tuple(ws["gpts"]))
    return abtem.Waves(arr, energy=ws["energy"], extent=tuple(ws["extent"]), ensemble_axes_metadata=metas, reciprocal_space=ws["reciprocal"])


def _computed(x):
    a = x.array
    return np.asarray(a.compute() if hasattr(a, "compute") else a)


# --------------------------------------------------------------------------- transfer functions
_TRANSFER_ORDER = {
    "CTF": _POLAR + ["angular_spread", "focal_spread", "semiangle_cutoff"],
    "Aberrations": _POLAR,
    "SpatialEnvelope": _POLAR + ["angular_spread"],
    "TemporalEnvelope": ["focal_spread"],
    "Aperture": ["semiangle_cutoff"],
}
_APPLIES_WEIGHTS = {"CTF": set(_POLAR), "Aberrations": set(_POLAR), "SpatialEnvelope": set(), "TemporalEnvelope": set(), "Aperture": set()}
_ABERRATION_NAMES = ["defocus", "C10", "Cs", "C30", "C12", "phi12", "astigmatism", "astigmatism_angle", "coma", "C21", "phi21", "C23", "trefoil", "C32", "phi32", "C34", "C41", "phi41", "C43", "C45", "phi45", "C50", "C5", "C52", "C54", "phi54", "C56", "hexafoil"]


@st.composite
def aberration_params(draw, min_k, max_k, n_dist_max, weighted_ok=True, max_n=4):
    k = draw(st.integers(min_k, max_k))
    names = draw(st.lists(st.sampled_from(_ABERRATION_NAMES), min_size=k, max_size=k, unique_by=lambda n: _ALIAS.get(n, n)))
    out = {}
    nd = 0
    for n in names:
        lo, hi = _range_of(n)
        if nd < n_dist_max and draw(st.integers(0, 3)):
            out[n] = draw(dist_spec(lo, hi, weighted_ok=weighted_ok, max_n=max_n))
            nd += 1
        else:
            out[n] = _r(draw(gen.floats(lo, hi)), lo, hi)
    return out


@st.composite
def transfer_case(draw):
    cls = draw(st.sampled_from(["CTF", "CTF", "Aberrations", "SpatialEnvelope", "TemporalEnvelope", "Aperture"]))
    params = {}
    if cls in ("CTF", "Aberrations", "SpatialEnvelope"):
        params.update(draw(aberration_params(1 if cls == "Aberrations" else 0, 3, 2)))
    nd = sum(is_dist(v) for v in params.values())

    def other(name, always=False, p_dist=2):
        nonlocal nd
        lo, hi = _OTHER_RANGES[name]
        r = draw(st.integers(0, 3)) if not always else draw(st.integers(2, 3))
        if r >= p_dist and nd < 3:
            params[name] = draw(dist_spec(lo, hi, positive=True))
            nd += 1
        elif r == 1 or always:
            params[name] = _r(draw(gen.floats(lo, hi)), lo, hi)

    if cls == "CTF":
        for name in ("semiangle_cutoff", "focal_spread", "angular_spread"):
            other(name)
        params["soft"] = draw(st.booleans())
    elif cls == "Aperture":
        other("semiangle_cutoff", always=True)
        params["soft"] = draw(st.booleans())
    elif cls == "TemporalEnvelope":
        other("focal_spread", always=True)
    elif cls == "SpatialEnvelope":
        other("angular_spread", always=True, p_dist=3 if nd else 2)
    via = draw(st.sampled_from(["apply", "apply", "apply_ctf", "apply_ctf_kwargs"])) if cls == "CTF" else "apply"
    return {"cls": cls, "params": params, "waves": draw(waves_spec()), "via": via, "pick": [draw(st.integers(0, 3)) for _ in range(3)]}


def _build_transfer(cls, params, energy=None):
    import abtem.transfer as T

    kw = dict(params)
    if energy is not None:
        kw["energy"] = energy
    return getattr(T, cls)(**kw)


def _canonical(params):
    """{polar symbol or other name: (value/spec, sign)} in the documented axis order key."""
    out = {}
    for name, v in params.items():
        if name == "soft":
            continue
        sym = _ALIAS.get(name, name)
        out[sym] = (v, -1.0 if name == "defocus" else 1.0)
    return out


@claim(
    "C03",
    "transfer_members",
    transfer_case,
    quick=2000,
    thorough=50000,
    tol=f"ulp32: rtol {RTOL_TRANSFORM} of max|scalar run| per member; axis values exact",
    rule="some distribution has >=2 distinct values",
    nontrivial_floor=0.4,
)
def check_transfer_members(case, ctx):
    cls, params, ws = case["cls"], case["params"], case["waves"]
    canon = _canonical(params)
    order = [s for s in _TRANSFER_ORDER[cls] if s in canon and is_dist(canon[s][0])]
    dist_names = {sym: next(n for n in params if _ALIAS.get(n, n) == sym) for sym in order}
    if not order:
        ctx.label("no_distribution")

    # ---------------------------------------------------------------- ensemble run
    kw = {n: (make_dist(v) if is_dist(v) else v) for n, v in params.items()}
    waves = make_waves(ws)
    if case["via"] == "apply":
        out = _build_transfer(cls, kw).apply(waves)
    elif case["via"] == "apply_ctf":
        out = waves.apply_ctf(_build_transfer("CTF", kw))
    else:
        out = waves.apply_ctf(**kw)
    ens = _computed(out)
    shape = tuple(len(dist_values(canon[s][0])) for s in order)
    base_shape = tuple(_computed(make_waves(ws)).shape)
    if ens.shape != shape + base_shape:
        raise Violation(f"{cls}{sorted(params)}: ensemble result has shape {ens.shape}, expected {shape + base_shape} (axes {order} + waves)", ("shape",))

    # ---------------------------------------------------------------- (b) axis metadata, by position
    axes = out.ensemble_axes_metadata
    for pos, sym in enumerate(order):
        spec, sign = canon[sym]
        want = tuple((sign * dist_values(spec)).tolist())
        got = tuple(float(v) for v in axes[pos].values) if hasattr(axes[pos], "values") else None
        if got is None or len(got) != len(want) or any(abs(a - b) > 1e-12 * max(1.0, abs(b)) for a, b in zip(got, want)):
            raise Violation(f"{cls}: ensemble axis {pos} should list {sym} = {want}, metadata has {type(axes[pos]).__name__} {got}", ("axis_values", "defocus" if sign < 0 else "plain"))
        if bool(axes[pos]._ensemble_mean) != bool(spec["ensemble_mean"] if spec["kind"] not in ("list", "ndarray") else False):
            raise Violation(f"{cls}: ensemble axis {pos} ({sym}) has _ensemble_mean={axes[pos]._ensemble_mean}, distribution says {spec['ensemble_mean']}", ("axis_ensemble_mean",))

    # ---------------------------------------------------------------- (a)/(c) members
    full = list(itertools.product(*(range(n) for n in shape)))
    picks = full if len(full) <= 6 else sorted({full[(p * 7919 + 13 * j) % len(full)] for j, p in enumerate(case["pick"])} | {full[0], full[-1]})
    for idx in picks:
        skw = dict(params)
        w_applied, w_all = 1.0, 1.0
        for pos, sym in enumerate(order):
            spec, sign = canon[sym]
            name = dist_names[sym]
            skw[name] = float(dist_values(spec)[idx[pos]])
            w = float(dist_weights(spec)[idx[pos]])
            w_all *= w
            if sym in _APPLIES_WEIGHTS[cls]:
                w_applied *= w
        swaves = make_waves(ws)
        if case["via"] == "apply":
            ref = _build_transfer(cls, skw).apply(swaves)
        elif case["via"] == "apply_ctf":
            ref = swaves.apply_ctf(_build_transfer("CTF", skw))
        else:
            ref = swaves.apply_ctf(**skw)
        ref = _computed(ref)
        member = ens[idx]
        scale = max(tol.scale(ref), 1e-30)
        err_applied = tol.max_err(member, w_applied * ref) / (abs(w_applied) * scale)
        ok = err_applied <= RTOL_TRANSFORM
        ignored = [sym for sym in order if sym not in _APPLIES_WEIGHTS[cls] and is_weighted(canon[sym][0])]
        if not ok and ignored:
            # transforms that do not use weights: the factor may be 1 or the weight (see module docstring)
            ok = tol.max_err(member, w_all * ref) / (abs(w_all) * scale) <= RTOL_TRANSFORM
        if not ok:
            weighted = any(is_weighted(canon[s][0]) for s in order)
            raise Violation(
                f"{cls} via {case['via']}: member {idx} of {dict((dist_names[s], canon[s][0]) for s in order)} differs from the scalar run {dict((dist_names[s], skw[dist_names[s]]) for s in order)} "
                f"(x weight {w_applied:.4g}) by {err_applied:.2e} relative; other params {dict((k, v) for k, v in params.items() if not is_dist(v))}",
                ("member", cls, "weighted" if weighted else "unit"),
            )
    ctx.label("cls:" + cls)
    ctx.label("via:" + case["via"])
    ctx.label(f"axes:{len(order)}")
    ctx.label("weighted", any(is_weighted(canon[s][0]) for s in order))
    ctx.label("extra_axis", bool(ws["extra_axis"]))
    ctx.label("lazy", ws["lazy"])
    ctx.nontrivial(any(has_distinct(canon[s][0]) for s in order))


# --------------------------------------------------------------------------- builders (Probe / PlaneWave) + multislice
@st.composite
def scan_positions_spec(draw, extent):
    kind = draw(st.sampled_from(["none", "custom", "custom", "line", "grid"]))
    ex, ey = extent
    if kind == "none":
        return None
    if kind == "custom":
        n = draw(st.integers(1, 3))
        return {"kind": "custom", "positions": [[round(draw(gen.floats(0, 1)) * ex, 3), round(draw(gen.floats(0, 1)) * ey, 3)] for _ in range(n)]}
    if kind == "line":
        return {"kind": "line", "start": [round(draw(gen.floats(0, 0.4)) * ex, 3), round(draw(gen.floats(0, 0.4)) * ey, 3)], "end": [round(draw(gen.floats(0.5, 1)) * ex, 3), round(draw(gen.floats(0.5, 1)) * ey, 3)], "gpts": draw(st.integers(2, 3)), "endpoint": draw(st.booleans())}
    return {"kind": "grid", "start": [0.0, 0.0], "end": [round(draw(gen.floats(0.4, 1)) * ex, 3), round(draw(gen.floats(0.4, 1)) * ey, 3)], "gpts": [draw(st.integers(1, 2)), draw(st.integers(2, 3))], "endpoint": [False, draw(st.booleans())]}


def make_scan(spec):
    import abtem

    if spec is None:
        return None
    if spec["kind"] == "custom":
        return abtem.CustomScan(np.array(spec["positions"], dtype=float))
    if spec["kind"] == "line":
        return abtem.LineScan(start=tuple(spec["start"]), end=tuple(spec["end"]), gpts=spec["gpts"], endpoint=spec["endpoint"])
    return abtem.GridScan(start=tuple(spec["start"]), end=tuple(spec["end"]), gpts=tuple(spec["gpts"]), endpoint=tuple(spec["endpoint"]))


def scan_positions(spec):
    """Independent model of the scan positions, shape scan_shape + (2,) (float64)."""
    if spec["kind"] == "custom":
        return np.array(spec["positions"], dtype=float)
    if spec["kind"] == "line":
        t = np.linspace(0, 1, spec["gpts"], endpoint=spec["endpoint"])
        return np.array(spec["start"])[None] + t[:, None] * (np.array(spec["end"]) - np.array(spec["start"]))[None]
    xs = np.linspace(spec["start"][0], spec["end"][0], spec["gpts"][0], endpoint=spec["endpoint"][0])
    ys = np.linspace(spec["start"][1], spec["end"][1], spec["gpts"][1], endpoint=spec["endpoint"][1])
    return np.stack(np.meshgrid(xs, ys, indexing="ij"), axis=-1)


@st.composite
def tilt_spec(draw, allow_2d=True):
    lo, hi = _OTHER_RANGES["tilt"]
    kind = draw(st.sampled_from(["none", "scalar", "x", "y", "xy"] + (["2d"] if allow_2d else [])))
    if kind == "none":
        return {"kind": "none"}
    if kind == "scalar":
        return {"kind": "scalar", "x": _r(draw(gen.floats(lo, hi)), lo, hi), "y": _r(draw(gen.floats(lo, hi)), lo, hi)}
    if kind == "2d":
        n = draw(st.integers(1, 3))
        return {"kind": "2d", "values": [[_r(draw(gen.floats(lo, hi)), lo, hi), _r(draw(gen.floats(lo, hi)), lo, hi)] for _ in range(n)]}
    return {
        "kind": "axis",
        "x": draw(dist_spec(lo, hi, max_n=3, weighted_ok=False)) if "x" in kind else _r(draw(gen.floats(lo, hi)), lo, hi),
        "y": draw(dist_spec(lo, hi, max_n=3, weighted_ok=False)) if "y" in kind else _r(draw(gen.floats(lo, hi)), lo, hi),
    }


def make_tilt(t, pick=None):
    """``pick`` = dict axis-name -> member index: the scalar tilt of that member."""
    if t["kind"] == "none":
        return (0.0, 0.0), []
    if t["kind"] == "scalar":
        return (t["x"], t["y"]), []
    if t["kind"] == "2d":
        if pick is None:
            return np.array(t["values"], dtype=float), [("tilt", len(t["values"]))]
        return tuple(t["values"][pick["tilt"]]), []
    axes = [(n, len(dist_values(t[a]))) for n, a in (("tilt_x", "x"), ("tilt_y", "y")) if is_dist(t[a])]
    if pick is None:
        return (make_dist(t["x"]) if is_dist(t["x"]) else t["x"], make_dist(t["y"]) if is_dist(t["y"]) else t["y"]), axes
    return (float(dist_values(t["x"])[pick["tilt_x"]]) if is_dist(t["x"]) else t["x"], float(dist_values(t["y"])[pick["tilt_y"]]) if is_dist(t["y"]) else t["y"]), []


@st.composite
def builder_case(draw, detectors=False):
    cls = draw(st.sampled_from(["Probe", "Probe", "Probe", "PlaneWave"]))
    atoms = draw(gen.atoms_spec(min_atoms=1, max_atoms=3, cell_xy=(4.0, 7.0), cell_z=(2.0, 4.0)))
    extent = atoms["cell"][:2]
    case = {
        "cls": cls,
        "atoms": atoms,
        "gpts": draw(gen.gpts2d(10, 18)),
        "energy": draw(gen.energies()),
        "tilt": draw(tilt_spec()),
        "lazy": draw(st.booleans()),
        "multislice": draw(st.booleans()) if not detectors else True,
        "pick": [draw(st.integers(0, 5)) for _ in range(3)],
    }
    if cls == "Probe":
        case["aberrations"] = draw(aberration_params(0, 2, 2, weighted_ok=True, max_n=3))
        lo, hi = _OTHER_RANGES["semiangle_cutoff"]
        case["semiangle_cutoff"] = draw(dist_spec(10.0, 30.0, max_n=3, weighted_ok=False, positive=True)) if draw(st.integers(0, 3)) == 0 else _r(draw(gen.floats(10.0, 30.0)), lo, hi)
        case["soft"] = draw(st.booleans())
        case["scan"] = draw(scan_positions_spec(extent))
    else:
        case["normalize"] = draw(st.booleans())
    return case


def _builder_axes(case):
    """[(axis name, length)] in the documented order: tilt, aberrations (polar order), aperture, scan."""
    axes = list(make_tilt(case["tilt"])[1])
    if case["cls"] == "Probe":
        canon = _canonical(case["aberrations"])
        axes += [(sym, len(dist_values(canon[sym][0]))) for sym in _POLAR if sym in canon and is_dist(canon[sym][0])]
        if is_dist(case["semiangle_cutoff"]):
            axes.append(("semiangle_cutoff", len(dist_values(case["semiangle_cutoff"]))))
        if case["scan"] is not None:
            axes += [(f"scan{i}", n) for i, n in enumerate(scan_positions(case["scan"]).shape[:-1])]
    return axes


def _make_builder(case, pick=None, ensemble_mean=None):
    """The ensemble builder (pick None) or the scalar builder of multi-index ``pick``
    (dict axis name -> index); the scan is handled by the caller."""
    import abtem

    tilt, _ = make_tilt(case["tilt"], pick)
    common = dict(energy=case["energy"], gpts=tuple(case["gpts"]), extent=tuple(case["atoms"]["cell"][:2]), tilt=tilt)
    if case["cls"] == "PlaneWave":
        return abtem.PlaneWave(normalize=case["normalize"], **common)
    ab = {}
    for n, v in case["aberrations"].items():
        if is_dist(v):
            ab[n] = make_dist(v, ensemble_mean) if pick is None else float(dist_values(v)[pick[_ALIAS.get(n, n)]])
        else:
            ab[n] = v
    sc = case["semiangle_cutoff"]
    if is_dist(sc):
        sc = make_dist(sc, ensemble_mean) if pick is None else float(dist_values(sc)[pick["semiangle_cutoff"]])
    return abtem.Probe(semiangle_cutoff=sc, soft=case["soft"], aberrations=ab, **common)


def _potential(case):
    import abtem

    atoms = gen.make_atoms(case["atoms"])
    return abtem.Potential(atoms, gpts=tuple(case["gpts"]), slice_thickness=case["atoms"]["cell"][2] / 2, projection="infinite")


def _run_builder(case, builder, scan, detectors=None):
    if case["cls"] == "PlaneWave":
        if case["multislice"]:
            return builder.multislice(_potential(case), detectors=detectors, lazy=case["lazy"])
        return builder.build(lazy=case["lazy"])
    if case["multislice"]:
        return builder.multislice(_potential(case), scan=scan, detectors=detectors, lazy=case["lazy"])
    return builder.build(scan=scan, lazy=case["lazy"])


@claim(
    "C03",
    "builder_members",
    builder_case,
    quick=1000,
    thorough=30000,
    tol=f"ulp32: rtol {RTOL_PIPELINE} of max|scalar run| per member; axis values exact (scan positions 1e-6 relative)",
    rule="some distribution / scan has >=2 distinct values",
    nontrivial_floor=0.4,
)
def check_builder_members(case, ctx):
    import abtem

    axes = _builder_axes(case)
    shape = tuple(n for _, n in axes)
    out = _run_builder(case, _make_builder(case), make_scan(case.get("scan")))
    ens = _computed(out)
    base = tuple(case["gpts"])
    # single-member axes that abTEM squeezes: none of the generated ones (CustomScan of an
    # explicit BaseScan keeps its axis); so the full shape is expected
    if ens.shape != shape + base:
        raise Violation(f"{case['cls']}: ensemble result has shape {ens.shape}, expected {shape + base} for axes {axes}", ("shape",))

    # ---------------------------------------------------------------- (b) axis metadata by position
    metas = out.ensemble_axes_metadata
    canon = _canonical(case.get("aberrations", {}))
    pos = 0
    for name, n in axes:
        m = metas[pos]
        if name == "tilt":
            want = [tuple(v) for v in case["tilt"]["values"]]
            got = [tuple(float(x) for x in v) for v in m.values]
            bad = got != want
        elif name in ("tilt_x", "tilt_y"):
            want = dist_values(case["tilt"][name[-1]]).tolist()
            got = [float(v) for v in m.values]
            bad = got != want or getattr(m, "direction", None) != name[-1]
        elif name.startswith("scan"):
            p = scan_positions(case["scan"])
            if case["scan"]["kind"] == "custom":
                want = [tuple(np.float32(v).astype(float)) for v in p]  # CustomScan stores float32 positions
                got = [tuple(float(x) for x in v) for v in m.values]
                bad = len(got) != len(want) or any(abs(a - b) > 1e-6 * max(1.0, abs(b)) for g, w in zip(got, want) for a, b in zip(g, w))
            else:
                k = int(name[-1])
                if case["scan"]["kind"] == "line":
                    coords = np.linalg.norm(p - p[0], axis=-1)
                    off = 0.0
                else:
                    coords = p[:, 0, 0] if k == 0 else p[0, :, 1]
                    off = coords[0]
                step = (coords[1] - coords[0]) if len(coords) > 1 else float(m.sampling)
                want = (off, step)
                got = (float(m.offset), float(m.sampling))
                bad = abs(got[0] - want[0]) > 1e-6 * max(1.0, abs(want[0])) or abs(got[1] - want[1]) > 1e-6 * max(1.0, abs(want[1]))
        else:
            spec, sign = (canon[name] if name in canon else (case["semiangle_cutoff"], 1.0))
            want = (sign * dist_values(spec)).tolist()
            got = [float(v) for v in m.values]
            bad = len(got) != len(want) or any(abs(a - b) > 1e-12 * max(1.0, abs(b)) for a, b in zip(got, want))
        if bad:
            raise Violation(f"{case['cls']}: ensemble axis {pos} should describe {name} = {want}, metadata has {type(m).__name__} {got}", ("axis_values", name.rstrip("01")))
        pos += 1

    # ---------------------------------------------------------------- (a) members
    full = list(itertools.product(*(range(n) for n in shape)))
    picks = full if len(full) <= 4 else sorted({full[(p * 7919 + 31 * j) % len(full)] for j, p in enumerate(case["pick"])} | {full[-1]})
    for idx in picks:
        pick = {name: i for (name, _), i in zip(axes, idx)}
        scan = None
        if case["cls"] == "Probe" and case["scan"] is not None:
            sidx = tuple(i for (name, _), i in zip(axes, idx) if name.startswith("scan"))
            scan = abtem.CustomScan(scan_positions(case["scan"])[sidx][None])
        ref = _computed(_run_builder(case, _make_builder(case, pick), scan))
        ref = ref.reshape(ref.shape[-2:])
        member = ens[idx]
        err = tol.rel_err(member, ref)
        if err > RTOL_PIPELINE:
            raise Violation(
                f"{case['cls']} ({'multislice' if case['multislice'] else 'build'}, lazy={case['lazy']}): member {dict(pick)} of axes {axes} differs from the scalar run by {err:.2e} relative",
                ("member", case["cls"], "+".join(sorted({n.rstrip('01').split('_')[0] if n.startswith(('scan', 'tilt')) else ('cutoff' if n == 'semiangle_cutoff' else 'aberration') for n, _ in axes}))),
            )
    ctx.label("cls:" + case["cls"])
    ctx.label("multislice", case["multislice"])
    ctx.label("lazy", case["lazy"])
    ctx.label(f"axes:{len(axes)}")
    for name, _ in axes:
        ctx.label("axis:" + (name.rstrip("01") if name.startswith("scan") else name if name.startswith("tilt") or name == "semiangle_cutoff" else "aberration"))
    distinct = any(n >= 2 for _, n in axes)
    ctx.nontrivial(distinct)


# --------------------------------------------------------------------------- ensemble_mean
@st.composite
def mean_case(draw):
    case = draw(builder_case(detectors=True))
    case["cls"] = "Probe"
    case.pop("normalize", None)
    if "aberrations" not in case:
        case["aberrations"] = draw(aberration_params(1, 2, 2, max_n=3))
        case["semiangle_cutoff"] = 20.0
        case["soft"] = True
        case["scan"] = draw(scan_positions_spec(case["atoms"]["cell"][:2]))
    # at least one aberration distribution, every distribution a BaseDistribution (lists cannot carry ensemble_mean)
    if not any(is_dist(v) for v in case["aberrations"].values()):
        lo, hi = _range_of("defocus")
        case["aberrations"] = {"defocus": draw(dist_spec(lo, hi, max_n=3))}
    for n, v in case["aberrations"].items():
        if is_dist(v) and v["kind"] in ("list", "ndarray"):
            v["kind"] = "from_values"
    if is_dist(case["semiangle_cutoff"]) and case["semiangle_cutoff"]["kind"] in ("list", "ndarray"):
        case["semiangle_cutoff"]["kind"] = "from_values"
    case["tilt"] = {"kind": "none"}
    case["detector"] = draw(st.sampled_from(["annular", "annular", "flexible", "pixelated", "waves_intensity"]))
    case["mean_flags"] = [draw(st.booleans()) for _ in range(3)]
    if not any(case["mean_flags"]):
        case["mean_flags"][0] = True
    return case


def _set_means(case, on):
    """Distribution kwargs with ensemble_mean = flag (on) or False (off), per distribution in axis order."""
    flags = iter(case["mean_flags"])
    canon = _canonical(case["aberrations"])
    names = {sym: next(n for n in case["aberrations"] if _ALIAS.get(n, n) == sym) for sym in canon}
    out = {}
    for sym in _POLAR:
        if sym in canon and is_dist(canon[sym][0]):
            out[names[sym]] = bool(next(flags)) and on
    if is_dist(case["semiangle_cutoff"]):
        out["semiangle_cutoff"] = bool(next(flags)) and on
    return out


def _mean_builder(case, means):
    import abtem

    ab = {n: (make_dist(v, means[n]) if is_dist(v) else v) for n, v in case["aberrations"].items()}
    sc = case["semiangle_cutoff"]
    if is_dist(sc):
        sc = make_dist(sc, means["semiangle_cutoff"])
    return abtem.Probe(semiangle_cutoff=sc, soft=case["soft"], aberrations=ab, energy=case["energy"], gpts=tuple(case["gpts"]), extent=tuple(case["atoms"]["cell"][:2]))


def _detect(case, builder):
    import abtem

    scan = make_scan(case["scan"])
    pot = _potential(case)
    cut = min(abtem.Probe(energy=case["energy"], gpts=tuple(case["gpts"]), extent=tuple(case["atoms"]["cell"][:2])).cutoff_angles)
    d = case["detector"]
    if d == "waves_intensity":
        waves = builder.multislice(pot, scan=scan, lazy=case["lazy"])
        return waves.intensity().reduce_ensemble()
    if d == "annular":
        det = abtem.AnnularDetector(inner=0.2 * cut, outer=0.8 * cut)
    elif d == "flexible":
        det = abtem.FlexibleAnnularDetector(step_size=cut / 4, inner=0.0, outer=0.75 * cut)
    else:
        det = abtem.PixelatedDetector(max_angle=None)
    return builder.multislice(pot, scan=scan, detectors=det, lazy=case["lazy"])


@claim(
    "C03",
    "ensemble_mean",
    mean_case,
    quick=600,
    thorough=20000,
    tol=f"ulp32: rtol {RTOL_PIPELINE} of max|reference|",
    rule="an averaged distribution has >=2 distinct values",
    nontrivial_floor=0.25,
)
def check_ensemble_mean(case, ctx):
    on, off = _set_means(case, True), _set_means(case, False)
    names = list(on)  # in axis order
    averaged = [i for i, n in enumerate(names) if on[n]]
    got_obj = _detect(case, _mean_builder(case, on))
    full_obj = _detect(case, _mean_builder(case, off))
    got, full = _computed(got_obj), _computed(full_obj)
    if full.ndim < len(names):
        raise Violation(f"ensemble_mean=False run has shape {full.shape} for distributions {names}", ("mean", "full_shape"))
    ref = full.mean(axis=tuple(averaged)) if averaged else full
    if got.shape != ref.shape:
        raise Violation(f"{case['detector']}: ensemble_mean={on} gives shape {got.shape}; mean over axes {averaged} of the ensemble_mean=False run has shape {ref.shape}", ("mean", "shape"))
    err = tol.rel_err(got, ref)
    if err > RTOL_PIPELINE:
        raise Violation(f"{case['detector']}: ensemble_mean={on} differs from the mean over axes {averaged} of the ensemble_mean=False run by {err:.2e} relative", ("mean", "values"))
    # the averaged axes are gone, the others keep their metadata
    kept = [a for i, a in enumerate(full_obj.ensemble_axes_metadata) if i not in averaged]
    if gen.axes_to_plain(got_obj.ensemble_axes_metadata) != gen.axes_to_plain(kept):
        raise Violation(f"{case['detector']}: axes after averaging {[type(a).__name__ for a in got_obj.ensemble_axes_metadata]} != remaining axes {[type(a).__name__ for a in kept]}", ("mean", "axes"))
    canon = _canonical(case["aberrations"])
    specs = [canon[_ALIAS.get(n, n)][0] if n != "semiangle_cutoff" else case["semiangle_cutoff"] for n in names]
    ctx.label("detector:" + case["detector"])
    ctx.label("scan:" + (case["scan"]["kind"] if case["scan"] else "none"))
    ctx.label(f"dists:{len(names)}")
    ctx.label("weighted", any(is_weighted(s) for s in specs))
    ctx.label("lazy", case["lazy"])
    ctx.nontrivial(any(has_distinct(specs[i]) for i in averaged))
