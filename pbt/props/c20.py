"""C20 Scan positions have the geometry their parameters describe (abtem/scan.py, abtem/waves.py).

Clauses and claims:

* GridScan: exactly gpts positions, equally spaced by the reported sampling from start, last
  position == end (endpoint) or one step short, axes metadata lists the same coordinates
                                                                   -> ``gridscan_geometry``
* LineScan: the same along the line from start to end (metadata = arc length)
                                                                   -> ``linescan_geometry``
* a probe built at position r == the probe built at the origin shifted periodically by r
  (single positions, position lists, CustomScan, GridScan, LineScan, lazy and eager,
  batched)                                                         -> ``probe_at_position``

References are float64 closed forms (start + i*d*u) and a float64 numpy Fourier shift /
np.roll of the origin probe; abTEM stores positions in float32.
"""

from __future__ import annotations

import numpy as np
from hypothesis import strategies as st

from pbt import gen, tol
from pbt.core import Violation, claim

EPS32 = tol.EPS32


def _coord():
    return gen.floats(-5.0, 15.0).map(lambda v: round(v, 3))


def _pos_atol(*points):
    """Positions are float64 linspace values rounded to float32: half an ulp of the largest
    coordinate; 4 ulp allowed."""
    m = max([1.0] + [abs(float(c)) for p in points for c in p])
    return 4 * EPS32 * m


# ----------------------------------------------------------------------- GridScan
@st.composite
def _axis_extent_sampling(draw):
    """(extent, sampling) of one axis for sampling-specified scans; <= ~16 points."""
    kind = draw(st.sampled_from(["free", "free", "divides"]))
    if kind == "divides":
        k = draw(st.integers(1, 12))
        s = draw(st.sampled_from([0.05, 0.1, 0.2, 0.25, 0.3, 0.5, 0.7, 1.1, 3.0]))
        return round(k * s, 6), s
    extent = round(draw(gen.floats(0.2, 10.0)), 3)
    count = draw(gen.floats(0.6, 14.0))
    s = min(3.0, max(0.05, round(extent / count, 4)))
    if extent / s > 16:
        s = round(extent / 16, 4)
    return extent, s


@st.composite
def gridscan_case(draw):
    start = [draw(_coord()), draw(_coord())]
    mode = draw(st.sampled_from(["gpts", "gpts", "sampling", "sampling", "sampling_scalar", "gpts_scalar"]))
    case = {"start": start, "mode": mode}
    if mode.startswith("sampling"):
        ex, sx = draw(_axis_extent_sampling())
        ey, sy = draw(_axis_extent_sampling())
        if mode == "sampling_scalar":
            sy = sx
            if ey / sy > 16:
                ey = round(sy * draw(gen.floats(0.6, 14.0)), 3)
        case["extent"] = [ex, ey]
        case["sampling"] = [sx, sy]
    else:
        case["extent"] = [round(draw(gen.floats(0.2, 10.0)), 3), round(draw(gen.floats(0.2, 10.0)), 3)]
        g = [draw(st.integers(1, 12)), draw(st.integers(1, 12))]
        if mode == "gpts_scalar":
            g[1] = g[0]
        case["gpts"] = g
    case["endpoint"] = draw(st.sampled_from([False, True, [True, False], [False, True], [True, True]]))
    # optionally move a corner afterwards through the public setter (extent stays positive)
    op = draw(st.sampled_from([None, None, "start", "end"]))
    if op is not None:
        case["then_set"] = [op, [round(draw(gen.floats(0.2, 10.0)), 3), round(draw(gen.floats(0.2, 10.0)), 3)]]
    return case


def _check_axis(name, pos, start, end, n, d, endpoint, atol, case, coords=None):
    """One scan axis against the float64 closed form.  ``pos``: the n coordinates produced."""
    if len(pos) != n:
        raise Violation(f"{name}: {len(pos)} positions but gpts={n}: {case}", (name, "count"))
    ref = start + d * np.arange(n)
    if n >= 1 and abs(float(pos[0]) - start) > atol:
        raise Violation(f"{name}: first position {pos[0]} != start {start}: {case}", (name, "first"))
    if np.abs(np.asarray(pos, dtype=np.float64) - ref).max() > atol:
        raise Violation(
            f"{name}: positions are not start + i*sampling (sampling={d}): got {np.asarray(pos)[:4]}..., "
            f"expected {ref[:4]}...: {case}",
            (name, "spacing", "endpoint" if endpoint else "open"),
        )
    if n >= 2:
        last_ref = end if endpoint else end - d
        if abs(float(pos[-1]) - last_ref) > atol:
            raise Violation(
                f"{name}: last position {pos[-1]} but expected {last_ref} (end={end}, sampling={d}, "
                f"endpoint={endpoint}): {case}",
                (name, "last", "endpoint" if endpoint else "open"),
            )
        # the same statement in float64 on the reported numbers
        span = (n - 1) * d if endpoint else n * d
        if abs(span - (end - start)) > 1e-9 * max(1.0, abs(end - start)):
            raise Violation(
                f"{name}: reported sampling {d} x gpts {n} does not span start..end "
                f"({start}..{end}, endpoint={endpoint}): {case}",
                (name, "sampling", "endpoint" if endpoint else "open"),
            )
    if coords is not None:
        if len(coords) != n or np.abs(np.asarray(coords, dtype=np.float64) - ref).max() > 1e-9 * max(1.0, abs(start), abs(end)):
            raise Violation(
                f"{name}: axis metadata coordinates {np.asarray(coords)[:4]}... differ from the positions {ref[:4]}...: {case}",
                (name, "metadata"),
            )


@claim(
    "C20",
    "gridscan_geometry",
    gridscan_case,
    quick=1500,
    thorough=30000,
    tol="positions: 4 ulp32 of the largest coordinate ; reported sampling/metadata: 1e-9 (float64)",
    rule="gpts >= 2 along some axis",
    nontrivial_floor=0.6,
)
def check_gridscan(case, ctx):
    import abtem

    start = tuple(case["start"])
    end = tuple(s + e for s, e in zip(start, case["extent"]))
    kw = {}
    if case["mode"] == "gpts":
        kw["gpts"] = tuple(case["gpts"])
    elif case["mode"] == "gpts_scalar":
        kw["gpts"] = case["gpts"][0]
    elif case["mode"] == "sampling":
        kw["sampling"] = tuple(case["sampling"])
    else:
        kw["sampling"] = case["sampling"][0]
    ep = case["endpoint"]
    endpoint = tuple(ep) if isinstance(ep, list) else (ep, ep)
    scan = abtem.GridScan(start=start, end=end, endpoint=tuple(ep) if isinstance(ep, list) else ep, **kw)
    if "then_set" in case:
        which, ext = case["then_set"]
        if which == "end":
            end = tuple(s + e for s, e in zip(start, ext))
            scan.end = end
        else:
            start = tuple(e - x for e, x in zip(end, ext))
            scan.start = start
        ctx.label("set_" + which)
    ctx.label("mode=" + case["mode"])
    ctx.label("endpoint=" + "".join("T" if e else "F" for e in endpoint))

    gpts = tuple(scan.gpts)
    sampling = tuple(scan.sampling)
    if tuple(scan.endpoint) != endpoint:
        raise Violation(f"endpoint reported as {scan.endpoint}: {case}", ("grid", "endpoint_flag"))
    if case["mode"].startswith("gpts") and gpts != tuple(case["gpts"]):
        raise Violation(f"gpts {case['gpts']} reported as {gpts}: {case}", ("grid", "gpts"))
    if any(n < 1 for n in gpts):
        raise Violation(f"gpts {gpts} < 1: {case}", ("grid", "gpts"))
    if tuple(scan.start) != start or tuple(scan.end) != end:
        raise Violation(f"start/end reported as {scan.start}/{scan.end}: {case}", ("grid", "limits"))
    ctx.nontrivial(max(gpts) >= 2)

    pos = scan.get_positions()
    if pos.shape != gpts + (2,) or tuple(scan.shape) != gpts or len(scan) != gpts[0] * gpts[1]:
        raise Violation(f"positions shape {pos.shape}, shape {scan.shape}, len {len(scan)} for gpts {gpts}: {case}", ("grid", "count"))
    # a grid: x depends on the first index only, y on the second only
    if not (np.all(pos[..., 0] == pos[:, :1, 0]) and np.all(pos[..., 1] == pos[:1, :, 1])):
        raise Violation(f"positions are not a tensor grid: {case}", ("grid", "meshgrid"))
    axes = scan.ensemble_axes_metadata
    if len(axes) != 2:
        raise Violation(f"{len(axes)} ensemble axes for a grid scan", ("grid", "metadata"))
    atol = _pos_atol(start, end)
    for k, name in enumerate(("grid_x", "grid_y")):
        line = pos[:, 0, 0] if k == 0 else pos[0, :, 1]
        _check_axis(name, line, start[k], end[k], gpts[k], sampling[k], endpoint[k], atol, case, coords=axes[k].coordinates(gpts[k]))
        if bool(axes[k].endpoint) != endpoint[k]:
            raise Violation(f"axis metadata endpoint {axes[k].endpoint} != {endpoint[k]}: {case}", (name, "metadata"))


# ----------------------------------------------------------------------- LineScan
@st.composite
def linescan_case(draw):
    ctor = draw(st.sampled_from(["init", "init", "init", "at_position"]))
    case = {"ctor": ctor}
    if ctor == "init":
        start = [draw(_coord()), draw(_coord())]
        direction = draw(st.sampled_from(["free", "free", "x", "y", "-x", "diag"]))
        length = round(draw(gen.floats(0.1, 12.0)), 3)
        if direction == "free":
            end = [draw(_coord()), draw(_coord())]
            if np.hypot(end[0] - start[0], end[1] - start[1]) < 0.1:
                end = [round(start[0] + length, 3), start[1]]
        elif direction == "x":
            end = [round(start[0] + length, 3), start[1]]
        elif direction == "-x":
            end = [round(start[0] - length, 3), start[1]]
        elif direction == "y":
            end = [start[0], round(start[1] + length, 3)]
        else:
            end = [round(start[0] + length, 3), round(start[1] - length, 3)]
        case["start"], case["end"] = start, end
        extent = float(np.hypot(end[0] - start[0], end[1] - start[1]))
    else:
        case["center"] = [draw(_coord()), draw(_coord())]
        extent = case["extent"] = round(draw(gen.floats(0.1, 12.0)), 3)
        case["angle"] = draw(st.sampled_from([0.0, 90.0, 45.0, 180.0, -30.0])) if draw(st.booleans()) else round(draw(gen.floats(-180.0, 180.0)), 2)
    if draw(st.booleans()):
        case["gpts"] = draw(st.integers(1, 12))
    else:
        count = draw(gen.floats(0.6, 14.0))
        case["sampling"] = min(3.0, max(0.05, round(extent / count, 4)))
        if extent / case["sampling"] > 24:
            case["sampling"] = round(extent / 24, 4)
    case["endpoint"] = draw(st.booleans())
    op = draw(st.sampled_from([None, None, None, "start", "end"]))
    if op is not None:
        case["then_set"] = [op, [draw(_coord()), draw(_coord())]]
    return case


@claim(
    "C20",
    "linescan_geometry",
    linescan_case,
    quick=1500,
    thorough=30000,
    tol="positions: 4 ulp32 of the largest coordinate; reported sampling/metadata: 1e-9 (float64)",
    rule="gpts >= 2",
    nontrivial_floor=0.6,
)
def check_linescan(case, ctx):
    import abtem

    kw = {"endpoint": case["endpoint"]}
    if "gpts" in case:
        kw["gpts"] = case["gpts"]
    else:
        kw["sampling"] = case["sampling"]
    if case["ctor"] == "init":
        start, end = tuple(case["start"]), tuple(case["end"])
        scan = abtem.LineScan(start=start, end=end, **kw)
    else:
        c, L, a = case["center"], case["extent"], np.deg2rad(case["angle"])
        u = np.array([np.cos(a), np.sin(a)])
        start = tuple(float(v) for v in np.array(c) - L / 2 * u)
        end = tuple(float(v) for v in np.array(c) + L / 2 * u)
        scan = abtem.LineScan.at_position(center=tuple(c), extent=L, angle=case["angle"], **kw)
    if "then_set" in case:
        which, p = case["then_set"]
        other = start if which == "end" else end
        if np.hypot(p[0] - other[0], p[1] - other[1]) < 0.1:
            ctx.label("skipped_degenerate_set")
        elif which == "end":
            end = tuple(p)
            scan.end = end
        else:
            start = tuple(p)
            scan.start = start
        ctx.label("set_" + which)
    ctx.label("ctor=" + case["ctor"])
    ctx.label("gpts" if "gpts" in case else "sampling")
    ctx.label("endpoint" if case["endpoint"] else "open")

    n, d = scan.gpts, scan.sampling
    if "gpts" in case and "then_set" not in case and n != case["gpts"]:
        raise Violation(f"gpts {case['gpts']} reported as {n}: {case}", ("line", "gpts"))
    if not (isinstance(n, (int, np.integer)) and n >= 1):
        raise Violation(f"gpts reported as {n!r}: {case}", ("line", "gpts"))
    if bool(scan.endpoint) != case["endpoint"]:
        raise Violation(f"endpoint reported as {scan.endpoint}", ("line", "endpoint_flag"))
    for got, want, nm in ((scan.start, start, "start"), (scan.end, end, "end")):
        if np.abs(np.array(got) - np.array(want)).max() > 1e-9 * max(1.0, np.abs(want).max()):
            raise Violation(f"{nm} reported as {got}, expected {want}: {case}", ("line", "limits"))
    ctx.nontrivial(n >= 2)

    pos = scan.get_positions()
    if pos.shape != (n, 2) or tuple(scan.shape) != (n,) or len(scan) != n:
        raise Violation(f"positions shape {pos.shape}, shape {scan.shape}, len {len(scan)} for gpts {n}: {case}", ("line", "count"))
    s, e = np.array(start, dtype=np.float64), np.array(end, dtype=np.float64)
    L = float(np.linalg.norm(e - s))
    u = (e - s) / L
    ref = s[None] + d * np.arange(n)[:, None] * u[None]
    atol = _pos_atol(start, end)
    kind = "endpoint" if case["endpoint"] else "open"
    if np.abs(pos[0].astype(np.float64) - s).max() > atol:
        raise Violation(f"first position {pos[0]} != start {start}: {case}", ("line", "first"))
    if np.abs(pos.astype(np.float64) - ref).max() > atol:
        raise Violation(
            f"positions are not start + i*sampling*direction (sampling={d}): got {pos[:3].tolist()}, expected {ref[:3].tolist()}: {case}",
            ("line", "spacing", kind),
        )
    if n >= 2:
        last_ref = e if case["endpoint"] else e - d * u
        if np.abs(pos[-1].astype(np.float64) - last_ref).max() > atol:
            raise Violation(
                f"last position {pos[-1]} but expected {last_ref} (end={end}, sampling={d}, endpoint={case['endpoint']}): {case}",
                ("line", "last", kind),
            )
        span = (n - 1) * d if case["endpoint"] else n * d
        if abs(span - L) > 1e-9 * max(1.0, L):
            raise Violation(f"reported sampling {d} x gpts {n} does not span the line of length {L}: {case}", ("line", "sampling", kind))
    axes = scan.ensemble_axes_metadata
    if len(axes) != 1:
        raise Violation(f"{len(axes)} ensemble axes for a line scan", ("line", "metadata"))
    coords = np.asarray(axes[0].coordinates(n), dtype=np.float64)
    arc = d * np.arange(n)
    if coords.shape != (n,) or np.abs(coords - arc).max() > 1e-9 * max(1.0, L):
        raise Violation(f"axis metadata coordinates {coords[:4]} are not the arc length {arc[:4]}: {case}", ("line", "metadata"))
    got_arc = (pos.astype(np.float64) - s[None]) @ u
    if np.abs(got_arc - coords).max() > 2 * atol:
        raise Violation(f"axis metadata coordinates {coords[:4]} differ from the positions' arc length {got_arc[:4]}: {case}", ("line", "metadata"))
    if bool(axes[0].endpoint) != case["endpoint"]:
        raise Violation(f"axis metadata endpoint {axes[0].endpoint}: {case}", ("line", "metadata"))


# ----------------------------------------------------------------------- probes
@st.composite
def _position(draw, gpts, extent):
    kind = draw(st.sampled_from(["pixel", "free", "free"]))
    if kind == "pixel":
        ij = [draw(st.integers(-2 * gpts[0], 2 * gpts[0])), draw(st.integers(-2 * gpts[1], 2 * gpts[1]))]
        return {"pixel": ij}
    return {"xy": [draw(_coord()), draw(_coord())]}


@st.composite
def probe_case(draw):
    gpts = [draw(st.integers(6, 32)), draw(st.integers(6, 32))]
    extent = [round(draw(gen.floats(3.0, 9.0)), 3), round(draw(gen.floats(3.0, 9.0)), 3)]
    case = {
        "gpts": gpts,
        "extent": extent,
        "energy": draw(gen.energies()),
        "semiangle_cutoff": round(draw(gen.floats(8.0, 35.0)), 2),
        "defocus": round(draw(gen.floats(-200.0, 200.0)), 1),
        "C30": draw(st.sampled_from([0.0, 0.0, 1e4, -5e4])),
        "C12": draw(st.sampled_from([0.0, 0.0, 20.0])),
        "phi12": round(draw(gen.floats(0.0, 3.0)), 2),
        "lazy": draw(st.booleans()),
        "max_batch": draw(st.sampled_from(["auto", "auto", 1, 2, 3])),
    }
    kind = draw(st.sampled_from(["point", "points", "custom", "grid", "line"]))
    case["scan"] = kind
    if kind == "point":
        case["positions"] = [draw(_position(gpts, extent))]
    elif kind in ("points", "custom"):
        case["positions"] = draw(st.lists(_position(gpts, extent), min_size=1, max_size=4))
    elif kind == "grid":
        case["start"] = [draw(_coord()), draw(_coord())]
        case["scan_extent"] = [round(draw(gen.floats(0.2, 8.0)), 3), round(draw(gen.floats(0.2, 8.0)), 3)]
        case["scan_gpts"] = [draw(st.integers(1, 3)), draw(st.integers(1, 4))]
        # endpoint=True on a 1-point axis is contradictory (the only position is the start and
        # the reported sampling is 0); it is generated in gridscan_geometry, not here
        case["endpoint"] = [draw(st.booleans()) and n > 1 for n in case["scan_gpts"]]
    else:
        case["start"] = [draw(_coord()), draw(_coord())]
        end = [draw(_coord()), draw(_coord())]
        if np.hypot(end[0] - case["start"][0], end[1] - case["start"][1]) < 0.1:
            end = [round(case["start"][0] + 1.0, 3), case["start"][1]]
        case["end"] = end
        case["scan_gpts"] = draw(st.integers(1, 5))
        case["endpoint"] = draw(st.booleans())
    return case


def _linspace64(a, b, n, endpoint):
    """Float64 closed form of 'n points from a, last == b if endpoint else one step short'."""
    div = (n - 1) if (endpoint and n > 1) else n
    return a + (b - a) * np.arange(n) / div


def _shift64(a, r, sampling):
    """Periodic (Fourier) shift of a 2-D array by r [Angstrom], in float64."""
    a = a.astype(np.complex128)
    kx = np.fft.fftfreq(a.shape[0], sampling[0])[:, None]
    ky = np.fft.fftfreq(a.shape[1], sampling[1])[None, :]
    return np.fft.ifft2(np.fft.fft2(a) * np.exp(-2j * np.pi * (kx * r[0] + ky * r[1])))


@claim(
    "C20",
    "probe_at_position",
    probe_case,
    quick=500,
    thorough=10000,
    tol="ulp32: max|probe(r) - shift(probe(0), r)| <= (2e-5 + 2e-6*|r in pixels|) * max|probe(0)| "
    "(positions and the frequency grid are float32: the phase error grows with |r|/sampling; observed 2e-8*|r px|)",
    rule="some position is not the origin",
    nontrivial_floor=0.7,
    floors={"lazy": 0.25},
)
def check_probe_at_position(case, ctx):
    import abtem

    gpts, extent = tuple(case["gpts"]), tuple(case["extent"])
    sampling = tuple(e / n for e, n in zip(extent, gpts))
    probe = abtem.Probe(
        energy=case["energy"],
        semiangle_cutoff=case["semiangle_cutoff"],
        gpts=gpts,
        extent=extent,
        defocus=case["defocus"],
        C30=case["C30"],
        C12=case["C12"],
        phi12=case["phi12"],
    )

    def xy(p):
        if "pixel" in p:
            return (p["pixel"][0] * sampling[0], p["pixel"][1] * sampling[1])
        return tuple(p["xy"])

    kind = case["scan"]
    whole = None
    if kind in ("point", "points", "custom"):
        pts = [xy(p) for p in case["positions"]]
        whole = [tuple(p["pixel"]) if "pixel" in p else None for p in case["positions"]]
        ref_positions = np.array(pts, dtype=np.float64)
        ens_shape = (len(pts),)
        if kind == "point":
            scan, ens_shape = pts[0], ()
        elif kind == "points":
            scan = pts
        else:
            scan = abtem.CustomScan(pts)
    elif kind == "grid":
        start = tuple(case["start"])
        end = tuple(s + e for s, e in zip(start, case["scan_extent"]))
        n = tuple(case["scan_gpts"])
        scan = abtem.GridScan(start=start, end=end, gpts=n, endpoint=tuple(case["endpoint"]))
        x = _linspace64(start[0], end[0], n[0], case["endpoint"][0])
        y = _linspace64(start[1], end[1], n[1], case["endpoint"][1])
        ref_positions = np.stack(np.meshgrid(x, y, indexing="ij"), axis=-1).reshape(-1, 2)
        ens_shape = n
    else:
        start, end, n = tuple(case["start"]), tuple(case["end"]), case["scan_gpts"]
        scan = abtem.LineScan(start=start, end=end, gpts=n, endpoint=case["endpoint"])
        ref_positions = np.stack(
            [_linspace64(start[0], end[0], n, case["endpoint"]), _linspace64(start[1], end[1], n, case["endpoint"])], axis=-1
        )
        ens_shape = (n,)
    ctx.label("scan=" + kind)
    ctx.label("lazy", case["lazy"])
    ctx.label("batched", case["max_batch"] != "auto")
    ctx.nontrivial(bool(np.abs(ref_positions).max() > 0))

    origin = probe.build(scan=(0.0, 0.0), lazy=False)
    w0 = np.asarray(origin.array)
    if w0.shape != gpts:
        raise Violation(f"origin probe has shape {w0.shape}: {case}", ("probe", "origin_shape"))
    waves = probe.build(scan=scan, lazy=case["lazy"], max_batch=case["max_batch"])
    if case["lazy"]:
        waves = waves.compute()
    arr = np.asarray(waves.array)
    # a sequence holding a single position is squeezed by validate_scan (documented for a
    # single xy pair); both (1, nx, ny) and (nx, ny) are accepted for it
    if arr.shape != tuple(ens_shape) + gpts and not (kind == "points" and len(pts) == 1 and arr.shape == gpts):
        raise Violation(f"built probes have shape {arr.shape}, expected {tuple(ens_shape) + gpts}: {case}", ("probe", "shape", kind))
    arr = arr.reshape((-1,) + gpts)
    scale = tol.scale(w0)
    for i, r in enumerate(ref_positions):
        px = max(abs(r[0] / sampling[0]), abs(r[1] / sampling[1]))
        rtol = 2e-5 + 2e-6 * px
        ref = _shift64(w0, r, sampling)
        err = tol.max_err(arr[i], ref)
        if not err <= rtol * scale:
            # classify for the bucket: opposite shift / no shift
            why = "other"
            if tol.max_err(arr[i], _shift64(w0, (-r[0], -r[1]), sampling)) <= rtol * scale:
                why = "opposite_sign"
            elif tol.max_err(arr[i], w0) <= rtol * scale:
                why = "not_shifted"
            raise Violation(
                f"probe {i} at r={tuple(r)} differs from the shifted origin probe by {err / scale:.2e} ({why}): {case}",
                ("probe", "shift", kind, why),
            )
        if whole is not None and whole[i] is not None:
            ctx.label("whole_pixel")
            rolled = np.roll(w0, whole[i], axis=(0, 1))
            err = tol.max_err(arr[i], rolled)
            if not err <= rtol * scale:
                raise Violation(
                    f"probe at whole-pixel position {whole[i]} differs from np.roll of the origin probe by {err / scale:.2e}: {case}",
                    ("probe", "roll", kind),
                )
