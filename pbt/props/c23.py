"""C23 Apertures and partial-coherence envelopes stay within physical bounds
(abtem/transfer.py: hard_aperture / soft_aperture / Aperture, TemporalEnvelope,
SpatialEnvelope, CTF._evaluate_from_angular_grid).

The scattering angle of every pixel is recomputed by the check in float64 from
gpts / sampling / energy (pbt/props/_chi_ref.py: alpha = lambda * |k|, k = fftfreq); abTEM
computes it in float32, so pixels whose float64 angle lies within a relative band of
8*eps32 (hard edge) or 16*eps32 (soft edge) of a decision boundary are not judged (they
are counted as skipped sub-comparisons).  "Half a pixel" of the soft edge is taken as
half of the LARGER of the two angular pixel sizes (the weakest reading of the statement).
"""

from __future__ import annotations

import numpy as np
from hypothesis import strategies as st

from pbt import gen, tol
from pbt.core import Violation, claim
from pbt.props import _chi_ref as ref
from pbt.props._aberr_gen import coeff_set

EPS32 = tol.EPS32
HARD_BAND = 8 * EPS32
SOFT_BAND = 16 * EPS32
RANGE_TOL = 1e-6  # float32 rounding of products of numbers in [0, 1] / unit phasors


# ----------------------------------------------------------------------- generators
@st.composite
def angular_grid_spec(draw, lo=4, hi=28):
    """gpts + sampling such that the Nyquist angle of each axis is 5..120 mrad
    (independently per axis: anisotropic sampling, odd and even sizes)."""
    energy = draw(gen.energies())
    lam = ref.wavelength(energy)
    gpts = draw(gen.gpts2d(lo, hi))
    sampling = [round(lam / (2 * draw(gen.floats(0.005, 0.120))), 5) for _ in range(2)]
    return {"energy": energy, "gpts": gpts, "sampling": sampling}


def cutoffs():
    return gen.floats(1.0, 40.0)


@st.composite
def cutoff_or_list(draw):
    if draw(st.integers(0, 3)) == 0:
        return [draw(cutoffs()) for _ in range(draw(st.integers(1, 3)))]
    return draw(cutoffs())


def _grid_kwargs(case):
    return {"energy": case["energy"], "gpts": tuple(case["gpts"]), "sampling": tuple(case["sampling"])}


def _pixel_sizes(case):
    """Angular pixel sizes [rad] of the two axes: lambda / (N d)."""
    lam = ref.wavelength(case["energy"])
    return [lam / (n * d) for n, d in zip(case["gpts"], case["sampling"])]


def _in_unit_interval(k, what, bucket, slack=0.0):
    k = np.asarray(k)
    if np.iscomplexobj(k):
        raise Violation(f"{what} is complex ({k.dtype})", bucket + ("complex",))
    if not np.all(np.isfinite(k)):
        raise Violation(f"{what} has non-finite values", bucket + ("nonfinite",))
    if k.size and (k.min() < 0.0 or k.max() > 1.0 + slack):
        raise Violation(f"{what} leaves [0, 1]: min={k.min()!r} max={k.max()!r}", bucket + ("range",))


def _check_aperture_values(k, alpha, cut_rad, soft, pix, ctx, bucket):
    """k: one 2-D aperture; alpha: float64 reference angles [rad]."""
    if soft:
        half = 0.5 * max(pix)
        slack = SOFT_BAND * np.maximum(alpha, cut_rad)
        must_one = alpha < cut_rad - half - slack
        must_zero = alpha > cut_rad + half + slack
    else:
        must_one = alpha < cut_rad * (1 - HARD_BAND)
        must_zero = alpha > cut_rad * (1 + HARD_BAND)
    must_one[0, 0] = must_one[0, 0] or not soft  # alpha = 0 <= any positive cutoff
    ctx.skip(int((~must_one & ~must_zero).sum()) if not soft else 0)
    if np.any(k[must_one] != 1.0):
        i = np.argwhere(must_one & (k != 1.0))[0]
        raise Violation(
            f"{'soft' if soft else 'hard'} aperture, cutoff {cut_rad * 1e3:.6g} mrad: value {k[tuple(i)]!r} at pixel {tuple(i)} with alpha={alpha[tuple(i)] * 1e3:.6g} mrad (pixel sizes {[p * 1e3 for p in pix]} mrad) should be 1",
            bucket + ("inside_not_one",),
        )
    if np.any(k[must_zero] != 0.0):
        i = np.argwhere(must_zero & (k != 0.0))[0]
        raise Violation(
            f"{'soft' if soft else 'hard'} aperture, cutoff {cut_rad * 1e3:.6g} mrad: value {k[tuple(i)]!r} at pixel {tuple(i)} with alpha={alpha[tuple(i)] * 1e3:.6g} mrad (pixel sizes {[p * 1e3 for p in pix]} mrad) should be 0",
            bucket + ("outside_not_zero",),
        )
    if not soft and np.any((k != 0.0) & (k != 1.0)):
        raise Violation("hard aperture has values other than 0 and 1", bucket + ("not_binary",))
    return bool(must_one.sum() > 1 and must_zero.any())


# ----------------------------------------------------------------------- claim 1: hard_aperture, exact
@st.composite
def hard_function_case(draw):
    dtype = draw(st.sampled_from(["float32", "float64"]))
    shape = [draw(st.integers(1, 6)), draw(st.integers(1, 6))]
    n = shape[0] * shape[1]
    alpha = [float(np.dtype(dtype).type(draw(gen.floats(0.0, 0.06)))) for _ in range(n)]
    alpha[0] = 0.0
    ncut = draw(st.sampled_from([0, 0, 1, 2, 3]))  # 0: scalar cutoff
    cuts = []
    for _ in range(max(1, ncut)):
        if draw(st.booleans()):
            cuts.append(alpha[draw(st.integers(0, n - 1))])  # exactly on a sample: "up to the cutoff" is inclusive
        else:
            cuts.append(float(np.dtype(dtype).type(draw(gen.floats(0.0005, 0.06)))))
    return {"dtype": dtype, "shape": shape, "alpha": alpha, "cutoff": cuts if ncut else cuts[0]}


@claim(
    "C23",
    "hard_aperture_exact",
    hard_function_case,
    quick=1500,
    thorough=30000,
    tol="exact (cutoffs and angles are exactly representable in the array dtype)",
    rule="some sample lies exactly on the cutoff, or samples on both sides of it exist",
    nontrivial_floor=0.4,
)
def check_hard_aperture_exact(case, ctx):
    from abtem.transfer import hard_aperture

    dtype = np.dtype(case["dtype"])
    alpha = np.array(case["alpha"], dtype=dtype).reshape(case["shape"])
    cutoff = case["cutoff"]
    many = isinstance(cutoff, list)
    cuts = np.array(cutoff if many else [cutoff], dtype=np.float64)
    ctx.label("cutoff_array" if many else "cutoff_scalar")
    ctx.label(case["dtype"])
    a64 = alpha.astype(np.float64)
    on_edge = any(np.any(a64 == c) for c in cuts)
    ctx.label("sample_on_cutoff", on_edge)
    ctx.nontrivial(on_edge or any(np.any(a64 < c) and np.any(a64 > c) for c in cuts))
    got = np.asarray(hard_aperture(alpha, np.array(cutoff, dtype=dtype) if many else cutoff))
    expected = (a64[None] <= cuts[:, None, None]).astype(np.float64)
    if not many:
        expected = expected[0]
    if got.shape != expected.shape:
        # documented: "If given as an array, a 3D array is returned where the first dimension
        # represents a different aperture for each item in the array of semiangle cutoffs."
        raise Violation(f"hard_aperture(alpha{alpha.shape}, cutoffs{cuts.shape if many else ''}) has shape {got.shape}, expected {expected.shape}", ("hard_function", "shape"))
    if not np.array_equal(got.astype(np.float64), expected):
        i = tuple(np.argwhere(got != expected)[0])
        raise Violation(f"hard_aperture: value {got[i]!r} at alpha={a64[i[-2:]]!r} for cutoff {cuts[i[0]] if many else cuts[0]!r}; expected {expected[i]!r} (1 iff alpha <= cutoff)", ("hard_function", "value"))


# ----------------------------------------------------------------------- claim 2: Aperture on a grid
@st.composite
def aperture_case(draw):
    g = draw(angular_grid_spec())
    return {**g, "cutoff": draw(cutoff_or_list()), "soft": draw(st.booleans())}


@claim(
    "C23",
    "aperture_grid",
    aperture_case,
    quick=1200,
    thorough=30000,
    tol="values exact (1 / 0) outside a float32 band around the edge: 8*eps32 relative (hard), half a pixel + 16*eps32 (soft); range [0,1] exact",
    rule="the cutoff lies strictly inside the grid's angular range: pixels with alpha>0 that must be 1 and pixels that must be 0 both exist",
    nontrivial_floor=0.2,
)
def check_aperture_grid(case, ctx):
    from abtem.transfer import Aperture

    soft = case["soft"]
    cutoff = case["cutoff"]
    many = isinstance(cutoff, list)
    ctx.label("soft" if soft else "hard")
    ctx.label("cutoff_distribution" if many else "cutoff_scalar")
    aperture = Aperture(semiangle_cutoff=cutoff, soft=soft, **_grid_kwargs(case))
    k = np.asarray(aperture._evaluate_kernel())
    gpts = tuple(case["gpts"])
    bucket = ("aperture", "soft" if soft else "hard", "distribution" if many else "scalar")
    exp_shape = ((len(cutoff),) if many else ()) + gpts
    if k.shape != exp_shape:
        raise Violation(f"Aperture(semiangle_cutoff={cutoff}, soft={soft}) kernel has shape {k.shape}, expected {exp_shape}", bucket + ("shape",))
    _in_unit_interval(k, "aperture", bucket)
    alpha, _ = ref.angular_grid(gpts, case["sampling"], case["energy"])
    pix = _pixel_sizes(case)
    inside = False
    for j, c in enumerate(cutoff if many else [cutoff]):
        inside |= _check_aperture_values(k[j] if many else k, alpha, c * 1e-3, soft, pix, ctx, bucket)
    ctx.nontrivial(inside)


# ----------------------------------------------------------------------- claim 3: envelopes
def _spread(draw, hi, weighted=False):
    kinds = ["any", "any", "any", "zero", "list"] + (["weighted", "gaussian"] if weighted else [])
    kind = draw(st.sampled_from(kinds))
    if kind == "any":
        return draw(gen.floats(0.0, hi))
    if kind == "zero":
        return 0.0
    if kind == "weighted":
        n = draw(st.integers(1, 3))
        return {"values": [draw(gen.floats(0.0, hi)) for _ in range(n)], "weights": [draw(st.sampled_from([0.25, 0.5, 1.5, 2.0])) for _ in range(n)]}
    if kind == "gaussian":
        std = draw(gen.floats(0.01, hi / 8))
        return {"gaussian": {"center": 2.0 * std + draw(gen.floats(0.0, hi / 2)), "std": std, "n": draw(st.integers(2, 4))}}
    return [draw(gen.floats(0.0, hi)) for _ in range(draw(st.integers(1, 3)))]


def _mk_spread(spec):
    """spread spec -> (value for abTEM, number of members or None for a scalar)"""
    import abtem.distributions as dist

    if isinstance(spec, dict) and "values" in spec:
        return dist.from_values(np.array(spec["values"]), weights=np.array(spec["weights"])), len(spec["values"])
    if isinstance(spec, dict):
        g = spec["gaussian"]
        return dist.gaussian(center=g["center"], standard_deviation=g["std"], num_samples=g["n"], sampling_limit=2.0), g["n"]
    if isinstance(spec, list):
        return spec, len(spec)
    return spec, None


@st.composite
def envelope_case(draw):
    g = draw(angular_grid_spec())
    kind = draw(st.sampled_from(["temporal", "spatial", "spatial"]))
    case = {**g, "kind": kind}
    if kind == "temporal":
        case["focal_spread"] = _spread(draw, 200.0, weighted=True)
    else:
        case["angular_spread"] = _spread(draw, 5.0, weighted=True)
        case["coeffs"] = draw(coeff_set(g["energy"], min_size=0))
    return case


@claim(
    "C23",
    "envelopes",
    envelope_case,
    quick=1200,
    thorough=30000,
    tol="range [0, 1] exact; value at the zero-angle pixel within 1e-6 of 1",
    rule="non-zero spread (and, for the spatial envelope, a non-zero aberration) so that the envelope is not identically 1",
    nontrivial_floor=0.2,
)
def check_envelopes(case, ctx):
    from abtem.transfer import SpatialEnvelope, TemporalEnvelope

    kind = case["kind"]
    ctx.label(kind)
    if kind == "temporal":
        spread = case["focal_spread"]
        value, nmem = _mk_spread(spread)
        env = TemporalEnvelope(focal_spread=value, **_grid_kwargs(case))
    else:
        spread = case["angular_spread"]
        value, nmem = _mk_spread(spread)
        env = SpatialEnvelope(angular_spread=value, aberration_coefficients=dict(case["coeffs"]), **_grid_kwargs(case))
    many = nmem is not None
    ctx.label("spread_distribution" if many else "spread_scalar")
    ctx.label("spread_weighted", isinstance(spread, dict))
    k = np.asarray(env._evaluate_kernel())
    gpts = tuple(case["gpts"])
    bucket = ("envelope", kind)
    exp_shape = ((nmem,) if many else ()) + gpts
    if k.shape != exp_shape:
        raise Violation(f"{kind} envelope kernel has shape {k.shape}, expected {exp_shape}", bucket + ("shape",))
    _in_unit_interval(k, f"{kind} envelope (spread {spread})", bucket)
    dc = k[..., 0, 0]
    if np.any(np.abs(dc - 1.0) > 1e-6):
        raise Violation(f"{kind} envelope at zero scattering angle is {dc!r}, expected 1", bucket + ("dc",))
    ctx.nontrivial(bool(k.min() < 1.0))


# ----------------------------------------------------------------------- claim 4: |CTF| <= aperture
@st.composite
def ctf_case(draw):
    g = draw(angular_grid_spec())
    return {
        **g,
        "cutoff": draw(st.one_of(st.none(), cutoff_or_list(), cutoff_or_list())),
        "soft": draw(st.booleans()),
        "focal_spread": _spread(draw, 200.0),
        "angular_spread": _spread(draw, 5.0),
        "coeffs": draw(coeff_set(g["energy"], min_size=0)),
        "flip_phase": draw(st.sampled_from([False, False, False, True])),
    }


@claim(
    "C23",
    "ctf_le_aperture",
    ctf_case,
    quick=1000,
    thorough=25000,
    tol="|CTF| <= aperture + 1e-6 (float32 modulus of a unit phasor); exact 0 beyond the edge band",
    rule="finite cutoff inside the grid's angular range and at least one of aberrations / focal spread / angular spread non-zero",
    nontrivial_floor=0.18,
)
def check_ctf_le_aperture(case, ctx):
    from abtem.transfer import CTF, Aperture

    cutoff, soft = case["cutoff"], case["soft"]
    many = isinstance(cutoff, list)
    gk = _grid_kwargs(case)
    gpts = tuple(case["gpts"])
    ctf = CTF(
        semiangle_cutoff=np.inf if cutoff is None else cutoff,
        soft=soft,
        focal_spread=case["focal_spread"],
        angular_spread=case["angular_spread"],
        aberration_coefficients=dict(case["coeffs"]),
        flip_phase=case["flip_phase"],
        **gk,
    )
    ctx.label("soft" if soft else "hard")
    ctx.label("no_aperture" if cutoff is None else ("cutoff_distribution" if many else "cutoff_scalar"))
    ctx.label("flip_phase", case["flip_phase"])
    bucket = ("ctf", "soft" if soft else "hard", "none" if cutoff is None else ("distribution" if many else "scalar"))
    k = np.asarray(ctf._evaluate_kernel())
    # ensemble axes in abTEM's documented order: (aberrations,) angular spread, focal spread, cutoff
    lens = [len(v) for v in (case["angular_spread"], case["focal_spread"], cutoff) if isinstance(v, list)]
    exp_shape = tuple(lens) + gpts
    if k.shape != exp_shape or tuple(ctf.ensemble_shape) != tuple(lens):
        raise Violation(f"CTF kernel shape {k.shape} / ensemble_shape {ctf.ensemble_shape}, expected {exp_shape}", bucket + ("shape",))
    mod = np.abs(k)
    if not np.all(np.isfinite(mod)):
        raise Violation("CTF kernel has non-finite values", bucket + ("nonfinite",))
    if mod.max() > 1.0 + RANGE_TOL:
        raise Violation(f"|CTF| reaches {mod.max()!r} > 1", bucket + ("gt_one",))
    alpha, _ = ref.angular_grid(gpts, case["sampling"], case["energy"])
    inside = False
    if cutoff is not None:
        a = np.asarray(Aperture(semiangle_cutoff=cutoff, soft=soft, **gk)._evaluate_kernel())
        # the aperture axis is the last ensemble axis of the CTF: broadcasting from the right aligns it
        excess = mod - a
        if np.any(excess > RANGE_TOL):
            i = tuple(np.argwhere(excess > RANGE_TOL)[0])
            raise Violation(f"|CTF| = {mod[i]!r} exceeds its aperture {np.broadcast_to(a, mod.shape)[i]!r} at index {i} (alpha={alpha[i[-2:]] * 1e3:.5g} mrad, cutoff {cutoff} mrad)", bucket + ("exceeds_aperture",))
        # independent of abTEM's Aperture: nothing is transmitted beyond the edge band
        pix = _pixel_sizes(case)
        for j, c in enumerate(cutoff if many else [cutoff]):
            c_rad = c * 1e-3
            if soft:
                beyond = alpha > c_rad + 0.5 * max(pix) + SOFT_BAND * np.maximum(alpha, c_rad)
            else:
                beyond = alpha > c_rad * (1 + HARD_BAND)
            sub = mod[..., j, :, :] if many else mod
            if np.any(sub[..., beyond] != 0.0):
                raise Violation(f"CTF transmits {sub[..., beyond].max()!r} beyond its cutoff {c} mrad", bucket + ("beyond_cutoff",))
            inside |= bool(beyond.any() and (alpha < c_rad).sum() > 1)
    something = bool(ref.terms(case["coeffs"])) or np.any(np.asarray(case["focal_spread"]) != 0) or np.any(np.asarray(case["angular_spread"]) != 0)
    ctx.nontrivial(inside and bool(something))
