"""Independent float64 reference for the polar aberration function (used by C21, C22, C23, C05).

    chi(alpha, phi) = (2 pi / lambda) * sum_{n,m} C_nm * alpha^(n+1) * cos(m (phi - phi_nm)) / (n+1)

(Kirkland, Advanced Computing in Electron Microscopy, 2nd ed., Eq. 2.22; rotationally
symmetric terms have m = 0 and no angle).  The (n, m) of a term are *parsed from the
symbol name* ("C23" -> n=2, m=3; "phi23" is its azimuth); nothing here imports abTEM or
copies one of its tables.  The alias table below is written from abTEM's documentation
(docs of ``CTF``: defocus = -C10, Cs = C30, ...), not imported from the code.
"""

from __future__ import annotations

import re

import numpy as np

# CODATA 2014 (the set used by ase.units by default); differences between CODATA sets
# are < 1e-7 relative, far below every tolerance that uses the wavelength.
_H = 6.626070040e-34  # J s
_C = 299792458.0  # m / s
_ME = 9.10938356e-31  # kg
_E = 1.6021766208e-19  # C


def wavelength(energy_eV: float) -> float:
    """Relativistic de Broglie wavelength [Angstrom] of an electron of kinetic energy [eV]."""
    e = float(energy_eV)
    mc2 = _ME * _C**2 / _E  # eV
    return _H * _C / _E / np.sqrt(e * (2.0 * mc2 + e)) * 1e10


def all_orders(max_order: int = 5):
    """[(n, m)] of the polar expansion up to ``max_order``: 0 <= m <= n+1, n+m odd."""
    return [(n, m) for n in range(1, max_order + 1) for m in range(0, n + 2) if (n + m) % 2 == 1]


def magnitude_symbols(max_order: int = 5):
    return [f"C{n}{m}" for n, m in all_orders(max_order)]


def angle_symbols(max_order: int = 5):
    return [f"phi{n}{m}" for n, m in all_orders(max_order) if m > 0]


def all_symbols(max_order: int = 5):
    return magnitude_symbols(max_order) + angle_symbols(max_order)


_SYM = re.compile(r"^(C|phi)([1-9])([0-9])$")


def parse(symbol: str):
    """'C23' -> ('C', 2, 3); 'phi23' -> ('phi', 2, 3)."""
    mo = _SYM.match(symbol)
    if not mo:
        raise KeyError(f"not a polar aberration symbol: {symbol!r}")
    kind, n, m = mo.group(1), int(mo.group(2)), int(mo.group(3))
    if (n + m) % 2 != 1 or m > n + 1 or (kind == "phi" and m == 0):
        raise KeyError(f"not a polar aberration symbol: {symbol!r}")
    return kind, n, m


# alias -> symbol (from the documentation); "defocus" is special: defocus = -C10
ALIASES = {
    "Cs": "C30",
    "C5": "C50",
    "astigmatism": "C12",
    "astigmatism_angle": "phi12",
    "coma": "C21",
    "coma_angle": "phi21",
    "trefoil": "C23",
    "trefoil_angle": "phi23",
    "astigmatism3": "C32",
    "astigmatism3_angle": "phi32",
    "quadrafoil": "C34",
    "quadrafoil_angle": "phi34",
    "coma4": "C41",
    "coma4_angle": "phi41",
    "trefoil4": "C43",
    "trefoil4_angle": "phi43",
    "pentafoil": "C45",
    "pentafoil_angle": "phi45",
    "astigmatism5": "C52",
    "astigmatism5_angle": "phi52",
    "quadrafoil5": "C54",
    "quadrafoil5_angle": "phi54",
    "hexafoil": "C56",
    "hexafoil_angle": "phi56",
}


def terms(coeffs: dict):
    """[(n, m, C_nm, phi_nm)] for the non-zero magnitudes in ``coeffs`` (symbol -> float)."""
    out = []
    for sym, val in coeffs.items():
        kind, n, m = parse(sym)
        if kind != "C" or float(val) == 0.0:
            continue
        ang = float(coeffs.get(f"phi{n}{m}", 0.0)) if m > 0 else 0.0
        out.append((n, m, float(val), ang))
    return out


def chi_over_wavelength_factor(coeffs: dict, alpha, phi):
    """sum_{n,m} C_nm alpha^(n+1) cos(m (phi - phi_nm)) / (n+1)   [Angstrom], float64.

    ``alpha`` [rad] and ``phi`` [rad] broadcast against each other."""
    alpha = np.asarray(alpha, dtype=np.float64)
    phi = np.asarray(phi, dtype=np.float64)
    out = np.zeros(np.broadcast(alpha, phi).shape, dtype=np.float64)
    for n, m, c, ang in terms(coeffs):
        out = out + c * alpha ** (n + 1) * np.cos(m * (phi - ang)) / (n + 1)
    return out


def chi(coeffs: dict, alpha, phi, energy_eV: float):
    """The aberration phase chi [rad] (float64)."""
    return 2.0 * np.pi / wavelength(energy_eV) * chi_over_wavelength_factor(coeffs, alpha, phi)


def chi_abs_bound(coeffs: dict, alpha, energy_eV: float):
    """sum_{n,m} (2 pi / lambda) |C_nm| alpha^(n+1) / (n+1): the size of the numbers that
    are added up to chi; the float32 rounding error of chi scales with this, not with
    |chi| (the terms may cancel)."""
    alpha = np.asarray(alpha, dtype=np.float64)
    out = np.zeros(alpha.shape, dtype=np.float64)
    for n, m, c, ang in terms(coeffs):
        out = out + abs(c) * alpha ** (n + 1) / (n + 1)
    return 2.0 * np.pi / wavelength(energy_eV) * out


def angular_grid(gpts, sampling, energy_eV: float):
    """(alpha [rad], phi [rad]) of the unshifted FFT grid, float64; alpha = lambda * |k|."""
    kx = np.fft.fftfreq(int(gpts[0]), float(sampling[0]))
    ky = np.fft.fftfreq(int(gpts[1]), float(sampling[1]))
    k = np.sqrt(kx[:, None] ** 2 + ky[None, :] ** 2)
    phi = np.arctan2(ky[None, :], kx[:, None])
    return k * wavelength(energy_eV), phi
