"""C26 Bloch-wave dynamical diffraction conserves intensity (abtem/bloch/dynamical.py, utils.py).

Generated crystals: cubic P/I/F, orthorhombic P and hexagonal P (gamma = 120 deg) cells with
1-4 atoms of 1-2 species; ``g_max`` is derived from a drawn target number of zero-order
beams so that the structure matrix stays small (<= ~300 beams) by construction.

Clauses (one claim each, so that a finding in one clause does not hide the others):
* ``sum_to_one``      sum_g I_g(t) = 1 for every thickness, lazy == eager;
* ``zero_thickness``  at t = 0 the (000) beam is 1 and every other beam is dark;
* ``expm_vs_eigen``   |calculate_scattering_matrix(t) e_000|^2 equals the eigen-decomposition
                      intensities of ``calculate_diffraction_patterns``;
* ``ensemble``        the same conservation / lazy == eager for ``BlochwaveEnsemble``
                      (rotations given as arrays, as in the ``rotate`` docstring).
"""

from __future__ import annotations

import math

import numpy as np
from hypothesis import strategies as st

from pbt import gen
from pbt.core import Violation, claim

SPECIES = [6, 14, 29, 79]  # C Si Cu Au
_FRAC = [0.0, 0.125, 0.25, 0.375, 0.5, 0.625, 0.75, 0.875]
MAX_BEAMS = 320


# ----------------------------------------------------------------------- generators
@st.composite
def crystal_spec(draw, lattices=("cubic_P", "cubic_I", "cubic_F", "ortho_P", "hex_P")):
    lattice = draw(st.sampled_from(list(lattices)))
    a = round(draw(gen.floats(2.5, 5.5)), 2)
    if lattice.startswith("cubic"):
        b = c = a
    elif lattice == "hex_P":
        b = a
        c = round(draw(gen.floats(2.5, 6.5)), 2)
    else:
        b = round(draw(gen.floats(2.5, 5.5)), 2)
        c = round(draw(gen.floats(2.5, 6.5)), 2)
    max_basis = {"cubic_F": 1, "cubic_I": 2}.get(lattice, 4)
    n = draw(st.integers(1, max_basis))
    species = draw(st.lists(st.sampled_from(SPECIES), min_size=1, max_size=2, unique=True))
    coord = st.sampled_from(_FRAC) | gen.floats(0.0, 0.999).map(lambda v: round(v, 3))
    pos = draw(st.lists(st.tuples(coord, coord, coord), min_size=n, max_size=n, unique=True))
    basis = [[draw(st.sampled_from(species)), *p] for p in pos]
    # two atoms on one site are not a crystal: keep only basis atoms whose centring
    # translates do not coincide with (a translate of) an atom kept before
    translations = CENTERING_TRANSLATIONS[lattice.split("_")[1]]
    taken, kept = set(), []
    for atom in basis:
        orbit = {tuple(round((x + t) % 1.0, 6) % 1.0 for x, t in zip(atom[1:], tr)) for tr in translations}
        if len(orbit) == len(translations) and not (orbit & taken):
            taken |= orbit
            kept.append(atom)
    if not kept:
        kept = [[basis[0][0], 0.0, 0.0, 0.0]]
    return {"lattice": lattice, "a": a, "b": b, "c": c, "basis": kept}


CENTERING_TRANSLATIONS = {
    "P": [(0, 0, 0)],
    "I": [(0, 0, 0), (0.5, 0.5, 0.5)],
    "F": [(0, 0, 0), (0, 0.5, 0.5), (0.5, 0, 0.5), (0.5, 0.5, 0)],
    "A": [(0, 0, 0), (0, 0.5, 0.5)],
    "B": [(0, 0, 0), (0.5, 0, 0.5)],
    "C": [(0, 0, 0), (0.5, 0.5, 0)],
}


def make_crystal(spec):
    from ase import Atoms

    a, b, c = spec["a"], spec["b"], spec["c"]
    if spec["lattice"] == "hex_P":
        cell = [[a, 0, 0], [-a / 2, a * math.sqrt(3) / 2, 0], [0, 0, c]]
    else:
        cell = [[a, 0, 0], [0, b, 0], [0, 0, c]]
    centering = spec["lattice"].split("_")[1]
    numbers, scaled = [], []
    for t in CENTERING_TRANSLATIONS[centering]:
        for z, fx, fy, fz in spec["basis"]:
            numbers.append(z)
            scaled.append([(fx + t[0]) % 1.0, (fy + t[1]) % 1.0, (fz + t[2]) % 1.0])
    return Atoms(numbers=numbers, scaled_positions=scaled, cell=cell, pbc=True)


def area_xy(spec):
    return spec["a"] * spec["b"] * (math.sqrt(3) / 2 if spec["lattice"] == "hex_P" else 1.0)


def g_max_for(spec, n_target):
    """g_max such that about ``n_target`` zero-order reflections lie inside it."""
    g = math.sqrt(n_target / (math.pi * area_xy(spec)))
    return round(min(max(g, 1.05 / min(spec["a"], spec["b"])), 5.0), 3)


def _angle():
    return st.sampled_from([0.0, 0.01, -0.05, 0.1, 0.2]) | gen.floats(-0.2, 0.2).map(lambda v: round(v, 4))


@st.composite
def rotation_spec(draw):
    kind = draw(st.sampled_from(["none", "none", "x", "y", "x,y", "xy"]))
    if kind == "none":
        return None
    if kind in ("x", "y"):
        return [kind, draw(_angle())]
    if kind == "x,y":
        return ["x", draw(_angle()), "y", draw(_angle())]
    return ["xy", [draw(_angle()), draw(_angle())]]


@st.composite
def thickness_spec(draw):
    t = st.sampled_from([0.0, 10.0, 50.0, 100.0, 400.0]) | gen.floats(0.0, 500.0).map(lambda v: round(v, 2))
    if draw(st.integers(0, 5)) == 0:
        return draw(t)  # a scalar thickness: no thickness axis
    lst = draw(st.lists(t, min_size=1, max_size=5))
    if draw(st.booleans()) and 0.0 not in lst:
        lst[draw(st.integers(0, len(lst) - 1))] = 0.0
    return lst


@st.composite
def bloch_case(draw, with_rotation=True, force_zero=False):
    spec = draw(crystal_spec())
    case = {
        "crystal": spec,
        "n_target": draw(st.integers(8, 150)),
        "sg_max": draw(st.sampled_from([0.02, 0.05, 0.1, 0.3]) | gen.floats(0.02, 0.3).map(lambda v: round(v, 3))),
        "energy": draw(st.sampled_from([60e3, 80e3, 100e3, 200e3, 300e3]) | st.integers(60, 300).map(lambda k: k * 1e3)),
        "use_wave_eq": draw(st.booleans()),
        "rotation": draw(rotation_spec()) if with_rotation else None,
        "via": draw(st.sampled_from(["atoms", "atoms", "structure_factor"])),
        "thermal_sigma": draw(st.sampled_from([0.0, 0.0, 0.05, 0.1])),
        "thicknesses": draw(thickness_spec()),
    }
    # a cutoff sphere passing exactly through a reflection (users type round g_max values on
    # round lattice constants): beam selection and the structure-factor set must agree on
    # boundary reflections whatever the rotation (regression of fix 2995d015)
    if draw(st.integers(0, 3)) == 0:
        case["g_max_hk"] = [draw(st.integers(1, 6)), draw(st.integers(0, 6))]
    if force_zero:
        t = case["thicknesses"]
        if isinstance(t, list):
            if 0.0 not in t:
                t[draw(st.integers(0, len(t) - 1))] = 0.0
        else:
            case["thicknesses"] = 0.0
    return case


# ----------------------------------------------------------------------- building
def build_bloch(case):
    import abtem

    spec = case["crystal"]
    atoms = make_crystal(spec)
    g_max = g_max_for(spec, case["n_target"])
    if case.get("g_max_hk"):
        h, k = case["g_max_hk"]
        g = float(np.linalg.norm(np.array([h, k, 0.0]) @ np.asarray(atoms.cell.reciprocal())))
        # keep the number of zero-order beams within the range n_target spans (<= ~150)
        if 1.05 / min(spec["a"], spec["b"]) <= g and math.pi * g * g * area_xy(spec) <= 150:
            g_max = g
    if case["via"] == "atoms":
        bw = abtem.BlochWaves(atoms, energy=case["energy"], sg_max=case["sg_max"], g_max=g_max, use_wave_eq=case["use_wave_eq"])
    else:
        sf = abtem.StructureFactor(atoms, g_max=2 * g_max, thermal_sigma=case["thermal_sigma"])
        bw = abtem.BlochWaves(sf, energy=case["energy"], sg_max=case["sg_max"], g_max=g_max, use_wave_eq=case["use_wave_eq"])
    return bw


def rotate(bw, rotation):
    if rotation is None:
        return bw
    args = [np.array(r, float) if isinstance(r, list) else r for r in rotation]
    return bw.rotate(*args)


def _thick(case):
    t = case["thicknesses"]
    return (t, [t]) if not isinstance(t, list) else (t, t)


def _setup(case, ctx):
    """Returns (bw, thicknesses argument, thickness list, index of (000), has_gz) or None
    when the drawn parameters retain more beams than the bounded size allows."""
    bw = rotate(build_bloch(case), case["rotation"])
    n = len(bw)
    ctx.label(case["crystal"]["lattice"])
    ctx.label("rotated", case["rotation"] is not None)
    ctx.label("g_max_on_reflection", bool(case.get("g_max_hk")))
    ctx.label("use_wave_eq", case["use_wave_eq"])
    ctx.label("beams>=5", n >= 5)
    if n > MAX_BEAMS:
        ctx.label("skipped: too many beams")
        return None
    hkl = np.asarray(bw.hkl)
    zero = np.flatnonzero((hkl == 0).all(axis=1))
    if len(zero) != 1:
        raise Violation(f"(000) retained {len(zero)} times among {n} beams for {case}", ("beams", "no_direct_beam"))
    gz = np.asarray(bw.g_vec)[:, 2]
    has_gz = bool(np.abs(gz).max() > 1e-9)
    ctx.label("all g_z = 0" if not has_gz else "some g_z != 0")
    targ, tlist = _thick(case)
    return bw, targ, tlist, int(zero[0]), has_gz


def _intensities(bw, targ, lazy):
    dp = bw.calculate_diffraction_patterns(targ, lazy=lazy)
    if lazy:
        dp = dp.compute()
    arr = np.asarray(dp.array, dtype=float)
    return dp, arr.reshape((-1, arr.shape[-1]))


# ======================================================================= claims
@claim(
    "C26",
    "sum_to_one",
    bloch_case,
    quick=160,
    thorough=8000,
    tol="sum 1 +- 1e-4; lazy == eager 1e-10 absolute",
    rule=">=5 beams retained and some beam other than (000) exceeds 1e-3 at some thickness",
    nontrivial_floor=0.3,
    max_shrink_calls=150,
)
def check_sum_to_one(case, ctx):
    s = _setup(case, ctx)
    if s is None:
        return
    bw, targ, tlist, i0, has_gz = s
    dp, eager = _intensities(bw, targ, lazy=False)
    n = len(bw)
    if eager.shape != (len(tlist), n):
        raise Violation(f"intensity array shape {np.asarray(dp.array).shape} for {len(tlist)} thicknesses and {n} beams", ("sum", "shape"))
    if not np.array_equal(np.asarray(dp.miller_indices), np.asarray(bw.hkl)):
        raise Violation("miller indices of the result differ from BlochWaves.hkl", ("sum", "hkl"))
    others = np.delete(eager, i0, axis=1)
    ctx.nontrivial(n >= 5 and bool(others.size and others.max() > 1e-3))
    if not np.all(np.isfinite(eager)) or eager.min() < 0:
        raise Violation(f"non-finite or negative intensities for {case}", ("sum", "nonfinite"))
    dev = np.abs(eager.sum(axis=1) - 1.0)
    if not dev.max() <= 1e-4:
        k = int(dev.argmax())
        raise Violation(
            f"intensities sum to {eager[k].sum():.8f} at t={tlist[k]} ({n} beams) for {case}",
            ("sum", "not_one", "gz" if has_gz else "gz=0"),
        )
    _, lazy = _intensities(bw, targ, lazy=True)
    if lazy.shape != eager.shape or not float(np.abs(lazy - eager).max()) <= 1e-10:
        raise Violation(f"lazy and eager intensities differ (shapes {lazy.shape} {eager.shape}) for {case}", ("sum", "lazy_vs_eager"))


@claim(
    "C26",
    "zero_thickness",
    lambda: bloch_case(force_zero=True),
    quick=160,
    thorough=8000,
    tol="I_000(0) = 1 +- 1e-5; every other beam < 1e-10 (complex64 eigenvectors: observed <= 1e-12)",
    rule=">=5 beams retained (the eigenvector matrix is not trivial)",
    nontrivial_floor=0.5,
    floors={"all g_z = 0": 0.1},
    max_shrink_calls=150,
)
def check_zero_thickness(case, ctx):
    s = _setup(case, ctx)
    if s is None:
        return
    bw, targ, tlist, i0, has_gz = s
    ctx.nontrivial(len(bw) >= 5)
    _, eager = _intensities(bw, targ, lazy=False)
    k = tlist.index(0.0)
    row = eager[k]
    others = np.delete(row, i0)
    worst = float(others.max()) if others.size else 0.0
    ctx.label("t0 dark beams > 1e-12", worst > 1e-12)
    if not abs(row[i0] - 1.0) <= 1e-5:
        raise Violation(f"direct beam at zero thickness is {row[i0]:.8f} for {case}", ("t0", "direct", "gz" if has_gz else "gz=0"))
    if not worst <= 1e-10:
        j = int(np.argmax(np.where(np.arange(len(row)) == i0, -1, row)))
        raise Violation(
            f"beam {tuple(int(v) for v in bw.hkl[j])} has intensity {worst:.3e} at zero thickness ({len(bw)} beams) for {case}",
            ("t0", "diffracted", "gz" if has_gz else "gz=0"),
        )


@claim(
    "C26",
    "expm_vs_eigen",
    bloch_case,
    quick=160,
    thorough=8000,
    tol="1e-5 absolute on intensities (direct beam = 1)",
    rule=">=5 beams retained and some beam other than (000) exceeds 1e-3 at some thickness",
    nontrivial_floor=0.3,
    floors={"all g_z = 0": 0.1},
    max_shrink_calls=150,
)
def check_expm_vs_eigen(case, ctx):
    s = _setup(case, ctx)
    if s is None:
        return
    bw, targ, tlist, i0, has_gz = s
    _, eager = _intensities(bw, targ, lazy=False)
    n = len(bw)
    others = np.delete(eager, i0, axis=1)
    ctx.nontrivial(n >= 5 and bool(others.size and others.max() > 1e-3))
    e0 = np.zeros(n, complex)
    e0[i0] = 1.0
    for k, t in enumerate(tlist):
        S = np.asarray(bw.calculate_scattering_matrix(float(t)))
        if S.shape != (n, n):
            raise Violation(f"scattering matrix shape {S.shape} for {n} beams", ("expm", "shape"))
        ref = np.abs(S @ e0) ** 2
        err = float(np.abs(ref - eager[k]).max())
        if not err <= 1e-5:
            j = int(np.abs(ref - eager[k]).argmax())
            raise Violation(
                f"beam {tuple(int(v) for v in bw.hkl[j])} at t={t}: scattering matrix {ref[j]:.6e} vs eigen-decomposition {eager[k][j]:.6e} "
                f"(sum expm {ref.sum():.6f}, sum eigen {eager[k].sum():.6f}, {n} beams) for {case}",
                ("expm", "intensities", "gz" if has_gz else "gz=0"),
            )


# ----------------------------------------------------------------------- ensemble
@st.composite
def _angles(draw, pairs=False, max_size=3):
    """Mostly >= 2 members (by construction, not left to the size distribution of lists)."""
    n = draw(st.sampled_from([1, 2, 2, 3, 3][: 2 * max_size - 1]))
    if pairs:
        return [[draw(_angle()), draw(_angle())] for _ in range(n)]
    return [draw(_angle()) for _ in range(n)]


@st.composite
def ensemble_case(draw):
    case = draw(bloch_case(with_rotation=False))
    # cutoff spheres through a reflection are drawn for single orientations only: for
    # ensembles they hit a genuine, recorded defect (known_findings.json, replay
    # replays/C26/ensemble-d6d9d9d5.json) whose manifestation depends on rounding
    case.pop("g_max_hk", None)
    case["n_target"] = min(max(case["n_target"], 20), 80)
    kind = draw(st.sampled_from(["x", "y", "x,y", "xy"]))
    if kind in ("x", "y"):
        rot = [kind, draw(_angles())]
    elif kind == "x,y":
        rot = ["x", draw(_angles()), "y", draw(_angles(max_size=2))]
    else:
        rot = ["xy", draw(_angles(pairs=True))]
    case["rotation"] = rot
    t = case["thicknesses"]
    t = t if isinstance(t, list) else [t]
    if max(t) < 50.0:
        t = t + [100.0]  # thick enough for diffracted beams to build up
    case["thicknesses"] = t
    return case


@claim(
    "C26",
    "ensemble",
    ensemble_case,
    quick=60,
    thorough=2400,
    tol="sum 1 +- 1e-4 per member and thickness; lazy == eager 1e-10 absolute; member == separately rotated crystal 1e-6 (float32 array)",
    rule=">=2 orientations and some beam other than (000) exceeds 1e-3",
    nontrivial_floor=0.2,
    max_shrink_calls=150,
)
def check_ensemble(case, ctx):
    bw = build_bloch(case)
    rot = case["rotation"]
    form = ",".join(f"{ax}[{'n' if len(r) > 1 else '1'}]" for ax, r in zip(rot[::2], rot[1::2]))
    ctx.label("form " + form)
    ctx.label(case["crystal"]["lattice"])
    args = [np.array(r, float) if isinstance(r, list) else r for r in rot]
    ens = bw.rotate(*args)
    if type(ens).__name__ != "BlochwaveEnsemble":
        raise Violation(f"rotate with arrays returned {type(ens).__name__}", ("ensemble", "type"))
    exp_shape = tuple(len(r) for r in rot[1::2])
    if tuple(ens.ensemble_shape) != exp_shape:
        raise Violation(f"ensemble shape {ens.ensemble_shape} for rotations {rot}", ("ensemble", "shape"))
    mask = np.asarray(ens.get_ensemble_hkl_mask())
    if int(mask.sum()) > MAX_BEAMS:
        ctx.label("skipped: too many beams")
        return
    tl = case["thicknesses"]
    many = int(np.prod(exp_shape)) >= 2
    eager = ens.calculate_diffraction_patterns(tl, lazy=False)
    arr = np.asarray(eager.array, float)
    if arr.shape != exp_shape + (len(tl), int(mask.sum())):
        raise Violation(f"array shape {arr.shape}, expected {exp_shape + (len(tl), int(mask.sum()))}", ("ensemble", "array_shape"))
    hkl = np.asarray(eager.miller_indices)
    i0 = np.flatnonzero((hkl == 0).all(axis=1))
    others = np.delete(arr, i0, axis=-1)
    ctx.nontrivial(many and bool(others.size and others.max() > 1e-3))
    lazy = np.asarray(ens.calculate_diffraction_patterns(tl, lazy=True).compute().array, float)
    if lazy.shape != arr.shape or not float(np.abs(lazy - arr).max()) <= 1e-10:
        raise Violation(
            f"lazy and eager ensemble intensities differ (shapes {lazy.shape} {arr.shape}, max diff "
            f"{float(np.abs(lazy - arr).max()) if lazy.shape == arr.shape else float('nan'):.3e}) for {case}",
            ("ensemble", "lazy_vs_eager", ">=2 members" if many else "1 member"),
        )
    # every member is the calculation of the crystal rotated by that member's angles
    col = {tuple(int(v) for v in h): j for j, h in enumerate(hkl)}
    for idx in np.ndindex(*exp_shape):
        single = []
        for ax, r, k in zip(rot[::2], rot[1::2], idx):
            single += [ax, (np.array(r[k], float) if isinstance(r[k], list) else float(r[k]))]
        one = bw.rotate(*single)
        if type(one).__name__ != "BlochWaves":
            raise Violation(f"rotate with scalars returned {type(one).__name__}", ("ensemble", "scalar_type"))
        ref = np.asarray(one.calculate_diffraction_patterns(tl, lazy=False).array, float)
        cols = [col.get(tuple(int(v) for v in h), -1) for h in np.asarray(one.hkl)]
        if min(cols) < 0:
            raise Violation(f"member {idx} retains a beam that is not in the ensemble's beam list for {case}", ("ensemble", "beam_list"))
        member = arr[idx]
        rest = np.delete(member, cols, axis=-1)
        if rest.size and float(np.abs(rest).max()) > 0:
            raise Violation(
                f"ensemble member {idx} has intensity in beams that the separately rotated crystal does not retain for {case}",
                ("ensemble", "member_extra_beams"),
            )
        if not float(np.abs(member[:, cols] - ref).max()) <= 1e-6:  # the ensemble array is float32
            raise Violation(
                f"ensemble member {idx} differs from the separately rotated crystal by {float(np.abs(member[:, cols] - ref).max()):.3e} for {case}",
                ("ensemble", "member_vs_scalar"),
            )
    dev = np.abs(arr.sum(axis=-1) - 1.0)
    # for these cells (c along z) an untilted beam has g_z = l / c
    has_gz = bool(np.any(np.array([a for r in rot[1::2] for a in np.ravel(r)], float) != 0) or np.any(hkl[:, 2] != 0))
    ctx.label("some g_z != 0" if has_gz else "all g_z = 0")
    if not dev.max() <= 1e-4:
        raise Violation(
            f"eager ensemble intensities sum to 1 + {dev.max():.3e} for some member/thickness for {case}",
            ("ensemble", "not_one", "gz" if has_gz else "gz=0"),
        )
