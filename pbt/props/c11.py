"""C11 A potential reused after changing its grid behaves like a fresh one
(abtem/integrals.py caches, abtem/potentials/iam.py).

A HISTORY property: the case holds a list of operations that is interpreted against one
long-lived Potential per projection kind ("reused") and, after every operation that
produces a result, against a newly constructed Potential with the grid the history has
arrived at ("fresh" - the reference model).  Operations:

  build(lazy)            reused.build(lazy).array            == fresh.build().array
  project                reused.project()                    == fresh.project()
  set_gpts(g)            reused.gpts = g                     (model grid := gpts g)
  set_sampling(s)        reused.sampling = s                 (model grid := sampling s)
  multislice(E, g)       g is None: PlaneWave(E).multislice(reused) - the wave adopts the
                         potential's grid;  g given: an already built plane wave with gpts g
                         is propagated - Waves.multislice matches the POTENTIAL to the wave
                         (validate_potential -> potential.grid.match(waves)), i.e. "using the
                         potential in a simulation" regrids it (model grid := gpts g).
                         exit wave == exit wave through the fresh potential

After every grid change the reused object's gpts/sampling must equal the fresh object's.
Any exception escaping abTEM is a violation (bucketed by the core); the fresh object is
always exercised first, so an exception that is not caused by re-use surfaces there.
"""

from __future__ import annotations

import numpy as np
from hypothesis import strategies as st

from pbt import gen, tol
from pbt.core import Violation, claim

RTOL_POTENTIAL = 2e-5  # same float32 operations on both objects; observed 0
RTOL_WAVES = 2e-4  # pipeline tolerance (DESIGN 2.4)


# ----------------------------------------------------------------------- generators
def sampling_value(cell):
    """Scalar or per-axis sampling giving at most ~28 grid points per side."""
    lo = max(cell[0], cell[1]) / 28.0
    s = st.floats(lo, 0.6, allow_nan=False).map(lambda v: round(v, 3) + 0.001)
    return st.one_of(s, st.tuples(s, s).map(list))


@st.composite
def grid_arg(draw, cell):
    if draw(st.booleans()):
        g = draw(st.one_of(st.integers(6, 24), gen.gpts2d(6, 24)))
        return {"gpts": g}
    return {"sampling": draw(sampling_value(cell))}


@st.composite
def operation(draw, cell):
    kind = draw(st.sampled_from(["build", "build", "build", "project", "set_gpts", "set_sampling", "multislice", "multislice"]))
    if kind == "build":
        return {"op": "build", "lazy": draw(st.booleans())}
    if kind == "project":
        return {"op": "project"}
    if kind == "set_gpts":
        return {"op": "set_gpts", "gpts": draw(st.one_of(st.integers(6, 24), gen.gpts2d(6, 24)))}
    if kind == "set_sampling":
        return {"op": "set_sampling", "sampling": draw(sampling_value(cell))}
    return {"op": "multislice", "energy": draw(st.sampled_from([60e3, 100e3, 200e3])), "gpts": draw(st.one_of(st.none(), gen.gpts2d(6, 24)))}


@st.composite
def operations(draw, cell, max_ops):
    """Either a free list of operations, or (two times out of three) a list built around
    the interesting core: some result, a grid change, some result again."""
    op = operation(cell)
    if not draw(st.sampled_from([True, True, False])):
        return draw(st.lists(op, min_size=2, max_size=max_ops))
    result = op.filter(lambda o: o["op"] in ("build", "project", "multislice"))
    regrid = op.filter(lambda o: o["op"] in ("set_gpts", "set_sampling") or (o["op"] == "multislice" and o["gpts"] is not None))
    head = draw(st.lists(op, max_size=2))
    tail = draw(st.lists(op, max_size=max(0, max_ops - 5)))
    return head + [draw(result), draw(regrid), draw(result)] + tail


@st.composite
def history_case(draw, max_ops=8):
    a = round(draw(gen.floats(3.0, 8.0)), 3)
    b = round(draw(gen.floats(3.0, 8.0)), 3)
    c = round(draw(gen.floats(2.0, 5.0)), 3)
    n = draw(st.integers(1, 4))
    species = draw(st.lists(st.sampled_from(gen.ELEMENTS), min_size=1, max_size=2, unique=True))
    numbers = [draw(st.sampled_from(species)) for _ in range(n)]
    positions = [[round(draw(gen.floats(0, 1)) * a, 4), round(draw(gen.floats(0, 1)) * b, 4), round(draw(gen.floats(0, 1)) * c, 4)] for _ in range(n)]
    cell = [a, b, c]
    return {
        "cell": cell,
        "numbers": numbers,
        "positions": positions,
        "slice_thickness": draw(st.sampled_from([1.0, 2.0, 0.5 * c, c])),
        "projections": draw(st.sampled_from([["infinite"], ["infinite"], ["finite"], ["infinite", "finite"]])),
        "parametrization": draw(st.sampled_from(["lobato", "kirkland", "peng"])),
        "initial": draw(grid_arg(cell)),
        "ops": draw(operations(cell, max_ops)),
    }


# ----------------------------------------------------------------------- interpretation
def _grid_kwargs(g):
    if "gpts" in g:
        v = g["gpts"]
        return {"gpts": tuple(v) if isinstance(v, list) else v}
    v = g["sampling"]
    return {"sampling": tuple(v) if isinstance(v, list) else v}


def _new_potential(abtem, case, projection, grid):
    from ase import Atoms

    atoms = Atoms(numbers=case["numbers"], positions=np.array(case["positions"], dtype=float), cell=case["cell"], pbc=True)
    return abtem.Potential(
        atoms,
        slice_thickness=case["slice_thickness"],
        projection=projection,
        parametrization=case["parametrization"],
        **_grid_kwargs(grid),
    )


def _compare(name, step, op, projection, got, ref, rtol, case, changed):
    got, ref = np.asarray(got), np.asarray(ref)
    if got.shape != ref.shape:
        raise Violation(
            f"step {step} {op}: reused {projection} potential gives shape {got.shape}, a fresh one {ref.shape}; {case}",
            ("history", "shape", projection),
        )
    err, scale = tol.max_err(got, ref), tol.scale(ref)
    if err > rtol * scale:
        raise Violation(
            f"step {step} {op}: reused {projection} potential differs from a fresh one by {err:.3e} (scale {scale:.3e}, "
            f"relative {err / scale if scale else float('inf'):.2e}); {case}",
            ("history", "value", projection, "after_regrid" if changed else "same_grid"),
        )


@claim(
    "C11",
    "reuse_history",
    history_case,
    quick=500,
    thorough=8000,
    tol="ulp32: potentials 2e-5*max|ref| (observed 0), exit waves 2e-4*max|ref|; grids exact / 1e-12",
    rule="history contains result -> actual grid change -> result",
    nontrivial_floor=0.3,
    floors={"finite": 0.2, "regrid_by_multislice": 0.1},
    max_shrink_calls=250,
)
def check_reuse_history(case, ctx):
    import abtem

    projections = case["projections"]
    for p in projections:
        ctx.label(p)
    grid = dict(case["initial"])
    reused = {p: _new_potential(abtem, case, p, grid) for p in projections}
    extent = (case["cell"][0], case["cell"][1])
    phase = 0  # 0: nothing computed yet, 1: a result was computed, 2: then the grid changed, 3: then a result again
    changed_since_result = False

    def fresh(p):
        return _new_potential(abtem, case, p, grid)

    def after_grid_change(step, op, old_gpts):
        nonlocal phase, changed_since_result
        for p in projections:
            f = fresh(p)
            if tuple(reused[p].gpts) != tuple(f.gpts):
                raise Violation(f"step {step} {op}: reused gpts {reused[p].gpts}, fresh {f.gpts}; {case}", ("history", "grid_state", "gpts", op["op"]))
            if not np.allclose(reused[p].sampling, f.sampling, rtol=1e-12, atol=0):
                raise Violation(f"step {step} {op}: reused sampling {reused[p].sampling}, fresh {f.sampling}; {case}", ("history", "grid_state", "sampling", op["op"]))
        if tuple(reused[projections[0]].gpts) != tuple(old_gpts):
            changed_since_result = True
            if phase == 1:
                phase = 2
        else:
            ctx.label("noop_regrid")

    def result_done():
        nonlocal phase, changed_since_result
        if phase == 0:
            phase = 1
        elif phase == 2:
            phase = 3
        changed_since_result = False

    for step, op in enumerate(case["ops"]):
        kind = op["op"]
        ctx.label("op:" + kind)
        old_gpts = tuple(reused[projections[0]].gpts)
        if kind == "set_gpts":
            g = op["gpts"]
            for p in projections:
                reused[p].gpts = tuple(g) if isinstance(g, list) else g
            grid = {"gpts": g}
            after_grid_change(step, op, old_gpts)
        elif kind == "set_sampling":
            s = op["sampling"]
            for p in projections:
                reused[p].sampling = tuple(s) if isinstance(s, list) else s
            grid = {"sampling": s}
            after_grid_change(step, op, old_gpts)
        elif kind == "build":
            for p in projections:
                ref = fresh(p).build(lazy=False).array
                got = reused[p].build(lazy=op["lazy"])
                got = got.compute().array if op["lazy"] else got.array
                _compare("build", step, op, p, got, ref, RTOL_POTENTIAL, case, changed_since_result)
            result_done()
        elif kind == "project":
            for p in projections:
                ref = fresh(p).project().compute().array
                got = reused[p].project().compute().array
                _compare("project", step, op, p, got, ref, RTOL_POTENTIAL, case, changed_since_result)
            result_done()
        else:
            regrid = op["gpts"] is not None
            if regrid:
                grid = {"gpts": op["gpts"]}
                ctx.label("regrid_by_multislice")
            for p in projections:
                if regrid:
                    # an already built wave keeps its grid; the potential is matched to it
                    w_ref = abtem.PlaneWave(gpts=tuple(op["gpts"]), extent=extent, energy=op["energy"]).build(lazy=False)
                    w_got = abtem.PlaneWave(gpts=tuple(op["gpts"]), extent=extent, energy=op["energy"]).build(lazy=False)
                    ref = w_ref.multislice(fresh(p)).array
                    got = w_got.multislice(reused[p]).array
                else:
                    ref = abtem.PlaneWave(energy=op["energy"]).multislice(fresh(p), lazy=False).array
                    got = abtem.PlaneWave(energy=op["energy"]).multislice(reused[p], lazy=False).array
                _compare("multislice", step, op, p, got, ref, RTOL_WAVES, case, changed_since_result or regrid)
            if regrid:
                after_grid_change(step, op, old_gpts)
                # the simulation above already produced a result on the new grid
                if phase == 2:
                    phase = 3
                changed_since_result = False
                if phase == 0:
                    phase = 1
            else:
                result_done()
    ctx.nontrivial(phase == 3)
