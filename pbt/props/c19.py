"""C19 Ensemble partitioning reassembles every member exactly once.

Every claim builds an ensemble from a plain case, walks ``generate_blocks(chunks)``
(eager) and the computed ``ensemble_blocks(chunks)`` (lazy) and checks, block by block,
that the members held by the block (positions / values + weights / seeds / array slice +
axis metadata) are exactly the members of the un-partitioned ensemble at the slice the
block claims to cover, that the slices tile the ensemble shape exactly once and in C
order, and that the lazy and the eager block lists agree member-wise.

Oracle independence: the expected slices are computed here from the chunk spelling
(``_expected_chunks``) whenever the spelling determines them (everything but a bare
int = element limit, where only coverage and the limit are asserted); the members are
read through public attributes of the original object and of each block.
"""

from __future__ import annotations

import itertools

import numpy as np
from hypothesis import strategies as st

from pbt import gen, tol
from pbt.core import Violation, claim

POS_RTOL = tol.ulp32(16)  # scan positions: rebuilt from start + k*sampling (float64) and cast to float32


# =========================================================================== chunk spellings
@st.composite
def chunk_spec(draw, shape, allow_limit=True):
    """A valid chunking of ``shape`` in one of the accepted spellings (JSON-able):
    -1 | int (element limit) | list per axis of (-1 | int | explicit list summing to n)."""
    shape = list(shape)
    if len(shape) == 0:
        return []
    spelling = draw(st.sampled_from(["tuple", "tuple", "tuple", "tuple", "tuple", "limit", "limit", "minus1"] if allow_limit else ["tuple", "tuple", "tuple", "minus1"]))
    if spelling == "minus1":
        return -1
    if spelling == "limit":
        return draw(st.integers(1, max(1, int(np.prod(shape)))))
    out = []
    for n in shape:
        kind = draw(st.sampled_from(["explicit", "explicit", "explicit", "one", "int", "-1"]))
        if kind == "-1":
            out.append(-1)
        elif kind == "int":
            out.append(draw(st.integers(1, n + 1)))
        elif kind == "one":
            out.append(1)
        else:
            out.append(draw(_split(n)))
    return out


@st.composite
def _split(draw, n, max_parts=4):
    """Positive ints summing to n, >=2 parts whenever n >= 2."""
    if n < 2:
        return [n]
    k = draw(st.integers(2, min(n, max_parts)))
    cuts = sorted(draw(st.lists(st.integers(1, n - 1), min_size=k - 1, max_size=k - 1, unique=True)))
    edges = [0] + cuts + [n]
    return [b - a for a, b in zip(edges[:-1], edges[1:])]


def _to_chunks(spec):
    if isinstance(spec, list):
        return tuple(tuple(c) if isinstance(c, list) else c for c in spec)
    return spec


def _expected_chunks(shape, spec):
    """Independent model of the chunking a spelling denotes; None for a bare int."""
    if isinstance(spec, int) and spec != -1:
        return None
    if spec == -1:
        return tuple((n,) for n in shape)
    out = []
    for n, c in zip(shape, spec):
        if c == -1:
            out.append((n,))
        elif isinstance(c, int):
            c = min(c, n)
            out.append((c,) * (n // c) + ((n % c,) if n % c else ()))
        else:
            out.append(tuple(c))
    return tuple(out)


def _slices_of(chunks):
    per_axis = []
    for c in chunks:
        edges = np.concatenate([[0], np.cumsum(c)])
        per_axis.append([slice(int(a), int(b)) for a, b in zip(edges[:-1], edges[1:])])
    return [tuple(s) for s in itertools.product(*per_axis)]


# =========================================================================== describing members
class Desc:
    """Members of an ensemble: ``arrays`` = [(name, ensemble axes it varies along, array
    whose leading dims are those axes, mode)], ``static`` = plain non-ensemble
    parameters, ``axes`` = ensemble axis metadata objects (or None = not compared)."""

    def __init__(self, shape, arrays, static, axes, axes_mode="plain"):
        self.shape = tuple(shape)
        self.arrays = arrays
        self.static = static
        self.axes = axes
        self.axes_mode = axes_mode


def _plain_value(v):
    from ase import Atoms

    if isinstance(v, Atoms):
        return {"positions": v.positions.tolist(), "numbers": v.numbers.tolist(), "cell": np.asarray(v.cell).tolist(), "pbc": v.pbc.tolist()}
    if isinstance(v, dict):
        return {str(k): _plain_value(x) for k, x in v.items()}
    return gen.plain(v)


def _dist_members(name, dist, axis):
    v = np.asarray(dist.values)
    w = np.asarray(dist.weights)
    arrays = [(f"{name}.values", (axis,), v, "exact"), (f"{name}.weights", (axis,), w, "exact")]
    return arrays, {f"{name}.ensemble_mean": bool(dist.ensemble_mean)}


def _transform_param_names(t):
    from abtem.noise import NoiseTransform
    from abtem.tilt import BeamTilt, BeamTilt2D
    from abtem.transfer import CTF, Aberrations, Aperture, SpatialEnvelope, TemporalEnvelope, polar_symbols

    pol = list(polar_symbols)
    # documented order of the ensemble axes a transform adds (class docstrings / ensemble_axes_metadata)
    if isinstance(t, CTF):
        return pol + ["angular_spread", "focal_spread", "semiangle_cutoff"]
    if isinstance(t, SpatialEnvelope):
        return pol + ["angular_spread"]
    if isinstance(t, Aberrations):
        return pol
    if isinstance(t, Aperture):
        return ["semiangle_cutoff"]
    if isinstance(t, TemporalEnvelope):
        return ["focal_spread"]
    if isinstance(t, BeamTilt2D):
        return ["tilt_x", "tilt_y"]
    if isinstance(t, BeamTilt):
        return ["tilt"]
    if isinstance(t, NoiseTransform):
        return ["dose", "seeds"]
    raise TypeError(f"no parameter table for {type(t).__name__}")


_STATIC_ATTRS = ("energy", "extent", "gpts", "sampling", "soft", "flip_phase", "wiener_snr")


def describe_transform(t, axis0=0, prefix=""):
    from abtem.distributions import BaseDistribution

    arrays, static = [], {}
    axis = axis0
    for name in _transform_param_names(t):
        value = getattr(t, name)
        if isinstance(value, BaseDistribution):
            a, s = _dist_members(prefix + name, value, axis)
            arrays += a
            static.update(s)
            axis += 1
        else:
            static[prefix + name] = _plain_value(value)
    for name in _STATIC_ATTRS:
        if name in type(t).__dict__ or any(name in k.__dict__ for k in type(t).__mro__):
            static[prefix + name] = _plain_value(getattr(t, name))
    return arrays, static, axis - axis0


def describe_scan(s, axis0=0, prefix=""):
    from abtem.scan import CustomScan, GridScan, LineScan

    if isinstance(s, CustomScan):
        if len(s.positions) == 0:
            return [], {prefix + "scan": "empty"}, 0
        return [(prefix + "positions", (axis0,), np.asarray(s.positions), "exact")], {prefix + "scan": "custom"}, 1
    if isinstance(s, LineScan):
        return [(prefix + "positions", (axis0,), np.asarray(s.get_positions()), "pos")], {prefix + "scan": "line"}, 1
    if isinstance(s, GridScan):
        return [(prefix + "positions", (axis0, axis0 + 1), np.asarray(s.get_positions()), "pos")], {prefix + "scan": "grid"}, 2
    raise TypeError(type(s).__name__)


def describe(obj):
    from abtem.array import ArrayObject
    from abtem.inelastic.phonons import AtomsEnsemble, FrozenPhonons
    from abtem.scan import BaseScan
    from abtem.transform import EnsembleTransform
    from abtem.waves import PlaneWave, Probe

    shape = tuple(obj.ensemble_shape)
    if isinstance(obj, BaseScan):
        arrays, static, nd = describe_scan(obj)
        return Desc(shape, arrays, static, list(obj.ensemble_axes_metadata), axes_mode="scan")
    if isinstance(obj, (Probe, PlaneWave)):
        arrays, static = [], {}
        axis = 0
        parts = [("tilt", obj.tilt, describe_transform)]
        if isinstance(obj, Probe):
            parts += [("aberrations", obj.aberrations, describe_transform), ("aperture", obj.aperture, describe_transform), ("scan_positions", obj.scan_positions, describe_scan)]
        for name, sub, fn in parts:
            a, s, nd = fn(sub, axis0=axis, prefix=name + ":")
            if nd != len(sub.ensemble_shape):
                raise Violation(f"{name}: {nd} distribution axes but ensemble_shape {sub.ensemble_shape}", ("builder", "sub_shape"))
            arrays += a
            static.update(s)
            axis += nd
        for name in ("energy", "extent", "gpts", "device") + (("normalize",) if isinstance(obj, PlaneWave) else ("soft",)):
            static[name] = _plain_value(getattr(obj, name))
        return Desc(shape, arrays, static, list(obj.ensemble_axes_metadata), axes_mode="builder")
    if isinstance(obj, EnsembleTransform):
        arrays, static, nd = describe_transform(obj)
        return Desc(shape, arrays, static, list(obj.ensemble_axes_metadata))
    if isinstance(obj, FrozenPhonons):
        arrays = [("seed", (0,), np.asarray(obj.seed, dtype=np.int64), "exact")]
        static = {"sigmas": _plain_value(obj.sigmas), "directions": obj.directions, "ensemble_mean": bool(obj.ensemble_mean), "atoms": _plain_value(obj.atoms)}
        return Desc(shape, arrays, static, list(obj.ensemble_axes_metadata))
    if isinstance(obj, AtomsEnsemble):
        traj = list(np.asarray(obj.trajectory, dtype=object).ravel())
        arrays = [
            ("positions", (0,), np.stack([a.positions for a in traj]), "exact"),
            ("numbers", (0,), np.stack([a.numbers for a in traj]), "exact"),
            ("cells", (0,), np.stack([np.asarray(a.cell) for a in traj]), "exact"),
        ]
        static = {"ensemble_mean": bool(obj.ensemble_mean), "cell": np.asarray(obj.cell).tolist()}
        # blocks deliberately carry UnknownAxis (AtomsEnsemble._from_partitioned_args): not compared
        return Desc(shape, arrays, static, None)
    if isinstance(obj, ArrayObject):
        arr = obj.array
        if hasattr(arr, "compute"):
            arr = arr.compute()
        nd = len(shape)
        static = {"type": type(obj).__name__, "metadata": _plain_value(obj.metadata), "base_axes": gen.axes_to_plain(obj.base_axes_metadata), "base_shape": list(obj.base_shape)}
        return Desc(shape, [("array", tuple(range(nd)), np.asarray(arr), "exact")], static, list(obj.ensemble_axes_metadata))
    raise TypeError(f"cannot describe {type(obj).__name__}")


# =========================================================================== comparing a block with the original
def _phase(kind):
    """Bucket prefix: which partition path produced the block (the ensemble class and the
    parameter name go into the message, not into the bucket)."""
    return "lazy" if kind.endswith("-lazy") else "eager"


def _axis_fields(a):
    import dataclasses

    return {f.name: getattr(a, f.name) for f in dataclasses.fields(a)}


def _compare_axes(kind, blk, orig, sl, mode):
    if orig.axes is None:
        return
    if len(blk.axes) != len(orig.axes):
        raise Violation(f"{kind}: block has {len(blk.axes)} ensemble axes, original {len(orig.axes)}", (_phase(kind), "axes", "count"))
    for j, (a, b) in enumerate(zip(blk.axes, orig.axes)):
        if type(a) is not type(b):
            raise Violation(f"{kind}: axis {j} is {type(a).__name__} in the block, {type(b).__name__} in the original", (_phase(kind), "axes", "type"))
        fa, fb = _axis_fields(a), _axis_fields(b)
        for key in fb:
            va, vb = fa[key], fb[key]
            if key == "values":
                want = tuple(vb[sl[j]])
                if gen.plain(tuple(va)) != gen.plain(want):
                    raise Violation(f"{kind}: axis {j} ({type(b).__name__}) values {va} in block {sl[j]}, expected {want}", (_phase(kind), "axes", "values"))
            elif key == "offset":
                # LinearAxis offsets of sliced array objects are not asserted (DESIGN section 5);
                # sub-scans are rebuilt from start + k*sampling, so their offset is checked.
                if mode == "scan" and type(b).__name__ == "ScanAxis" and fb["label"] in ("x", "y"):
                    want = float(vb) + sl[j].start * float(fb["sampling"])
                    if abs(float(va) - want) > 1e-9 * max(1.0, abs(want)):
                        raise Violation(f"{kind}: axis {j} offset {va} in block {sl[j]}, expected {want}", (_phase(kind), "axes", "offset"))
            elif key == "sampling" and mode in ("scan", "builder"):
                if abs(float(va) - float(vb)) > 1e-9 * abs(float(vb)):
                    raise Violation(f"{kind}: axis {j} sampling {va} != {vb}", (_phase(kind), "axes", "sampling"))
            elif key in ("endpoint", "_squeeze") and mode in ("scan", "builder"):
                # sub-scans are half-open by construction; CustomScan blocks do not carry _squeeze
                continue
            else:
                if gen.plain(va) != gen.plain(vb):
                    raise Violation(f"{kind}: axis {j} field {key} {va!r} != {vb!r}", (_phase(kind), "axes", key))


def _compare_block(kind, blk, orig, sl, exact_positions=False):
    """``blk`` (Desc of one block) must hold exactly the members of ``orig`` at slices ``sl``."""
    want_shape = tuple(s.stop - s.start for s in sl)
    if blk.shape != want_shape:
        raise Violation(f"{kind}: block at {sl} has ensemble_shape {blk.shape}, expected {want_shape}", (_phase(kind), "block_shape"))
    if blk.static != orig.static:
        diff = sorted(k for k in set(orig.static) | set(blk.static) if orig.static.get(k) != blk.static.get(k))
        raise Violation(f"{kind}: non-ensemble parameters changed in block {sl}: {diff}: {[blk.static.get(k) for k in diff][:3]} vs {[orig.static.get(k) for k in diff][:3]}", (_phase(kind), "static", diff[0].split(":")[-1].split(".")[-1]))
    names_b = [(n, ax) for n, ax, _, _ in blk.arrays]
    names_o = [(n, ax) for n, ax, _, _ in orig.arrays]
    if names_b != names_o:
        raise Violation(f"{kind}: block members {names_b} != original members {names_o}", (_phase(kind), "member_names"))
    for (name, axes, arr_b, mode), (_, _, arr_o, _) in zip(blk.arrays, orig.arrays):
        want = arr_o[tuple(sl[a] for a in axes)]
        if arr_b.shape != want.shape:
            raise Violation(f"{kind}: {name} has shape {arr_b.shape} in block {sl}, expected {want.shape}", (_phase(kind), name.split(":")[-1].split(".")[-1], "shape"))
        if mode == "exact" or exact_positions:
            same = arr_b.dtype == want.dtype and np.array_equal(arr_b, want)
        else:
            same = tol.max_err(arr_b, want) <= POS_RTOL * tol.scale(arr_o)
        if not same:
            raise Violation(
                f"{kind}: {name} of block {sl} = {np.asarray(arr_b).ravel()[:6]} (dtype {arr_b.dtype}), original slice = {np.asarray(want).ravel()[:6]} (dtype {want.dtype}), err {tol.max_err(arr_b, want):.3g}",
                (_phase(kind), name.split(":")[-1].split(".")[-1]),
            )
    _compare_axes(kind, blk, orig, sl, orig.axes_mode)


def _unwrap(b, ndim, kind):
    if not isinstance(b, np.ndarray) or b.dtype != object or b.size != 1:
        raise Violation(f"{kind}: block is {type(b).__name__} {getattr(b, 'shape', None)}, expected a one-element object array", ("block_type",))
    return b.item()


def walk_partition(kind, make, spec, ctx):
    """The oracle shared by all claims.  ``make()`` builds a fresh ensemble from the case
    (fresh because ``generate_blocks`` computes lazy array objects in place)."""
    obj = make()
    shape = tuple(obj.ensemble_shape)
    chunks = _to_chunks(spec)
    expected = _expected_chunks(shape, chunks)
    orig = describe(obj)

    # ---------------------------------------------------------------- lazy first
    lazy = make().ensemble_blocks(chunks)
    lazy_chunks = tuple(tuple(int(x) for x in c) for c in lazy.chunks)
    lazy_blocks = lazy.compute()

    # ---------------------------------------------------------------- eager
    eager = list(make().generate_blocks(chunks))
    cover = np.zeros(shape, dtype=int)
    eager_chunks_slices = []
    for pos, (idx, sl, b) in enumerate(eager):
        sl = tuple(sl)
        if len(sl) != len(shape) or any(s.start is None or s.stop is None or s.stop <= s.start or s.start < 0 or s.stop > n for s, n in zip(sl, shape)):
            raise Violation(f"{kind}: invalid slices {sl} for ensemble shape {shape}", ("slices",))
        eager_chunks_slices.append(sl)
        cover[sl] += 1
        _compare_block(kind, describe(_unwrap(b, len(shape), kind)), orig, sl)
    if not (cover == 1).all():
        raise Violation(f"{kind}: blocks cover the ensemble {cover.tolist()} times (shape {shape}, chunks {chunks})", ("coverage",))
    if expected is not None:
        if eager_chunks_slices != _slices_of(expected):
            raise Violation(f"{kind}: chunks {chunks} on {shape} gave slices {eager_chunks_slices}, expected {_slices_of(expected)} in C order", ("slice_order",))
        numblocks = tuple(len(c) for c in expected)
    else:
        limit = chunks
        if any(int(np.prod([s.stop - s.start for s in sl])) > limit for sl in eager_chunks_slices) and limit >= 1:
            raise Violation(f"{kind}: a block exceeds the element limit {limit}: {eager_chunks_slices}", ("limit",))
        # derive the chunk tuple from the (verified, tiling) slices
        per_axis = [sorted({(s[a].start, s[a].stop) for s in eager_chunks_slices}) for a in range(len(shape))]
        expected = tuple(tuple(b - a for a, b in ax) for ax in per_axis)
        if eager_chunks_slices != _slices_of(expected):
            raise Violation(f"{kind}: slices {eager_chunks_slices} are not a C-ordered product of per-axis ranges", ("slice_order",))
        numblocks = tuple(len(c) for c in expected)
    for pos, (idx, sl, b) in enumerate(eager):
        want_idx = tuple(int(i) for i in np.unravel_index(pos, numblocks)) if numblocks else ()
        if tuple(int(i) for i in idx) != want_idx:
            raise Violation(f"{kind}: block index {idx} at position {pos} of {numblocks}", ("block_index",))

    # ---------------------------------------------------------------- lazy == eager
    if lazy_chunks != expected:
        raise Violation(f"{kind}: lazy ensemble_blocks has chunks {lazy_chunks}, eager {expected}", ("lazy", "chunks"))
    if tuple(lazy_blocks.shape) != numblocks:
        raise Violation(f"{kind}: computed lazy blocks have shape {lazy_blocks.shape}, expected {numblocks}", ("lazy", "numblocks"))
    for (idx, sl, b) in eager:
        lb = lazy_blocks[tuple(idx)] if numblocks else lazy_blocks.item()
        if isinstance(lb, np.ndarray):
            lb = lb.item()
        ld = describe(lb)
        _compare_block(kind + "-lazy", ld, orig, tuple(sl))
        ed = describe(b.item())
        # lazy and eager are built by the same formulas: identical bits
        for (name, _, arr_l, _), (_, _, arr_e, _) in zip(ld.arrays, ed.arrays):
            if not (arr_l.shape == arr_e.shape and np.array_equal(arr_l, arr_e)):
                raise Violation(f"{kind}: lazy and eager block {idx} differ in {name}", ("lazy_vs_eager", name.split(":")[-1].split(".")[-1]))

    nblocks = len(eager)
    ctx.label(f"kind:{kind}")
    ctx.label(f"ndim:{len(shape)}")
    ctx.label("spelling:" + ("minus1" if chunks == -1 else "limit" if isinstance(chunks, int) else "tuple"))
    ctx.nontrivial(any(n >= 2 for n in numblocks))
    return nblocks


# =========================================================================== generators: scans
def _coord():
    return gen.floats(-5.0, 15.0).map(lambda x: round(x, 3))


@st.composite
def scan_spec(draw, kinds=("custom", "line", "grid")):
    kind = draw(st.sampled_from(list(kinds)))
    if kind == "custom":
        n = draw(st.integers(1, 12))
        return {"kind": "custom", "positions": [[draw(_coord()), draw(_coord())] for _ in range(n)], "squeeze": draw(st.booleans())}
    if kind == "line":
        start = [draw(_coord()), draw(_coord())]
        # end != start by construction: offset of length >= 0.1 in a drawn direction
        length = round(draw(gen.floats(0.1, 12.0)), 3)
        angle = draw(st.sampled_from([0.0, 90.0, 180.0, 270.0])) if draw(st.booleans()) else round(draw(gen.floats(0.0, 360.0)), 2)
        end = [round(start[0] + length * float(np.cos(np.deg2rad(angle))), 6), round(start[1] + length * float(np.sin(np.deg2rad(angle))), 6)]
        spec = {"kind": "line", "start": start, "end": end, "endpoint": draw(st.booleans())}
        if draw(st.booleans()):
            spec["gpts"] = draw(st.integers(2 if spec["endpoint"] else 1, 12))
        else:
            # sampling such that 1..12 positions result
            spec["sampling"] = round(length / draw(gen.floats(0.6, 11.4)), 6)
        return spec
    start = [draw(_coord()), draw(_coord())]
    extent = [round(draw(gen.floats(0.5, 10.0)), 3), round(draw(gen.floats(0.5, 10.0)), 3)]
    endpoint = [draw(st.booleans()), draw(st.booleans())]
    spec = {"kind": "grid", "start": start, "end": [round(start[0] + extent[0], 6), round(start[1] + extent[1], 6)], "endpoint": endpoint}
    if draw(st.booleans()):
        spec["gpts"] = [draw(st.integers(2 if e else 1, 6)) for e in endpoint]
    else:
        spec["sampling"] = [round(x / draw(gen.floats(0.6, 5.4)), 6) for x in extent]
    return spec


def make_scan(spec):
    import abtem

    if spec["kind"] == "custom":
        return abtem.CustomScan(np.array(spec["positions"], dtype=float), squeeze=spec["squeeze"])
    kw = {"gpts": tuple(spec["gpts"]) if isinstance(spec.get("gpts"), list) else spec.get("gpts")} if "gpts" in spec else {"sampling": tuple(spec["sampling"]) if isinstance(spec["sampling"], list) else spec["sampling"]}
    if spec["kind"] == "line":
        return abtem.LineScan(start=tuple(spec["start"]), end=tuple(spec["end"]), endpoint=spec["endpoint"], **kw)
    return abtem.GridScan(start=tuple(spec["start"]), end=tuple(spec["end"]), endpoint=tuple(spec["endpoint"]), **kw)


def scan_shape(spec):
    return tuple(make_scan(spec).ensemble_shape)


@st.composite
def scan_case(draw):
    spec = draw(scan_spec())
    shape = scan_shape(spec)  # pure function of the spec (sampling -> gpts uses abTEM's own rounding)
    return {"scan": spec, "chunks": draw(chunk_spec(shape))}


@claim(
    "C19",
    "scans",
    scan_case,
    quick=800,
    thorough=20000,
    tol="exact for CustomScan positions and all slices; ulp32(16) for Line/GridScan positions (sub-scans rebuilt from start+k*sampling)",
    rule=">=2 blocks along some ensemble axis",
    nontrivial_floor=0.3,
)
def check_scans(case, ctx):
    spec = case["scan"]
    walk_partition(spec["kind"] + "_scan", lambda: make_scan(spec), case["chunks"], ctx)
    ctx.label("by_sampling", "sampling" in spec)


# =========================================================================== generators: distributions
@st.composite
def dist_spec(draw, lo=-100.0, hi=100.0, min_n=1, max_n=8, two_d=False):
    kind = draw(st.sampled_from(["list", "ndarray", "from_values", "from_values_w", "uniform", "gaussian"]))
    n = draw(st.integers(min_n, max_n))
    em = draw(st.booleans())
    if two_d:
        vals = [[round(draw(gen.floats(lo, hi)), 3), round(draw(gen.floats(lo, hi)), 3)] for _ in range(n)]
        return {"kind": draw(st.sampled_from(["ndarray", "from_values"])), "values": vals, "ensemble_mean": em}
    if kind in ("list", "ndarray", "from_values", "from_values_w"):
        vals = [round(draw(gen.floats(lo, hi)), 3) for _ in range(n)]
        out = {"kind": kind, "values": vals, "ensemble_mean": em}
        if kind == "from_values_w":
            out["weights"] = [round(draw(gen.floats(0.05, 2.0)), 3) for _ in range(n)]
        return out
    if kind == "uniform":
        a = round(draw(gen.floats(lo, hi)), 3)
        b = round(draw(gen.floats(lo, hi)), 3)
        return {"kind": "uniform", "low": min(a, b), "high": max(a, b), "n": n, "endpoint": draw(st.booleans()), "ensemble_mean": em}
    centre = round(draw(gen.floats(lo, hi)), 3)
    std = round(draw(gen.floats(0.01, 0.3)) * (hi - lo), 3)
    return {"kind": "gaussian", "std": std, "n": n, "center": centre, "ensemble_mean": em, "normalize": draw(st.sampled_from(["intensity", "amplitude"]))}


def make_dist(spec):
    """The object a user passes as the parameter value."""
    import abtem

    k = spec["kind"]
    if k == "list":
        return list(spec["values"])
    if k == "ndarray":
        return np.array(spec["values"], dtype=float)
    if k == "from_values":
        return abtem.distributions.from_values(np.array(spec["values"], dtype=float), ensemble_mean=spec["ensemble_mean"])
    if k == "from_values_w":
        return abtem.distributions.from_values(np.array(spec["values"], dtype=float), weights=np.array(spec["weights"], dtype=float), ensemble_mean=spec["ensemble_mean"])
    if k == "uniform":
        return abtem.distributions.uniform(spec["low"], spec["high"], spec["n"], endpoint=spec["endpoint"], ensemble_mean=spec["ensemble_mean"])
    if k == "gaussian":
        return abtem.distributions.gaussian(spec["std"], spec["n"], center=spec["center"], ensemble_mean=spec["ensemble_mean"], normalize=spec["normalize"])
    raise ValueError(k)


def dist_len(spec):
    return len(spec["values"]) if "values" in spec else spec["n"]


_ABERRATION_NAMES = ["defocus", "C10", "Cs", "C30", "C12", "phi12", "astigmatism", "coma", "C21", "phi21", "C23", "C32", "C45", "phi45", "C50", "C56", "phi56"]


@st.composite
def transform_spec(draw, classes=("CTF", "Aberrations", "Aperture", "TemporalEnvelope", "SpatialEnvelope", "BeamTilt", "BeamTilt2D", "NoiseTransform")):
    cls = draw(st.sampled_from(list(classes)))
    params = {}
    if cls in ("CTF", "Aberrations", "SpatialEnvelope"):
        k = draw(st.integers(0 if cls != "Aberrations" else 1, 2))
        names = draw(st.lists(st.sampled_from(_ABERRATION_NAMES), min_size=k, max_size=k, unique_by=lambda n: {"defocus": "C10", "Cs": "C30", "astigmatism": "C12", "coma": "C21"}.get(n, n)))
        for n in names:
            params[n] = draw(dist_spec()) if draw(st.integers(0, 3)) else round(draw(gen.floats(-50, 50)), 3)
    if cls == "CTF":
        for n, (lo, hi) in {"semiangle_cutoff": (5.0, 40.0), "focal_spread": (1.0, 80.0), "angular_spread": (0.1, 5.0)}.items():
            r = draw(st.integers(0, 3))
            if r == 0:
                params[n] = draw(dist_spec(lo, hi))
            elif r == 1:
                params[n] = round(draw(gen.floats(lo, hi)), 3)
        params["soft"] = draw(st.booleans())
    if cls == "Aperture":
        params["semiangle_cutoff"] = draw(dist_spec(5.0, 40.0))
        params["soft"] = draw(st.booleans())
    if cls == "TemporalEnvelope":
        params["focal_spread"] = draw(dist_spec(1.0, 80.0))
    if cls == "SpatialEnvelope":
        params["angular_spread"] = draw(dist_spec(0.1, 5.0)) if draw(st.booleans()) or not params else round(draw(gen.floats(0.1, 5.0)), 3)
    if cls == "BeamTilt":
        params["tilt"] = draw(dist_spec(-20.0, 20.0, two_d=True))
    if cls == "BeamTilt2D":
        which = draw(st.sampled_from(["x", "y", "xy"]))
        params["tilt_x"] = draw(dist_spec(-20.0, 20.0)) if "x" in which else round(draw(gen.floats(-20, 20)), 3)
        params["tilt_y"] = draw(dist_spec(-20.0, 20.0)) if "y" in which else round(draw(gen.floats(-20, 20)), 3)
    if cls == "NoiseTransform":
        dose_is_dist = draw(st.booleans())
        params["dose"] = draw(dist_spec(1e2, 1e6)) if dose_is_dist else float(draw(st.sampled_from([1e3, 1e5])))
        # samples > 1 adds a sample axis (one seed per sample); at least one ensemble axis
        params["samples"] = draw(st.sampled_from([None, 1, 2, 3, 4, 5])) if dose_is_dist else draw(st.integers(2, 5))
        params["seeds"] = draw(gen.seeds())
    return {"cls": cls, "params": params, "energy": draw(gen.energies())}


def make_transform(spec):
    import abtem
    from abtem.noise import NoiseTransform
    from abtem.tilt import BeamTilt, BeamTilt2D

    kw = {k: (make_dist(v) if isinstance(v, dict) else v) for k, v in spec["params"].items()}
    cls = spec["cls"]
    if cls == "BeamTilt":
        v = kw["tilt"]
        return BeamTilt(v)
    if cls == "BeamTilt2D":
        return BeamTilt2D(kw["tilt_x"], kw["tilt_y"])
    if cls == "NoiseTransform":
        return NoiseTransform(kw["dose"], samples=kw["samples"], seeds=kw["seeds"])
    import abtem.transfer

    return getattr(abtem.transfer, cls)(energy=spec["energy"], **kw)


@st.composite
def transform_case(draw):
    spec = draw(transform_spec())
    shape = tuple(make_transform(spec).ensemble_shape)
    return {"transform": spec, "chunks": draw(chunk_spec(shape))}


@claim(
    "C19",
    "transforms",
    transform_case,
    quick=2500,
    thorough=40000,
    tol="exact (values, weights, dtype, scalar parameters, axis values)",
    rule=">=2 blocks along some ensemble axis",
    nontrivial_floor=0.2,
)
def check_transforms(case, ctx):
    spec = case["transform"]
    walk_partition(spec["cls"], lambda: make_transform(spec), case["chunks"], ctx)


# --------------------------------------------------------------------------- DistributionFromValues.divide called directly
@st.composite
def divide_case(draw):
    spec = draw(dist_spec(max_n=12)) if draw(st.integers(0, 4)) else draw(dist_spec(max_n=12, two_d=True))
    n = dist_len(spec)
    if draw(st.booleans()):
        chunks = draw(st.integers(1, n))  # documented: an int is the NUMBER of chunks
    else:
        chunks = draw(gen.partition(n, max_parts=5))
    return {"dist": spec, "chunks": chunks, "lazy": draw(st.booleans())}


@claim(
    "C19",
    "divide",
    divide_case,
    quick=4000,
    thorough=60000,
    tol="exact",
    rule=">=2 blocks",
    nontrivial_floor=0.3,
)
def check_divide(case, ctx):
    from abtem.distributions import BaseDistribution, validate_distribution

    d = validate_distribution(make_dist(case["dist"]))
    if not isinstance(d, BaseDistribution):
        raise Violation(f"validate_distribution returned {type(d).__name__}", ("divide", "validate"))
    n = len(d)
    chunks = case["chunks"]
    values, weights = np.asarray(d.values), np.asarray(d.weights)
    blocks = d.divide(tuple(chunks) if isinstance(chunks, list) else chunks, lazy=case["lazy"])
    if case["lazy"]:
        if tuple(blocks.chunks) != ((1,) * blocks.shape[0],):
            raise Violation(f"lazy divide has chunks {blocks.chunks}", ("divide", "lazy_chunks"))
        blocks = blocks.compute()
    if isinstance(chunks, int):
        sizes = [len(b) for b in blocks]
        if len(sizes) != chunks or sum(sizes) != n or max(sizes) - min(sizes) > 1:
            raise Violation(f"divide({chunks}) of {n} values gave block sizes {sizes}", ("divide", "int_sizes"))
    else:
        sizes = list(chunks)
    if blocks.ndim != 1 or len(blocks) != len(sizes):
        raise Violation(f"divide gave {blocks.shape} blocks for chunks {sizes}", ("divide", "count"))
    pos = 0
    for b, size in zip(blocks, sizes):
        bv, bw = np.asarray(b.values), np.asarray(b.weights)
        if not (bv.dtype == values.dtype and np.array_equal(bv, values[pos : pos + size])):
            raise Violation(f"values of block at {pos}:{pos + size} are {bv.tolist()}, expected {values[pos:pos + size].tolist()}", ("divide", "values"))
        if not np.array_equal(bw, weights[pos : pos + size]):
            raise Violation(f"weights of block at {pos}:{pos + size} are {bw.tolist()}, expected {weights[pos:pos + size].tolist()}", ("divide", "weights"))
        if bool(b.ensemble_mean) != bool(d.ensemble_mean):
            raise Violation("ensemble_mean flag lost in a block", ("divide", "ensemble_mean"))
        pos += size
    if pos != n:
        raise Violation(f"blocks hold {pos} of {n} members", ("divide", "coverage"))
    ctx.label("kind:" + case["dist"]["kind"])
    ctx.label("lazy", case["lazy"])
    ctx.label("int_chunks", isinstance(chunks, int))
    ctx.nontrivial(len(sizes) >= 2)


# =========================================================================== generators: frozen phonons / atoms ensembles
@st.composite
def phonon_case(draw):
    atoms = draw(gen.atoms_spec(max_atoms=4))
    kind = draw(st.sampled_from(["fp", "fp", "ensemble"]))
    n = draw(st.sampled_from([3, 2, 4, 5, 1]))
    case = {"kind": kind, "atoms": atoms, "ensemble_mean": draw(st.booleans())}
    if kind == "fp":
        case["sigmas"] = draw(st.sampled_from(["float", "dict", "per_atom"]))
        case["sigma"] = round(draw(gen.floats(0.0, 0.3)), 3)
        case["directions"] = draw(st.sampled_from(["xyz", "xy", "z"]))
        if draw(st.booleans()):
            case["seed"] = draw(gen.seeds())
            case["num_configs"] = n
        else:
            case["seed"] = draw(st.lists(gen.seeds(), min_size=n, max_size=n, unique=True))
            case["num_configs"] = n
    else:
        case["num_configs"] = n
        case["seed"] = draw(gen.seeds())
    case["chunks"] = draw(chunk_spec((n,)))
    return case


def make_phonons(case):
    import abtem
    from ase.data import chemical_symbols

    atoms = gen.make_atoms(case["atoms"])
    if case["kind"] == "fp":
        if case["sigmas"] == "float":
            sig = case["sigma"]
        elif case["sigmas"] == "dict":
            sig = {chemical_symbols[z]: case["sigma"] * (1 + 0.1 * i) for i, z in enumerate(sorted(set(case["atoms"]["numbers"])))}
        else:
            sig = [case["sigma"] * (1 + 0.05 * i) for i in range(len(atoms))]
        seed = tuple(case["seed"]) if isinstance(case["seed"], list) else case["seed"]
        return abtem.FrozenPhonons(atoms, num_configs=case["num_configs"], sigmas=sig, directions=case["directions"], ensemble_mean=case["ensemble_mean"], seed=seed)
    rng = np.random.default_rng(case["seed"])
    traj = []
    for _ in range(case["num_configs"]):
        a = atoms.copy()
        a.positions += rng.normal(scale=0.1, size=a.positions.shape)
        traj.append(a)
    return abtem.AtomsEnsemble(traj, ensemble_mean=case["ensemble_mean"])


@claim(
    "C19",
    "phonons",
    phonon_case,
    quick=2000,
    thorough=24000,
    tol="exact (seeds, sigmas, directions, atoms; trajectory positions)",
    rule=">=2 blocks along the configuration axis",
    nontrivial_floor=0.25,
)
def check_phonons(case, ctx):
    kind = "FrozenPhonons" if case["kind"] == "fp" else "AtomsEnsemble"
    walk_partition(kind, lambda: make_phonons(case), case["chunks"], ctx)
    ctx.label("explicit_seeds", isinstance(case["seed"], list))


# =========================================================================== generators: array objects
_AXIS_KINDS = ["parameter", "positions", "tilt", "thickness", "scan", "unknown", "frozen", "ordinal_str"]


@st.composite
def array_case(draw):
    nd = draw(st.integers(1, 3))
    shape = [draw(st.integers(1, 4)) for _ in range(nd)]
    axes = []
    for n in shape:
        k = draw(st.sampled_from(_AXIS_KINDS))
        ax = {"kind": k}
        if k in ("parameter", "thickness"):
            ax["values"] = [round(draw(gen.floats(-50, 50)), 3) for _ in range(n)]
        elif k in ("positions", "tilt"):
            ax["values"] = [[round(draw(gen.floats(-5, 5)), 3), round(draw(gen.floats(-5, 5)), 3)] for _ in range(n)]
        elif k == "ordinal_str":
            ax["values"] = [f"v{draw(st.integers(0, 9))}" for _ in range(n)]
        elif k == "scan":
            ax["sampling"] = round(draw(gen.floats(0.1, 2.0)), 3)
            ax["offset"] = round(draw(gen.floats(-3, 3)), 3)
        axes.append(ax)
    typ = draw(st.sampled_from(["Waves", "Images", "DiffractionPatterns"]))
    base = draw(gen.gpts2d(2, 6))
    lazy_in = draw(st.booleans())
    case = {"type": typ, "shape": shape, "axes": axes, "base": base, "seed": draw(gen.seeds()), "lazy_input": lazy_in}
    if lazy_in:
        case["input_chunks"] = [draw(gen.partition(n, max_parts=3)) for n in shape]
    case["chunks"] = draw(chunk_spec(shape))
    return case


def make_array_object(case):
    import abtem
    import dask.array as da
    from abtem.core import axes as ax

    metas = []
    for a in case["axes"]:
        k = a["kind"]
        if k == "parameter":
            metas.append(ax.ParameterAxis(label="p", values=tuple(a["values"]), units="Å"))
        elif k == "thickness":
            metas.append(ax.ThicknessAxis(values=tuple(a["values"])))
        elif k == "positions":
            metas.append(ax.PositionsAxis(values=tuple(tuple(v) for v in a["values"])))
        elif k == "tilt":
            metas.append(ax.TiltAxis(label="tilt", values=tuple(tuple(v) for v in a["values"])))
        elif k == "ordinal_str":
            metas.append(ax.OrdinalAxis(label="o", values=tuple(a["values"])))
        elif k == "scan":
            metas.append(ax.ScanAxis(label="x", sampling=a["sampling"], offset=a["offset"], units="Å"))
        elif k == "frozen":
            metas.append(ax.FrozenPhononsAxis())
        else:
            metas.append(ax.UnknownAxis())
    full = tuple(case["shape"]) + tuple(case["base"])
    if case["type"] == "Waves":
        arr = gen.rand_complex(full, case["seed"])
    else:
        arr = gen.rand_real(full, case["seed"], positive=True)
    if case["lazy_input"]:
        arr = da.from_array(arr, chunks=tuple(tuple(c) for c in case["input_chunks"]) + (-1, -1))
    if case["type"] == "Waves":
        return abtem.Waves(arr, energy=100e3, sampling=0.2, ensemble_axes_metadata=metas, metadata={"tag": 3})
    if case["type"] == "Images":
        return abtem.Images(arr, sampling=0.2, ensemble_axes_metadata=metas, metadata={"tag": 3})
    return abtem.DiffractionPatterns(arr, sampling=0.05, ensemble_axes_metadata=metas, metadata={"energy": 100e3})


@claim(
    "C19",
    "arrays",
    array_case,
    quick=2000,
    thorough=30000,
    tol="exact (array bits, axis values, metadata); LinearAxis offsets not asserted",
    rule=">=2 blocks along some ensemble axis",
    nontrivial_floor=0.25,
)
def check_arrays(case, ctx):
    walk_partition(case["type"], lambda: make_array_object(case), case["chunks"], ctx)
    ctx.label("lazy_input", case["lazy_input"])
    for a in case["axes"]:
        ctx.label("axis:" + a["kind"])


# =========================================================================== generators: builders
@st.composite
def builder_case(draw):
    cls = draw(st.sampled_from(["Probe", "Probe", "PlaneWave"]))
    case = {"cls": cls, "energy": draw(gen.energies()), "gpts": draw(gen.gpts2d(6, 12)), "extent": [round(draw(gen.floats(4, 9)), 3), round(draw(gen.floats(4, 9)), 3)]}
    tilt_kind = draw(st.sampled_from(["none", "2d", "axis", "axis"]))
    if tilt_kind == "2d":
        case["tilt"] = {"kind": "2d", "dist": draw(dist_spec(-10, 10, max_n=4, two_d=True))}
    elif tilt_kind == "axis":
        which = draw(st.sampled_from(["x", "y", "xy"]))
        case["tilt"] = {
            "kind": "axis",
            "x": draw(dist_spec(-10, 10, max_n=4)) if "x" in which else round(draw(gen.floats(-5, 5)), 3),
            "y": draw(dist_spec(-10, 10, max_n=4)) if "y" in which else round(draw(gen.floats(-5, 5)), 3),
        }
    else:
        case["tilt"] = {"kind": "none"}
    if cls == "Probe":
        k = draw(st.integers(0, 2))
        names = draw(st.lists(st.sampled_from(["defocus", "Cs", "C12", "phi12", "C21", "C23"]), min_size=k, max_size=k, unique=True))
        case["aberrations"] = {n: (draw(dist_spec(-80, 80, max_n=4)) if draw(st.integers(0, 2)) else round(draw(gen.floats(-50, 50)), 3)) for n in names}
        case["semiangle_cutoff"] = draw(dist_spec(8.0, 30.0, max_n=3)) if draw(st.integers(0, 2)) == 0 else round(draw(gen.floats(8, 30)), 3)
        case["scan"] = draw(scan_spec()) if draw(st.integers(0, 3)) else None
        if case["scan"] and case["scan"]["kind"] == "grid" and "gpts" in case["scan"]:
            case["scan"]["gpts"] = [min(g, 4) for g in case["scan"]["gpts"]]
    else:
        case["normalize"] = draw(st.booleans())
    shape = tuple(make_builder(case).ensemble_shape)
    case["chunks"] = draw(chunk_spec(shape))
    return case


def make_builder(case):
    import abtem

    t = case["tilt"]
    if t["kind"] == "none":
        tilt = (0.0, 0.0)
    elif t["kind"] == "2d":
        tilt = make_dist(t["dist"])
        if isinstance(tilt, list):
            tilt = np.array(tilt, dtype=float)
    else:
        tilt = (make_dist(t["x"]) if isinstance(t["x"], dict) else t["x"], make_dist(t["y"]) if isinstance(t["y"], dict) else t["y"])
    common = dict(energy=case["energy"], gpts=tuple(case["gpts"]), extent=tuple(case["extent"]), tilt=tilt)
    if case["cls"] == "PlaneWave":
        return abtem.PlaneWave(normalize=case["normalize"], **common)
    ab = {k: (make_dist(v) if isinstance(v, dict) else v) for k, v in case["aberrations"].items()}
    sc = case["semiangle_cutoff"]
    kw = {}
    if case["scan"] is not None:
        kw["scan_positions"] = make_scan(case["scan"])
    return abtem.Probe(semiangle_cutoff=make_dist(sc) if isinstance(sc, dict) else sc, aberrations=ab, **common, **kw)


@claim(
    "C19",
    "builders",
    builder_case,
    quick=800,
    thorough=12000,
    tol="exact (distribution values/weights, scalar parameters, CustomScan positions); ulp32(16) for Line/GridScan positions",
    rule=">=2 blocks along some ensemble axis",
    nontrivial_floor=0.3,
)
def check_builders(case, ctx):
    n = walk_partition(case["cls"], lambda: make_builder(case), case["chunks"], ctx)
    shape = tuple(make_builder(case).ensemble_shape)
    ctx.label("axes>=2", len(shape) >= 2)
    ctx.label("with_scan", bool(case.get("scan")))
