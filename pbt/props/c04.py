"""C04 Wave propagation never creates intensity and vacuum propagation is reversible
(abtem/multislice.py, abtem/antialias.py, abtem/potentials/iam.py).

Clauses and claims:

* Fourier-space multislice through any real potential never increases the total intensity,
  whatever the slicing, tilt or propagator order                   -> ``multislice_no_gain``
  (after every ``conventional_multislice_step`` and end-to-end through ``Waves.multislice``;
  synthetic real slices, IAM potentials and vacuum; order 1/2; base tilt and tilt axes;
  conjugate / transpose variants of the step)
* vacuum propagation preserves the intensity of a wave band-limited inside the antialiasing
  aperture, and propagating by -dz undoes propagating by dz        -> ``vacuum_reversible``
* the kernels behind both: |propagator| <= 1, |transmission| = 1,
  antialias aperture in [0, 1]                                     -> ``kernels_bounded``

Intensities are summed in float64 from the arrays abTEM returns.  Bucket
("no_gain", "transmission_overshoot"): the step multiplies by the *band-limited* transmission
function, whose modulus exceeds 1 locally (Gibbs overshoot); a gain that stays within
max|t_bl|^2 is attributed to that and nothing else (for correct kernels the step can never
gain more than that factor); any larger gain lands in ("no_gain", "step", ...).
"""

from __future__ import annotations

import numpy as np
from hypothesis import strategies as st

from pbt import gen, tol
from pbt.core import Violation, claim

GAIN_TOL = 1e-5  # relative slack on "intensity does not increase" (float32 FFT pairs: observed 3e-7)


# ----------------------------------------------------------------------- helpers
def _tilt_value(lim=30.0):
    return (gen.floats(-lim, lim) | st.sampled_from([0.0, 10.0, -25.0, lim])).map(lambda v: round(v, 2))


@st.composite
def _grid(draw, lo=6, hi=24):
    gpts = [draw(st.integers(lo, hi)), draw(st.integers(lo, hi))]
    s0 = round(draw(gen.floats(0.05, 0.3)), 4)
    sampling = [s0, round(s0 * draw(st.sampled_from([1.0, 1.0, 0.6, 0.8, 1.25, 1.7])), 4)]
    return gpts, sampling


@st.composite
def _tilt_spec(draw):
    """None | {"base": [tx, ty]} | {"nx2": [[tx, ty], ...]} | {"x": [...], "base_y": ty}"""
    kind = draw(st.sampled_from(["none", "base", "base", "nx2", "x_axis"]))
    if kind == "none":
        return None
    if kind == "base":
        return {"base": [draw(_tilt_value()), draw(_tilt_value())]}
    if kind == "nx2":
        return {"nx2": [[draw(_tilt_value()), draw(_tilt_value())] for _ in range(draw(st.integers(1, 2)))]}
    return {"x": [draw(_tilt_value()) for _ in range(draw(st.integers(1, 2)))], "base_y": draw(_tilt_value())}


def _tilt_axes(spec):
    """-> (metadata dict, ensemble axes list, ensemble shape) for a Waves object."""
    from abtem.core.axes import AxisAlignedTiltAxis, TiltAxis

    if spec is None:
        return {}, [], ()
    if "base" in spec:
        return {"base_tilt_x": spec["base"][0], "base_tilt_y": spec["base"][1]}, [], ()
    if "nx2" in spec:
        return {}, [TiltAxis(label="tilt", values=tuple(tuple(v) for v in spec["nx2"]))], (len(spec["nx2"]),)
    return (
        {"base_tilt_x": 0.0, "base_tilt_y": spec["base_y"]},
        [AxisAlignedTiltAxis(label="tilt_x", values=tuple(spec["x"]), direction="x")],
        (len(spec["x"]),),
    )


def _kgrid(gpts, sampling):
    kx = np.fft.fftfreq(gpts[0], sampling[0])[:, None]
    ky = np.fft.fftfreq(gpts[1], sampling[1])[None, :]
    return np.sqrt(kx**2 + ky**2)


def _flat_radius(sampling):
    """Radius [1/A] inside which the antialias aperture is exactly one (documented settings
    antialias.cutoff / antialias.taper, both in units of 1/max(sampling))."""
    import abtem

    cutoff = abtem.config.get("antialias.cutoff") / max(sampling) / 2
    taper = abtem.config.get("antialias.taper") / max(sampling)
    return cutoff - taper


def _bandlimited_wave(shape, gpts, sampling, seed, frac=0.95):
    """Random complex64 wave(s) whose spectrum vanishes outside frac * (flat part of the aperture)."""
    rng = np.random.default_rng(seed)
    mask = _kgrid(gpts, sampling) < frac * _flat_radius(sampling)
    spec = (rng.standard_normal(shape + tuple(gpts)) + 1j * rng.standard_normal(shape + tuple(gpts))) * mask
    spec[..., 0, 0] = 1.0 + 0.5j  # never identically zero
    a = np.fft.ifft2(spec)
    return (a / np.abs(a).max()).astype(np.complex64)


def _peak_wave(gpts, sampling, pixel):
    """A probe-like wave: a delta at ``pixel`` band-limited to the flat part of the aperture."""
    a = np.zeros(tuple(gpts), dtype=np.complex128)
    a[pixel[0] % gpts[0], pixel[1] % gpts[1]] = 1.0
    a = np.fft.ifft2(np.fft.fft2(a) * (_kgrid(gpts, sampling) < 0.95 * _flat_radius(sampling)))
    return (a / np.abs(a).max()).astype(np.complex64)


def _intensity(array):
    a = np.asarray(array).astype(np.complex128)
    return (a.real**2 + a.imag**2).sum(axis=(-2, -1))


def _real_slices(kind, nslices, gpts, seed, amplitude):
    """Real potential slices [V*A]: white noise, smooth (low-pass) noise or zeros."""
    if kind == "vacuum":
        return np.zeros((nslices,) + tuple(gpts), dtype=np.float32)
    rng = np.random.default_rng(seed)
    v = rng.standard_normal((nslices,) + tuple(gpts))
    if kind == "smooth":
        f = np.exp(-8.0 * ((np.fft.fftfreq(gpts[0])[:, None] * 4) ** 2 + (np.fft.fftfreq(gpts[1])[None, :] * 4) ** 2))
        v = np.fft.ifft2(np.fft.fft2(v) * f).real
        v = v / max(np.abs(v).max(), 1e-30)
    return (v * amplitude).astype(np.float32)


# ----------------------------------------------------------------------- no gain
@st.composite
def no_gain_case(draw):
    gpts, sampling = draw(_grid())
    nslices = draw(st.integers(1, 5))
    pot = draw(st.sampled_from(["white", "white", "smooth", "smooth", "iam", "vacuum"]))
    case = {
        "gpts": gpts,
        "sampling": sampling,
        "energy": draw(gen.energies() | st.sampled_from([20e3])),
        "potential": pot,
        "thickness": [round(draw(gen.floats(0.1, 5.0)), 3) for _ in range(nslices)],
        "amplitude": draw(st.sampled_from([1.0, 30.0, 300.0, 3000.0])),
        "wave": draw(st.sampled_from(["white", "white", "bandlimited", "peak", "matched"])),
        "members": draw(st.sampled_from([0, 0, 1, 2])),  # size of a trailing plain ensemble axis (0: none)
        "tilt": draw(_tilt_spec()),
        "order": draw(st.sampled_from([1, 1, 2])),
        "conjugate": draw(st.sampled_from([False, False, False, True])),
        "transpose": draw(st.sampled_from([False, False, False, True])),
        "path": draw(st.sampled_from(["steps", "steps", "public"])),
        "seed": draw(gen.seeds()),
    }
    if pot == "iam":
        extent = [gpts[0] * sampling[0], gpts[1] * sampling[1]]
        n = draw(st.integers(1, 3))
        depth = round(float(sum(case["thickness"])), 3)
        case["atoms"] = {
            "numbers": [draw(st.sampled_from(gen.ELEMENTS)) for _ in range(n)],
            "positions": [
                [round(draw(gen.floats(0, 1)) * extent[0], 3), round(draw(gen.floats(0, 1)) * extent[1], 3), round(draw(gen.floats(0, 1)) * depth, 3)]
                for _ in range(n)
            ],
        }
        case["projection"] = draw(st.sampled_from(["infinite", "infinite", "infinite", "finite"]))
    if case["wave"] in ("peak", "matched"):
        case["pixel"] = [draw(st.integers(0, gpts[0] - 1)), draw(st.integers(0, gpts[1] - 1))]
    return case


def _make_potential(case):
    import abtem

    gpts, sampling = tuple(case["gpts"]), tuple(case["sampling"])
    if case["potential"] == "iam":
        from ase import Atoms

        extent = (gpts[0] * sampling[0], gpts[1] * sampling[1])
        depth = float(sum(case["thickness"]))
        atoms = Atoms(numbers=case["atoms"]["numbers"], positions=np.array(case["atoms"]["positions"], dtype=float).reshape(-1, 3),
                      cell=[extent[0], extent[1], depth], pbc=True)
        builder = abtem.Potential(atoms, gpts=gpts, slice_thickness=tuple(case["thickness"]), projection=case["projection"])
        return builder.build(lazy=False)
    v = _real_slices(case["potential"], len(case["thickness"]), gpts, case["seed"] ^ 0x5A5A, case["amplitude"])
    return abtem.PotentialArray(v, slice_thickness=list(case["thickness"]), sampling=sampling)


def _bandlimited_transmission(slice_, energy, gpts, sampling):
    """float64 modulus^2 of the band-limited transmission function exp(i sigma V) of one slice,
    computed here from the slice's potential values (used to classify a gain, never to pass one)."""
    from abtem.antialias import antialias_aperture
    from abtem.core.energy import energy2sigma

    v = np.asarray(slice_.array[0]).astype(np.float64)
    t = np.exp(1j * float(energy2sigma(energy)) * v)
    a = np.asarray(antialias_aperture(gpts, sampling, np)).astype(np.float64)
    tb = np.fft.ifft2(np.fft.fft2(t) * a)
    return tb.real**2 + tb.imag**2


@claim(
    "C04",
    "multislice_no_gain",
    no_gain_case,
    quick=600,
    thorough=9000,
    tol="sum|psi_after|^2 <= sum|psi_before|^2 * (1 + 1e-5) per ensemble member (float64 sums of complex64 arrays)",
    rule=">= 5 % of the wave's power is outside the DC pixel and the potential is not vacuum",
    nontrivial_floor=0.5,
    floors={"path=public": 0.15, "tilted": 0.3},
)
def check_multislice_no_gain(case, ctx):
    import abtem
    from abtem.antialias import AntialiasAperture
    from abtem.core.axes import OrdinalAxis
    from abtem.multislice import FourierMultislice, FresnelPropagator, conventional_multislice_step

    gpts, sampling, energy = tuple(case["gpts"]), tuple(case["sampling"]), case["energy"]
    potential = _make_potential(case)
    slices = list(potential.generate_slices())
    if len(slices) != len(case["thickness"]):
        raise Violation(f"{len(slices)} slices generated for {len(case['thickness'])} thicknesses: {case}", ("no_gain", "slicing"))
    tb2 = [_bandlimited_transmission(s, energy, gpts, sampling) for s in slices]

    metadata, axes, shape = _tilt_axes(case["tilt"])
    m = case["members"]
    if m:
        axes = axes + [OrdinalAxis(label="member", values=tuple(range(m)))]
        shape = shape + (m,)
    kind = case["wave"]
    if kind == "white":
        x = gen.rand_complex(shape + gpts, case["seed"])
    elif kind == "bandlimited":
        x = _bandlimited_wave(shape, gpts, sampling, case["seed"])
    else:
        pixel = tuple(case["pixel"])
        if kind == "matched":  # where the band-limited transmission function of the first slice is largest
            pixel = tuple(int(i) for i in np.unravel_index(int(np.argmax(tb2[0])), gpts))
        x = np.broadcast_to(_peak_wave(gpts, sampling, pixel), shape + gpts).copy()
    waves = abtem.Waves(x.copy(), energy=energy, sampling=sampling, metadata=dict(metadata), ensemble_axes_metadata=list(axes))

    n0 = _intensity(x)
    power = np.abs(np.fft.fft2(x.astype(np.complex128))) ** 2
    off_dc = 1.0 - power[..., 0, 0] / power.sum(axis=(-2, -1))
    ctx.label("potential=" + case["potential"])
    ctx.label("wave=" + kind)
    ctx.label("path=" + case["path"])
    ctx.label("tilted", case["tilt"] is not None)
    ctx.label("order=2", case["order"] == 2)
    ctx.nontrivial(bool(np.all(off_dc >= 0.05)) and case["potential"] != "vacuum")

    def fail(step, before, after, bound):
        ratio = float(np.max(after / before))
        allowed = float(np.max(bound))
        tilt_kind = "none" if case["tilt"] is None else sorted(case["tilt"])[0]
        if allowed > 1.0 and np.all(after <= before * bound * (1 + GAIN_TOL)):
            ctx.note("overshoot_bound", allowed)
            return Violation(
                f"intensity grew by {ratio - 1:.3e} in {step} (band-limited transmission function reaches |t|^2 = "
                f"{allowed:.4f} where the wave sits): {case}",
                bucket=("no_gain", "transmission_overshoot"),
            )
        return Violation(
            f"intensity grew by {ratio - 1:.3e} in {step}, beyond anything the band-limited transmission function "
            f"(max |t|^2 = {allowed:.4f}) could explain: {case}",
            bucket=("no_gain", "step", f"order={case['order']}", f"tilt={tilt_kind}", case["potential"]),
        )

    if case["path"] == "steps":
        propagator, aperture = FresnelPropagator(), AntialiasAperture()
        before = n0
        for i, s in enumerate(slices):
            psi_in = np.asarray(waves.array).astype(np.complex128)
            waves = conventional_multislice_step(
                waves, s, propagator, aperture, conjugate=case["conjugate"], transpose=case["transpose"], order=case["order"]
            )
            after = _intensity(waves.array)
            if not np.all(np.isfinite(after)):
                raise Violation(f"non-finite intensity after slice {i}: {case}", ("no_gain", "nonfinite"))
            if np.any(after > before * (1 + GAIN_TOL)):
                if case["transpose"]:
                    bound = np.full(before.shape, max(1.0, float(tb2[i].max())))
                else:  # transmit first: the exact gain of the multiplication, sum|psi t_bl|^2 / sum|psi|^2
                    g = ((psi_in.real**2 + psi_in.imag**2) * tb2[i]).sum(axis=(-2, -1)) / before
                    bound = np.maximum(1.0, g)
                raise fail(f"slice {i} of {len(slices)}", before, after, bound)
            before = after
    else:
        algorithm = FourierMultislice(order=case["order"], conjugate=case["conjugate"], transpose=case["transpose"])
        out = waves.multislice(potential, algorithm=algorithm)
        arr = np.asarray(out.array)
        if arr.shape != shape + gpts:
            raise Violation(f"exit wave shape {arr.shape} != {shape + gpts}: {case}", ("no_gain", "shape"))
        after = _intensity(arr)
        if not np.all(np.isfinite(after)):
            raise Violation(f"non-finite exit intensity: {case}", ("no_gain", "nonfinite"))
        if np.any(after > n0 * (1 + GAIN_TOL)):
            bound = np.full(n0.shape, float(np.prod([max(1.0, float(t.max())) for t in tb2])))
            raise fail("Waves.multislice", n0, after, bound)
        if not np.array_equal(np.asarray(waves.array), x):
            raise Violation(f"Waves.multislice modified the incident wave: {case}", ("no_gain", "input_modified"))


# ----------------------------------------------------------------------- vacuum
@st.composite
def vacuum_case(draw):
    gpts, sampling = draw(_grid())
    nslices = draw(st.integers(1, 4))
    return {
        "gpts": gpts,
        "sampling": sampling,
        "energy": draw(gen.energies() | st.sampled_from([20e3])),
        "thickness": [round(draw(gen.floats(0.1, 5.0)) * draw(st.sampled_from([1.0, 1.0, 10.0])), 3) for _ in range(nslices)],
        "sign": draw(st.sampled_from([1, 1, -1])),
        "members": draw(st.sampled_from([0, 0, 1, 2])),
        "tilt": draw(_tilt_spec()),
        "order": draw(st.sampled_from([1, 1, 2])),
        "path": draw(st.sampled_from(["propagator", "propagator", "multislice"])),
        "seed": draw(gen.seeds()),
    }


@claim(
    "C04",
    "vacuum_reversible",
    vacuum_case,
    quick=800,
    thorough=16000,
    tol="ulp32: |sum|psi_dz|^2 / sum|psi|^2 - 1| <= 1e-5 per member; max|psi_back - psi| <= 2e-5 * max|psi| per slice pair "
    "(x number of slices)",
    rule=">= 5 % of the wave's power is outside the DC pixel (dz != 0 always)",
    nontrivial_floor=0.8,
    floors={"tilted": 0.3, "path=multislice": 0.15},
)
def check_vacuum_reversible(case, ctx):
    import abtem
    from abtem.core.axes import OrdinalAxis
    from abtem.multislice import FourierMultislice, FresnelPropagator

    gpts, sampling, energy = tuple(case["gpts"]), tuple(case["sampling"]), case["energy"]
    metadata, axes, shape = _tilt_axes(case["tilt"])
    m = case["members"]
    if m:
        axes = axes + [OrdinalAxis(label="member", values=tuple(range(m)))]
        shape = shape + (m,)
    x = _bandlimited_wave(shape, gpts, sampling, case["seed"])
    n0 = _intensity(x)
    power = np.abs(np.fft.fft2(x.astype(np.complex128))) ** 2
    off_dc = 1.0 - power[..., 0, 0] / power.sum(axis=(-2, -1))
    ctx.label("tilted", case["tilt"] is not None)
    ctx.label("path=" + case["path"])
    ctx.label("order=2", case["order"] == 2)
    ctx.label("backward_first", case["sign"] < 0)
    ctx.nontrivial(bool(np.all(off_dc >= 0.05)))
    tilt_kind = "none" if case["tilt"] is None else sorted(case["tilt"])[0]
    nsl = len(case["thickness"])

    def make():
        return abtem.Waves(x.copy(), energy=energy, sampling=sampling, metadata=dict(metadata), ensemble_axes_metadata=list(axes))

    if case["path"] == "propagator":
        propagator = FresnelPropagator()
        waves = make()
        for dz in case["thickness"]:
            waves = propagator.propagate(waves, thickness=case["sign"] * dz, order=case["order"])
        forward = np.asarray(waves.array).copy()
        for dz in reversed(case["thickness"]):
            waves = propagator.propagate(waves, thickness=-case["sign"] * dz, order=case["order"])
        back = np.asarray(waves.array)
    else:
        vacuum = abtem.PotentialArray(np.zeros((nsl,) + gpts, dtype=np.float32), slice_thickness=list(case["thickness"]), sampling=sampling)
        fwd = FourierMultislice(order=case["order"], conjugate=case["sign"] < 0)
        bwd = FourierMultislice(order=case["order"], conjugate=case["sign"] > 0)
        mid = make().multislice(vacuum, algorithm=fwd)
        forward = np.asarray(mid.array).copy()
        back = np.asarray(mid.multislice(vacuum, algorithm=bwd).array)
    if forward.shape != shape + gpts or back.shape != shape + gpts:
        raise Violation(f"shapes {forward.shape} / {back.shape}, expected {shape + gpts}: {case}", ("vacuum", "shape"))

    n1 = _intensity(forward)
    dev = float(np.max(np.abs(n1 / n0 - 1.0)))
    if not dev <= 1e-5:
        raise Violation(
            f"vacuum propagation changed the intensity of a wave band-limited inside the aperture by {dev:.3e}: {case}",
            bucket=("vacuum", "intensity", f"order={case['order']}", f"tilt={tilt_kind}"),
        )
    err = tol.max_err(back, x) / tol.scale(x)
    if not err <= 2e-5 * nsl:
        raise Violation(
            f"propagating back by -dz does not restore the wave: max deviation {err:.3e} of max|psi|: {case}",
            bucket=("vacuum", "reverse", f"order={case['order']}", f"tilt={tilt_kind}"),
        )


# ----------------------------------------------------------------------- kernels
@st.composite
def kernel_case(draw):
    gpts, sampling = draw(_grid(4, 32))
    return {
        "gpts": gpts,
        "sampling": sampling,
        "energy": draw(gen.energies() | st.sampled_from([20e3])),
        "dz": round(draw(gen.floats(0.1, 50.0)) * draw(st.sampled_from([1, 1, -1])), 3),
        "order": draw(st.sampled_from([1, 2])),
        "tilt": draw(_tilt_spec()),
        "amplitude": draw(st.sampled_from([1.0, 30.0, 300.0, 3000.0, 1e5])),
        "seed": draw(gen.seeds()),
    }


@claim(
    "C04",
    "kernels_bounded",
    kernel_case,
    quick=800,
    thorough=16000,
    tol="|propagator| <= 1 + 2e-6; | |transmission| - 1 | <= 2e-6; aperture in [0, 1] exactly",
    rule="the potential slice is non-constant and dz != 0 (always)",
    nontrivial_floor=0.9,
)
def check_kernels_bounded(case, ctx):
    import abtem
    from abtem.antialias import antialias_aperture
    from abtem.multislice import FresnelPropagator

    gpts, sampling, energy = tuple(case["gpts"]), tuple(case["sampling"]), case["energy"]
    ctx.label("tilted", case["tilt"] is not None)
    ctx.label("order=2", case["order"] == 2)
    ctx.nontrivial(True)

    a = np.asarray(antialias_aperture(gpts, sampling, np))
    if a.shape != gpts or not (np.all(a >= 0.0) and np.all(a <= 1.0)):
        raise Violation(f"antialias aperture outside [0, 1]: min {a.min()}, max {a.max()}, shape {a.shape}: {case}", ("kernels", "aperture"))
    if a[0, 0] != 1.0:
        raise Violation(f"antialias aperture is {a[0, 0]} at zero frequency: {case}", ("kernels", "aperture_dc"))

    metadata, axes, shape = _tilt_axes(case["tilt"])
    waves = abtem.Waves(np.zeros(shape + gpts, dtype=np.complex64), energy=energy, sampling=sampling, metadata=dict(metadata), ensemble_axes_metadata=list(axes))
    p = np.asarray(FresnelPropagator().get_array(waves, case["dz"], order=case["order"]))
    if p.shape[-2:] != gpts:
        raise Violation(f"propagator array shape {p.shape}: {case}", ("kernels", "propagator_shape"))
    mod = np.abs(p.astype(np.complex128))
    if not mod.max() <= 1.0 + 2e-6:
        raise Violation(f"|propagator| reaches {mod.max():.8f} > 1: {case}", ("kernels", "propagator_gt_1", f"order={case['order']}"))
    v = _real_slices("white", 2, gpts, case["seed"], case["amplitude"])
    t = np.asarray(abtem.PotentialArray(v, slice_thickness=1.0, sampling=sampling).transmission_function(energy).array)
    if t.shape != v.shape or not np.iscomplexobj(t):
        raise Violation(f"transmission function shape/dtype {t.shape}/{t.dtype}: {case}", ("kernels", "transmission_shape"))
    dev = float(np.abs(np.abs(t.astype(np.complex128)) - 1.0).max())
    if not dev <= 2e-6:
        raise Violation(f"| |transmission| - 1 | = {dev:.3e} for a real potential: {case}", ("kernels", "transmission_modulus"))
