"""C31 Poisson noise is valid, independent and reproducible (abtem/noise.py, measurements.py, array.py).

Statement: noisy measurements contain non-negative whole counts whose expectation is dose times
signal.  With a fixed seed the result is reproducible and identical for lazy and eager evaluation
whatever the chunking.  Distinct measurements in an ensemble receive statistically independent
noise.

Oracles
* validity: exact (x >= 0, x == rint(x), finite), result shape = [doses] + [samples] + input shape.
* expectation: a sum of independent Poisson variables is Poisson.  With lambda_i = dose * max(v_i, 0)
  known exactly from the input, S = sum_i (x_i - lambda_i) / sqrt(sum_i lambda_i) and the contrast
  statistic T = sum_i w_i (x_i - lambda_i) / sqrt(sum_i w_i^2 lambda_i), w_i = lambda_i - mean(lambda),
  are ~N(0,1); |S|, |T| <= 6 is required when sum lambda >= 1e4 (fixed z = 6, seeds drawn by
  Hypothesis, so the verdict is a deterministic function of the case).
* reproducibility / lazy == eager: exact array equality.
* independence: an ensemble of *identical* members; members must differ and the standardised
  cross-correlation sqrt(N) * mean(z_a z_b), z = (x - lambda) / sqrt(lambda), must be <= 6 in
  magnitude for every pair of members (also across the sample and dose axes).
"""

from __future__ import annotations

import math

import numpy as np
from hypothesis import strategies as st

from pbt import gen
from pbt.core import Violation, claim

Z = 6.0


# ----------------------------------------------------------------------- generators
@st.composite
def measurement_spec(draw, min_base=16, max_base=1024, max_members=12, identical=False, allow_negative=False):
    kind = draw(st.sampled_from(["img", "img", "dp", "polar", "line", "rline"]))
    if kind in ("line", "rline"):
        base = [draw(st.integers(min_base, max_base))]
    else:
        # two base axes whose product lies in [min_base, max_base]
        a = draw(st.integers(2 if kind == "polar" else 4, 48))
        lo = max(1 if kind == "polar" else 4, -(-min_base // a))
        hi = max(lo, min(48, max_base // a))
        base = [a, draw(st.integers(lo, hi))]
    ens_kind = draw(st.sampled_from(["none", "param", "param", "grid", "grid", "param+grid"]))
    ens = []
    if "param" in ens_kind:
        ens.append({"kind": "param", "n": draw(st.integers(1, 4))})
    if "grid" in ens_kind:
        ens.append({"kind": "grid", "n": [draw(st.integers(1, 4)), draw(st.integers(1, 3))]})
    # bound the ensemble size by construction: shrink the largest axis until it fits
    def members():
        return int(np.prod([np.prod(e["n"]) for e in ens])) if ens else 1

    while members() > max_members:
        e = max(ens, key=lambda e: max(e["n"]) if isinstance(e["n"], list) else e["n"])
        if isinstance(e["n"], list):
            e["n"][int(np.argmax(e["n"]))] -= 1
        else:
            e["n"] -= 1
    if identical:
        mode = "identical"
    else:
        mode = draw(st.sampled_from(["random", "random", "const"] + (["negative"] if allow_negative else [])))
    return {
        "kind": kind,
        "base": base,
        "ens": ens,
        "values": {"mode": mode, "seed": draw(gen.seeds()), "const": round(draw(gen.floats(0.05, 5.0)), 3)},
        "scan_extent": [round(draw(gen.floats(2.0, 12.0)), 2), round(draw(gen.floats(2.0, 12.0)), 2)],
        "sampling": [round(draw(gen.floats(0.02, 0.5)), 3), round(draw(gen.floats(0.02, 0.5)), 3)],
    }


def full_shape(spec):
    shape = []
    for e in spec["ens"]:
        shape += e["n"] if isinstance(e["n"], list) else [e["n"]]
    return shape + list(spec["base"])


@st.composite
def chunk_spec(draw, spec, base_chunks=True):
    """Lazy chunking: one partition per axis (ensemble axes, and sometimes base axes)."""
    shape = full_shape(spec)
    nb = len(spec["base"])
    chunks = []
    for i, n in enumerate(shape):
        is_base = i >= len(shape) - nb
        if is_base and not (base_chunks and draw(st.integers(0, 3)) == 0):
            chunks.append([n])
        else:
            chunks.append(draw(gen.partition(n, 3)))
    return {"chunks": chunks, "scheduler": draw(st.sampled_from(["synchronous", "synchronous", "threads"]))}


@st.composite
def dose_spec(draw, spec, allow_list=True):
    has_grid = any(e["kind"] == "grid" for e in spec["ens"])
    modes = ["total", "total", "total"]
    if allow_list:
        modes.append("total_list")
    if spec["kind"] == "img" or (spec["kind"] in ("dp", "polar") and has_grid):
        # dose_per_area needs a pixel area: images, or patterns with two scan axes
        modes += ["per_area", "per_area", "per_area"]
    mode = draw(st.sampled_from(modes))
    # total doses 10 ... 1e5 (log-uniform, 3 significant digits)
    def one():
        return float(f"{10 ** draw(gen.floats(1.0, 5.0)):.3g}")

    if mode == "total_list":
        value = [one() for _ in range(draw(st.integers(1, 3)))]
    else:
        value = one()
    return {"mode": mode, "value": value}


# ----------------------------------------------------------------------- building
def make_values(spec):
    """float32 input array; 'identical' tiles one random member (values in [0.5, 5])."""
    shape = full_shape(spec)
    nb = len(spec["base"])
    rng = np.random.default_rng(spec["values"]["seed"])
    mode = spec["values"]["mode"]
    if mode == "const":
        arr = np.full(shape, spec["values"]["const"])
    elif mode == "identical":
        member = rng.uniform(0.5, 5.0, size=shape[len(shape) - nb :])
        arr = np.broadcast_to(member, shape).copy()
    elif mode == "negative":
        arr = rng.uniform(-1.0, 5.0, size=shape)
    else:
        arr = rng.uniform(0.0, 5.0, size=shape)
    return arr.astype(np.float32)


def make_measurement(spec, arr, lazy=None):
    import dask.array as da

    from abtem.core.axes import ParameterAxis
    from abtem.measurements import (
        DiffractionPatterns,
        Images,
        PolarMeasurements,
        RealSpaceLineProfiles,
        ReciprocalSpaceLineProfiles,
    )
    from abtem.scan import GridScan

    axes = []
    for e in spec["ens"]:
        if e["kind"] == "param":
            axes.append(ParameterAxis(label="C10", values=tuple(10.0 * i for i in range(e["n"])), units="Å", _ensemble_mean=False))
        else:
            axes += GridScan(start=(0, 0), end=tuple(spec["scan_extent"]), gpts=tuple(e["n"])).ensemble_axes_metadata
    data = arr
    if lazy is not None:
        data = da.from_array(arr, chunks=tuple(tuple(c) for c in lazy["chunks"]))
    k = spec["kind"]
    sx, sy = spec["sampling"]
    if k == "img":
        return Images(data, sampling=(sx, sy), ensemble_axes_metadata=axes)
    if k == "dp":
        return DiffractionPatterns(data, sampling=(sx, sy), ensemble_axes_metadata=axes, metadata={"energy": 100e3})
    if k == "polar":
        return PolarMeasurements(data, radial_sampling=1.0, azimuthal_sampling=2 * math.pi / spec["base"][1], ensemble_axes_metadata=axes)
    if k == "line":
        return RealSpaceLineProfiles(data, sampling=sx, ensemble_axes_metadata=axes)
    return ReciprocalSpaceLineProfiles(data, sampling=sx, ensemble_axes_metadata=axes, metadata={"energy": 100e3})


def area_per_pixel(spec):
    """Independent of abTEM: pixel area for images, scan-pixel area for scanned patterns."""
    if spec["kind"] == "img":
        return spec["sampling"][0] * spec["sampling"][1]
    g = [e for e in spec["ens"] if e["kind"] == "grid"][0]["n"]
    return (spec["scan_extent"][0] / g[0]) * (spec["scan_extent"][1] / g[1])


def dose_kwargs(spec, dose):
    """(kwargs for poisson_noise, list of total doses or None for scalar, scalar total dose)."""
    if dose["mode"] == "per_area":
        area = area_per_pixel(spec)
        return {"dose_per_area": dose["value"] / area}, None, (dose["value"] / area) * area
    if dose["mode"] == "total_list":
        return {"total_dose": list(dose["value"])}, list(dose["value"]), None
    return {"total_dose": dose["value"]}, None, dose["value"]


def expected_lambda(arr, doses, scalar):
    """float64 Poisson means with the shape of the noisy array *without* the sample axis."""
    v = np.clip(arr.astype(np.float64), 0.0, None)
    if doses is not None:
        return np.stack([v * d for d in doses], axis=0)
    return v * scalar


def run_noise(spec, arr, dose, samples, seed, lazy=None):
    """-> (numpy result, number of dask blocks of the *input*)."""
    import dask

    m = make_measurement(spec, arr, lazy)
    kw, _, _ = dose_kwargs(spec, dose)
    if lazy is None:
        out = m.poisson_noise(samples=samples, seed=seed, **kw)
        if out.is_lazy:
            raise Violation("eager measurement gave a lazy noisy measurement", bucket=("laziness", "eager->lazy"))
        return np.asarray(out.array), 1
    nblocks = int(np.prod([len(c) for c in lazy["chunks"]]))
    out = m.poisson_noise(samples=samples, seed=seed, **kw)
    if not out.is_lazy:
        raise Violation("lazy measurement gave an eager noisy measurement", bucket=("laziness", "lazy->eager"))
    with dask.config.set(scheduler=lazy["scheduler"]):
        out = out.compute()
    return np.asarray(out.array), nblocks


def expected_shape(arr, doses, samples):
    return tuple(([len(doses)] if doses is not None else []) + ([samples] if samples > 1 else []) + list(arr.shape))


def split_samples(x, doses, samples):
    """-> list over samples of arrays shaped like expected_lambda."""
    if samples == 1:
        return [x]
    axis = 1 if doses is not None else 0
    return [np.take(x, s, axis=axis) for s in range(samples)]


def mode_tags(lazy, nblocks):
    if lazy is None:
        return ("eager",)
    return ("lazy", "chunks>1" if nblocks > 1 else "chunks=1")


def label_case(ctx, spec, dose, samples, lazy, nblocks):
    ctx.label("kind:" + spec["kind"])
    ctx.label("values:" + spec["values"]["mode"])
    ctx.label("dose:" + dose["mode"])
    ctx.label(f"samples:{samples}")
    ctx.label("/".join(mode_tags(lazy, nblocks)))
    if lazy is not None:
        ctx.label("scheduler:" + lazy["scheduler"])
        nb = len(spec["base"])
        if any(len(c) > 1 for c in lazy["chunks"][-nb:]):
            ctx.label("base-chunked")


# ----------------------------------------------------------------------- claim 1: validity + expectation
@st.composite
def validity_case(draw):
    spec = draw(measurement_spec(min_base=64, max_base=1024, allow_negative=True))
    return {
        "m": spec,
        "dose": draw(dose_spec(spec)),
        "samples": draw(st.sampled_from([1, 1, 2, 3])),
        "seed": draw(gen.seeds()),
        "lazy": draw(st.none() | chunk_spec(spec)),
    }


@claim(
    "C31",
    "counts_and_expectation",
    validity_case,
    quick=500,
    thorough=60000,
    tol="exact for validity/shape; stat(6 sigma) on Poisson sums with total mean >= 1e4",
    rule="sum of expected counts >= 1e4 (so the 6-sigma statistic is evaluated) and >= 100 pixels with mean >= 1",
    nontrivial_floor=0.4,
)
def check_counts(case, ctx):
    spec, dose, samples, seed, lazy = case["m"], case["dose"], case["samples"], case["seed"], case["lazy"]
    arr = make_values(spec)
    x, nblocks = run_noise(spec, arr, dose, samples, seed, lazy)
    label_case(ctx, spec, dose, samples, lazy, nblocks)
    tags = mode_tags(lazy, nblocks)
    _, doses, scalar = dose_kwargs(spec, dose)
    info = f"dose={dose} samples={samples} seed={seed} lazy={lazy} m={spec}"

    if x.shape != expected_shape(arr, doses, samples):
        raise Violation(f"noisy shape {x.shape} != {expected_shape(arr, doses, samples)}; {info}", bucket=("shape",) + tags)
    if not np.all(np.isfinite(x)):
        raise Violation(f"non-finite counts; {info}", bucket=("validity", "finite"))
    if x.min() < 0:
        raise Violation(f"negative count {x.min()}; {info}", bucket=("validity", "negative"))
    if not np.array_equal(x, np.rint(x)):
        raise Violation(f"fractional counts, e.g. {x[x != np.rint(x)][:3]}; {info}", bucket=("validity", "fractional"))

    lam = expected_lambda(arr, doses, scalar)
    ctx.nontrivial(lam.sum() >= 1e4 and int((lam >= 1).sum()) >= 100)
    # pixels with zero (clipped) signal must stay empty
    for xs in split_samples(x, doses, samples):
        if np.any(xs[lam == 0] != 0):
            raise Violation(f"counts where dose*signal is zero; {info}", bucket=("validity", "counts-at-zero"))

    # In a lazily computed array with k input blocks abTEM's per-block streams may coincide
    # (known finding, claim lazy_equals_eager); the variance of a sum is then at most k times
    # the independent one, so the threshold is widened by sqrt(k): sound for correct code too.
    widen = math.sqrt(nblocks)
    groups = [(f"dose[{i}]", lam[i], [xs[i] for xs in split_samples(x, doses, samples)]) for i in range(len(doses))] if doses is not None else [("all", lam, split_samples(x, doses, samples))]
    for gname, lg, xs_list in groups:
        total = float(lg.sum())
        if total < 1e4:
            continue
        w = lg - lg.mean()
        wvar = float((w * w * lg).sum())
        for s, xs in enumerate(xs_list):
            d = xs.astype(np.float64) - lg
            S = float(d.sum()) / math.sqrt(total)
            if abs(S) > Z * widen:
                raise Violation(
                    f"total counts of {gname} sample {s}: {xs.sum():.6g} vs expected {total:.6g} = {S:.1f} sigma; {info}",
                    bucket=("expectation", "total", dose["mode"]),
                )
            if wvar > 0 and int((lg > 0).sum()) >= 200:
                T = float((w * d).sum()) / math.sqrt(wvar)
                if abs(T) > Z * widen:
                    raise Violation(
                        f"counts of {gname} sample {s} do not follow the signal: contrast statistic {T:.1f} sigma; {info}",
                        bucket=("expectation", "contrast", dose["mode"]),
                    )


# ----------------------------------------------------------------------- claim 2: reproducibility
@st.composite
def repro_case(draw):
    spec = draw(measurement_spec(min_base=16, max_base=512))
    seed = draw(gen.seeds())
    return {
        "m": spec,
        "dose": draw(dose_spec(spec)),
        "samples": draw(st.sampled_from([1, 1, 2, 3])),
        "seed": seed,
        "other_seed": draw(gen.seeds().filter(lambda s: s != seed)),
        "lazy": draw(st.none() | chunk_spec(spec)),
    }


@claim(
    "C31",
    "reproducible",
    repro_case,
    quick=400,
    thorough=40000,
    tol="exact",
    rule=">= 100 pixels with expected count >= 1 (two different seeds cannot plausibly coincide)",
    nontrivial_floor=0.4,
)
def check_reproducible(case, ctx):
    spec, dose, samples, lazy = case["m"], case["dose"], case["samples"], case["lazy"]
    arr = make_values(spec)
    a, nblocks = run_noise(spec, arr, dose, samples, case["seed"], lazy)
    b, _ = run_noise(spec, arr, dose, samples, case["seed"], lazy)
    label_case(ctx, spec, dose, samples, lazy, nblocks)
    tags = mode_tags(lazy, nblocks)
    _, doses, scalar = dose_kwargs(spec, dose)
    lam = expected_lambda(arr, doses, scalar)
    visible = int((lam >= 1).sum()) >= 100
    ctx.nontrivial(visible)
    info = f"dose={dose} samples={samples} seed={case['seed']} lazy={lazy} m={spec}"
    if not np.array_equal(a, b):
        raise Violation(f"two calls with seed={case['seed']} differ in {int((a != b).sum())} of {a.size} pixels; {info}", bucket=("not-reproducible",) + tags[:1])
    if visible:
        c, _ = run_noise(spec, arr, dose, samples, case["other_seed"], lazy)
        if np.array_equal(a, c):
            raise Violation(f"seeds {case['seed']} and {case['other_seed']} give identical noise; {info}", bucket=("seed-ignored",) + tags[:1])


# ----------------------------------------------------------------------- claim 3: lazy == eager
@st.composite
def lazy_case(draw):
    spec = draw(measurement_spec(min_base=16, max_base=512))
    return {
        "m": spec,
        "dose": draw(dose_spec(spec)),
        "samples": draw(st.sampled_from([1, 1, 2, 3])),
        "seed": draw(gen.seeds()),
        "lazy": draw(chunk_spec(spec)),
    }


@claim(
    "C31",
    "lazy_equals_eager",
    lazy_case,
    quick=400,
    thorough=40000,
    tol="exact",
    rule="the lazy input has >= 2 dask blocks and >= 100 pixels have expected count >= 1",
    nontrivial_floor=0.25,
)
def check_lazy_equals_eager(case, ctx):
    spec, dose, samples, seed, lazy = case["m"], case["dose"], case["samples"], case["seed"], case["lazy"]
    arr = make_values(spec)
    e, _ = run_noise(spec, arr, dose, samples, seed, None)
    x, nblocks = run_noise(spec, arr, dose, samples, seed, lazy)
    label_case(ctx, spec, dose, samples, lazy, nblocks)
    _, doses, scalar = dose_kwargs(spec, dose)
    lam = expected_lambda(arr, doses, scalar)
    ctx.nontrivial(nblocks >= 2 and int((lam >= 1).sum()) >= 100)
    info = f"dose={dose} samples={samples} seed={seed} lazy={lazy} m={spec}"
    if x.shape != e.shape:
        raise Violation(f"lazy shape {x.shape} != eager shape {e.shape}; {info}", bucket=("lazy", "shape"))
    if not np.array_equal(x, e):
        raise Violation(
            f"lazy ({nblocks} blocks) differs from eager in {int((x != e).sum())} of {x.size} pixels for seed={seed}; {info}",
            bucket=("lazy", "chunks>1" if nblocks > 1 else "chunks=1"),
        )


# ----------------------------------------------------------------------- claim 4: independence
@st.composite
def independence_case(draw):
    spec = draw(measurement_spec(min_base=256, max_base=1024, max_members=8, identical=True))
    if not spec["ens"]:
        spec["ens"] = [{"kind": "param", "n": draw(st.integers(2, 4))}]
    return {
        "m": spec,
        "dose": draw(dose_spec(spec)),
        "samples": draw(st.sampled_from([1, 1, 2, 3])),
        "seed": draw(gen.seeds()),
        "lazy": draw(st.none() | chunk_spec(spec, base_chunks=False)),
    }


@claim(
    "C31",
    "independence",
    independence_case,
    quick=400,
    thorough=40000,
    tol="members not identical (exact); stat(6 sigma) on the standardised cross-correlation of N >= 256 pixels",
    rule=">= 2 identical members (or samples) with >= 256 pixels of expected count >= 5 each",
    nontrivial_floor=0.4,
)
def check_independence(case, ctx):
    spec, dose, samples, seed, lazy = case["m"], case["dose"], case["samples"], case["seed"], case["lazy"]
    arr = make_values(spec)
    x, nblocks = run_noise(spec, arr, dose, samples, seed, lazy)
    label_case(ctx, spec, dose, samples, lazy, nblocks)
    tags = mode_tags(lazy, nblocks)
    _, doses, scalar = dose_kwargs(spec, dose)
    lam = expected_lambda(arr, doses, scalar)
    if x.shape != expected_shape(arr, doses, samples):
        raise Violation(f"noisy shape {x.shape} != {expected_shape(arr, doses, samples)}", bucket=("shape",) + tags)
    nb = len(spec["base"])
    # items: every base-shaped measurement of the result, with its own mean
    items = []
    for s, xs in enumerate(split_samples(x, doses, samples)):
        flat_x = xs.reshape((-1,) + xs.shape[-nb:])
        flat_l = lam.reshape((-1,) + lam.shape[-nb:])
        for j in range(flat_x.shape[0]):
            items.append((f"sample {s} member {j}", flat_x[j].astype(np.float64).ravel(), flat_l[j].ravel()))
    items = items[:24]
    n = items[0][1].size
    ctx.nontrivial(len(items) >= 2 and n >= 256 and min(float(it[2].min()) for it in items) >= 5.0)
    info = f"dose={dose} samples={samples} seed={seed} lazy={lazy} m={spec}"
    zs = [(name, xi, (xi - li) / np.sqrt(li)) for name, xi, li in items]
    for i in range(len(zs)):
        for j in range(i + 1, len(zs)):
            (na, xa, za), (nb_, xb, zb) = zs[i], zs[j]
            same_lambda = np.array_equal(items[i][2], items[j][2])
            if same_lambda and np.array_equal(xa, xb):
                raise Violation(f"{na} and {nb_} received identical noise ({n} pixels); {info}", bucket=("independence",) + tags + ("identical",))
            r = float((za * zb).sum()) / math.sqrt(n)
            if abs(r) > Z:
                raise Violation(f"{na} and {nb_} are correlated: sqrt(N)*corr = {r:.1f} (N={n}); {info}", bucket=("independence",) + tags + ("correlated",))
