"""C21 The contrast transfer function implements the polar aberration expansion
(abtem/transfer.py: Aberrations._evaluate_from_angular_grid, _HasAberrations, polar_aliases).

Oracle: pbt/props/_chi_ref.py - a float64 chi(alpha, phi) that loops over the (n, m)
parsed from the symbol names.  Compared quantity: the complex kernel exp(-i chi).

Tolerance (mode "ulp32"): |kernel - exp(-i chi_ref)| <= ATOL + RTOL * B(alpha) with
B(alpha) = sum_nm (2 pi/lambda) |C_nm| alpha^(n+1)/(n+1)  (the size of the numbers abTEM adds
up in float32; the terms may cancel, so |chi| itself is not the right scale).  Error budget
of the float32 evaluation of one term: cos argument m*(phi - phi_nm) <= 38 rad carries up to
~4e-6 rad of rounding (half an ulp of 38 is 1.9e-6, plus m times the rounding of phi_nm and
of the difference), powers and products ~(n+3)*6e-8 relative: together < 5e-6 * B.
"""

from __future__ import annotations

import numpy as np
from hypothesis import strategies as st

from pbt import gen
from pbt.core import Violation, claim
from pbt.props import _chi_ref as ref
from pbt.props._aberr_gen import ORDERS, SYMBOL_TO_ALIAS, coeff_cap, coeff_set  # shared with C22, C23, C05

ATOL = 1e-4
RTOL = 1e-5  # explicit (alpha, phi) samples
RTOL_GRID = 2e-5  # alpha, phi computed by abTEM in float32 from the grid

CLASSES = ["Aberrations", "CTF"]
HOWS = ["dict", "kwargs", "set_aberrations", "attr", "dict+kwargs"]


# ----------------------------------------------------------------------- generators
def nontrivial_coeffs(coeffs) -> bool:
    """>=1 coefficient with m > 0 and non-zero angle, or >=2 orders present."""
    ts = ref.terms(coeffs)
    return any(m > 0 and ang != 0.0 for n, m, c, ang in ts) or len({n for n, m, c, ang in ts}) >= 2


@st.composite
def samples(draw, max_points=16, alpha_max=0.04):
    k = draw(st.integers(1, max_points))
    alpha = [draw(st.sampled_from([0.0, alpha_max]) if draw(st.integers(0, 9)) == 0 else gen.floats(0.0, alpha_max)) for _ in range(k)]
    phi = [
        draw(st.sampled_from([0.0, float(np.pi), float(np.pi / 2), float(-np.pi / 2)]) if draw(st.integers(0, 9)) == 0 else gen.floats(-np.pi, np.pi, exclude_min=True))
        for _ in range(k)
    ]
    return alpha, phi


@st.composite
def naming(draw, coeffs):
    """How the coefficient set is handed to abTEM: which symbols go through their alias
    (C10 -> defocus = -C10) and through which entry point."""
    syms = sorted(coeffs)
    alias = [s for s in syms if draw(st.booleans())]
    return {"alias": alias, "how": draw(st.sampled_from(HOWS))}


def named_items(coeffs, alias):
    """[(name, value)] in a deterministic order; aliased symbols use the documented alias."""
    out = []
    for s in sorted(coeffs):
        v = coeffs[s]
        if s in alias:
            if s == "C10":
                out.append(("defocus", [-x for x in v] if isinstance(v, list) else -v))
            else:
                out.append((SYMBOL_TO_ALIAS[s], v))
        else:
            out.append((s, v))
    return out


def build(cls_name, coeffs, alias, how, energy, **grid):
    """Construct the abTEM object from the plain case."""
    import abtem.transfer as T

    cls = getattr(T, cls_name)
    items = named_items(coeffs, alias)
    pre = {"angular_spread": 1.0} if cls_name == "SpatialEnvelope" else {}
    if how == "dict":
        return cls(aberration_coefficients=dict(items), energy=energy, **pre, **grid)
    if how == "kwargs":
        return cls(energy=energy, **pre, **grid, **dict(items))
    if how == "dict+kwargs":
        return cls(aberration_coefficients=dict(items[0::2]), energy=energy, **pre, **grid, **dict(items[1::2]))
    obj = cls(energy=energy, **pre, **grid)
    if how == "set_aberrations":
        obj.set_aberrations(dict(items))
    elif how == "attr":
        for name, value in items:
            setattr(obj, name, value)
    else:
        raise ValueError(how)
    return obj


def orders_label(coeffs):
    ts = ref.terms(coeffs)
    return "orders=" + ("".join(str(n) for n in sorted({n for n, m, c, a in ts})) or "none")


def compare(got, alpha, phi, coeffs, energy, rtol, what, bucket, ctx=None):
    """got vs exp(-i chi_ref) per sample, tolerance ATOL + rtol * B(alpha)."""
    expected = np.exp(-1j * ref.chi(coeffs, alpha, phi, energy))
    bound = ref.chi_abs_bound(coeffs, alpha, energy)
    bound = np.broadcast_to(bound, expected.shape)
    got = np.asarray(got)
    if got.shape != expected.shape:
        raise Violation(f"{what}: kernel shape {got.shape}, expected {expected.shape}", bucket + ("shape",))
    tolerance = ATOL + rtol * bound
    vacuous = tolerance >= 1.0  # |difference of two unit phasors| <= 2: nothing is checked there
    if ctx is not None and vacuous.any():
        ctx.skip(int(vacuous.sum()))
    err = np.abs(got.astype(np.complex128) - expected)
    bad = (err > tolerance) & ~vacuous
    if bad.any() or not np.all(np.isfinite(err)):
        i = np.unravel_index(np.argmax(np.where(vacuous, 0.0, err / tolerance)), err.shape)
        a = np.broadcast_to(alpha, expected.shape)[i]
        p = np.broadcast_to(phi, expected.shape)[i]
        raise Violation(
            f"{what}: kernel {got[i]} != exp(-i chi) = {expected[i]} at alpha={a:.6g} rad phi={p:.6g} "
            f"(|diff|={err[i]:.3e} > tol={tolerance[i]:.3e}, chi_ref={ref.chi(coeffs, a, p, energy):.6g} rad)",
            bucket,
        )
    return float(np.max(np.where(vacuous, 0.0, err / tolerance))) if err.size else 0.0


# ----------------------------------------------------------------------- claim 1: explicit samples
@st.composite
def explicit_case(draw):
    energy = draw(gen.energies())
    coeffs = draw(coeff_set(energy))
    alpha, phi = draw(samples())
    nm = draw(naming(coeffs))
    two_d = draw(st.booleans()) and len(alpha) % 2 == 0 and len(alpha) >= 4
    return {
        "energy": energy,
        "coeffs": coeffs,
        "alias": nm["alias"],
        "how": nm["how"],
        "cls": draw(st.sampled_from(CLASSES)),
        "alpha": alpha,
        "phi": phi,
        "dtype": draw(st.sampled_from(["float32", "float64"])),
        "two_d": two_d,
    }


def _arrays(case):
    dtype = np.dtype(case["dtype"])
    alpha = np.array(case["alpha"], dtype=dtype)
    phi = np.array(case["phi"], dtype=dtype)
    if case.get("two_d"):
        alpha = alpha.reshape(2, -1)
        phi = phi.reshape(2, -1)
    return alpha, phi


@claim(
    "C21",
    "chi_explicit",
    explicit_case,
    quick=1500,
    thorough=40000,
    tol="ulp32: |K - exp(-i chi_ref)| <= 1e-4 + 1e-5*sum|terms|",
    rule=">=1 coefficient with m>0 and non-zero angle, or >=2 orders present",
    nontrivial_floor=0.3,
)
def check_chi_explicit(case, ctx):
    coeffs, energy = case["coeffs"], case["energy"]
    alpha, phi = _arrays(case)
    obj = build(case["cls"], coeffs, case["alias"], case["how"], energy)
    ctx.label(orders_label(coeffs))
    ctx.label(case["cls"])
    ctx.label(case["dtype"])
    ctx.label("how=" + case["how"])
    ctx.nontrivial(nontrivial_coeffs(coeffs))
    got = obj._evaluate_from_angular_grid(alpha, phi)
    # the reference sees exactly the sample values abTEM was given
    r = compare(got, alpha.astype(np.float64), phi.astype(np.float64), coeffs, energy, RTOL, "explicit samples", ("chi", case["cls"]), ctx)
    ctx.note("err/tol", r)


# ----------------------------------------------------------------------- claim 2: grid kernel
@st.composite
def grid_case(draw):
    energy = draw(gen.energies())
    coeffs = draw(coeff_set(energy))
    lam = ref.wavelength(energy)
    gpts = draw(gen.gpts2d(4, 24))
    # Nyquist angle per axis between 10 and 80 mrad (anisotropic sampling)
    sampling = [round(lam / (2 * draw(gen.floats(0.010, 0.080))), 5) for _ in range(2)]
    nm = draw(naming(coeffs))
    return {
        "energy": energy,
        "coeffs": coeffs,
        "alias": nm["alias"],
        "how": nm["how"],
        "cls": draw(st.sampled_from(CLASSES)),
        "gpts": gpts,
        "sampling": sampling,
        "grid_by": draw(st.sampled_from(["sampling", "extent"])),
    }


@claim(
    "C21",
    "chi_grid",
    grid_case,
    quick=800,
    thorough=20000,
    tol="ulp32: |K - exp(-i chi_ref)| <= 1e-4 + 2e-5*sum|terms| (alpha, phi recomputed in float64 from gpts/sampling/energy)",
    rule=">=1 coefficient with m>0 and non-zero angle, or >=2 orders present",
    nontrivial_floor=0.3,
)
def check_chi_grid(case, ctx):
    coeffs, energy = case["coeffs"], case["energy"]
    gpts, sampling = tuple(case["gpts"]), tuple(case["sampling"])
    if case["grid_by"] == "sampling":
        grid = {"gpts": gpts, "sampling": sampling}
    else:
        grid = {"gpts": gpts, "extent": (gpts[0] * sampling[0], gpts[1] * sampling[1])}
    obj = build(case["cls"], coeffs, case["alias"], case["how"], energy, **grid)
    ctx.label(orders_label(coeffs))
    ctx.label(case["cls"])
    ctx.label("odd" if gpts[0] % 2 or gpts[1] % 2 else "even")
    ctx.nontrivial(nontrivial_coeffs(coeffs))
    got = obj._evaluate_kernel()
    alpha, phi = ref.angular_grid(gpts, sampling, energy)
    r = compare(got, alpha, phi, coeffs, energy, RTOL_GRID, "grid kernel", ("chi_grid", case["cls"]), ctx)
    ctx.note("err/tol", r)


# ----------------------------------------------------------------------- claim 3: aliases / entry points
@st.composite
def alias_case(draw):
    energy = draw(gen.energies())
    coeffs = draw(coeff_set(energy, min_size=0))
    # angles of magnitudes that were not drawn: any of the 25 symbols can be addressed
    for s in draw(st.lists(st.sampled_from(ref.angle_symbols()), max_size=3, unique=True)):
        coeffs.setdefault(s, draw(gen.floats(-np.pi, np.pi, exclude_min=True)))
    nm = draw(naming(coeffs))
    return {
        "energy": energy,
        "coeffs": coeffs,
        "alias": nm["alias"],
        "how": nm["how"],
        "cls": draw(st.sampled_from(CLASSES + ["SpatialEnvelope"])),
    }


@claim(
    "C21",
    "aliases",
    alias_case,
    quick=1500,
    thorough=40000,
    tol="exact",
    rule=">=1 coefficient is addressed through its alias",
    nontrivial_floor=0.3,
)
def check_aliases(case, ctx):
    coeffs, energy = case["coeffs"], case["energy"]
    obj = build(case["cls"], coeffs, case["alias"], case["how"], energy)
    ctx.label(case["cls"])
    ctx.label("how=" + case["how"])
    ctx.label("defocus", "C10" in case["alias"])
    ctx.nontrivial(len(case["alias"]) > 0)
    expected = {s: 0.0 for s in ref.all_symbols()}
    expected.update({s: float(v) for s, v in coeffs.items()})
    got = dict(obj.aberration_coefficients)
    if set(got) != set(expected):
        raise Violation(f"coefficient dict has keys {sorted(set(got) ^ set(expected))} too many/missing", ("alias", "keys"))
    for s in sorted(expected):
        if not (got[s] == expected[s]):
            raise Violation(
                f"{case['cls']} built via {case['how']} with {named_items(coeffs, case['alias'])}: coefficient {s} = {got[s]!r}, expected {expected[s]!r}",
                ("alias", s),
            )
        # attribute access under the symbol and under the alias addresses the same number
        if not (getattr(obj, s) == expected[s]):
            raise Violation(f"getattr(obj, {s!r}) = {getattr(obj, s)!r}, expected {expected[s]!r}", ("getattr", s))
        if s != "C10":
            a = SYMBOL_TO_ALIAS[s]
            if not (getattr(obj, a) == expected[s]):
                raise Violation(f"getattr(obj, {a!r}) = {getattr(obj, a)!r}, expected {expected[s]!r} (= {s})", ("getattr", a))
    if not (obj.defocus == -expected["C10"]):
        raise Violation(f"defocus = {obj.defocus!r} but C10 = {expected['C10']!r}", ("alias", "defocus"))


# ----------------------------------------------------------------------- claim 3b: the "scherzer" defocus string
@st.composite
def scherzer_case(draw):
    return {
        "energy": draw(gen.energies()),
        "C30": draw(st.sampled_from([1e4, -1e4, 1.3e7]) | gen.floats(-2e7, 2e7).map(lambda v: round(v, 1))),
        "cs_name": draw(st.sampled_from(["C30", "Cs"])),
        "spelling": draw(st.sampled_from(["scherzer", "Scherzer", "SCHERZER"])),
        "how": draw(st.sampled_from(["kwargs", "dict", "set_aberrations"])),
        "cls": draw(st.sampled_from(CLASSES + ["SpatialEnvelope"])),
    }


@claim(
    "C21",
    "scherzer_defocus_alias",
    scherzer_case,
    quick=400,
    thorough=8000,
    tol="exact",
    rule="C30 != 0 (the Scherzer defocus is non-zero)",
    nontrivial_floor=0.5,
)
def check_scherzer(case, ctx):
    """`defocus="scherzer"` is documented as the one string value a coefficient accepts and
    means the number ``scherzer_defocus(Cs, energy)``.  Addressed through the alias
    ``defocus`` it must behave as that number does: defocus == value, C10 == -value, and the
    object equals the one built with the number (statement: "defocus is the negative of C10
    and named aliases address the same coefficients")."""
    import abtem.transfer as T

    cls = getattr(T, case["cls"])
    energy, c30 = case["energy"], case["C30"]
    pre = {"angular_spread": 1.0} if case["cls"] == "SpatialEnvelope" else {}
    value = float(T.scherzer_defocus(c30, energy))
    ctx.label(case["cls"])
    ctx.label("how=" + case["how"])
    ctx.label("negative_Cs", c30 < 0)
    ctx.nontrivial(c30 != 0.0)
    # the spherical aberration is set first: the string is resolved when it is assigned
    if case["how"] == "kwargs":
        obj = cls(energy=energy, **pre, **{case["cs_name"]: c30, "defocus": case["spelling"]})
    elif case["how"] == "dict":
        obj = cls(aberration_coefficients={case["cs_name"]: c30, "defocus": case["spelling"]}, energy=energy, **pre)
    else:
        obj = cls(energy=energy, **pre, **{case["cs_name"]: c30})
        obj.set_aberrations({"defocus": case["spelling"]})
    num = cls(energy=energy, **pre, **{case["cs_name"]: c30, "defocus": value})
    if not (obj.defocus == value):
        raise Violation(f"defocus={case['spelling']!r} with {case['cs_name']}={c30} at {energy} eV gives defocus {obj.defocus!r}, scherzer_defocus gives {value!r}", ("scherzer", "defocus"))
    if not (obj.C10 == -value):
        raise Violation(f"defocus={case['spelling']!r} gives C10 {obj.C10!r}, expected {-value!r}", ("scherzer", "C10"))
    if dict(obj.aberration_coefficients) != dict(num.aberration_coefficients):
        raise Violation("object built with defocus='scherzer' differs from the one built with the number", ("scherzer", "coefficients"))


# ----------------------------------------------------------------------- claim 4: rotation law
@st.composite
def rotation_case(draw):
    energy = draw(gen.energies())
    coeffs = draw(coeff_set(energy))
    alpha, phi = draw(samples(max_points=12))
    return {
        "energy": energy,
        "coeffs": coeffs,
        "cls": draw(st.sampled_from(CLASSES)),
        "alpha": alpha,
        "phi": phi,
        "delta": draw(gen.floats(-np.pi, np.pi)),
    }


@claim(
    "C21",
    "rotation",
    rotation_case,
    quick=1000,
    thorough=25000,
    tol="ulp32: |K_rot(alpha,phi) - K(alpha,phi-delta)| <= 2*(1e-4 + 1e-5*sum|terms|)",
    rule=">=1 non-zero magnitude with m>0 and delta != 0",
    nontrivial_floor=0.3,
)
def check_rotation(case, ctx):
    coeffs, energy, delta = case["coeffs"], case["energy"], case["delta"]
    alpha = np.array(case["alpha"], dtype=np.float64)
    phi = np.array(case["phi"], dtype=np.float64)
    rotated = dict(coeffs)
    for n, m in ORDERS:
        if m > 0 and f"C{n}{m}" in coeffs:
            # every azimuthal angle coefficient is advanced by delta (also those left at 0)
            rotated[f"phi{n}{m}"] = coeffs.get(f"phi{n}{m}", 0.0) + delta
    a = build(case["cls"], rotated, [], "dict", energy)._evaluate_from_angular_grid(alpha, phi)
    b = build(case["cls"], coeffs, [], "dict", energy)._evaluate_from_angular_grid(alpha, phi - delta)
    ctx.label(orders_label(coeffs))
    ctx.nontrivial(delta != 0.0 and any(m > 0 for n, m, c, ang in ref.terms(coeffs)))
    tolerance = 2 * (ATOL + RTOL * ref.chi_abs_bound(coeffs, alpha, energy))
    err = np.abs(np.asarray(a) - np.asarray(b))
    live = tolerance < 1.0
    if np.any((err > tolerance) & live):
        i = int(np.argmax(np.where(live, err / tolerance, 0.0)))
        raise Violation(
            f"rotating all angles by {delta} != evaluating at phi - delta: {a[i]} vs {b[i]} at alpha={alpha[i]}, phi={phi[i]} (|diff|={err[i]:.3e}, tol={tolerance[i]:.3e})",
            ("rotation", case["cls"]),
        )
    # and both agree with the reference evaluated at phi - delta
    compare(b, alpha, phi - delta, coeffs, energy, RTOL, "rotation reference", ("chi", case["cls"]), ctx)


# ----------------------------------------------------------------------- claim 5: ensembles of coefficients
@st.composite
def ensemble_case(draw):
    energy = draw(gen.energies())
    coeffs = draw(coeff_set(energy, max_size=6))
    syms = sorted(coeffs)
    dist_syms = draw(st.lists(st.sampled_from(syms), min_size=1, max_size=min(2, len(syms)), unique=True))
    dists = {}
    for s in sorted(dist_syms):
        kind, n, m = ref.parse(s)
        k = draw(st.integers(1, 3))
        if kind == "C":
            cap = coeff_cap(n, energy)
            dists[s] = [draw(gen.floats(-cap, cap)) for _ in range(k)]
        else:
            dists[s] = [draw(gen.floats(-np.pi, np.pi, exclude_min=True)) for _ in range(k)]
    alpha, phi = draw(samples(max_points=6))
    nm = draw(naming(coeffs))
    return {
        "energy": energy,
        "coeffs": coeffs,
        "dists": dists,
        "alias": nm["alias"],
        "how": nm["how"],
        "cls": draw(st.sampled_from(CLASSES)),
        "alpha": alpha,
        "phi": phi,
        "form": draw(st.sampled_from(["list", "from_values"])),
    }


@claim(
    "C21",
    "ensemble_members",
    ensemble_case,
    quick=600,
    thorough=15000,
    tol="ulp32: per member |K - exp(-i chi_ref)| <= 1e-4 + 1e-5*sum|terms|",
    rule=">=2 ensemble members in total",
    nontrivial_floor=0.3,
)
def check_ensemble_members(case, ctx):
    import itertools

    energy = case["energy"]
    coeffs = dict(case["coeffs"])
    dists = case["dists"]
    alpha = np.array(case["alpha"], dtype=np.float32)
    phi = np.array(case["phi"], dtype=np.float32)
    given = dict(coeffs)
    # a plain list where abTEM validates the value itself (constructor / set_aberrations);
    # the attribute setters are typed "float | BaseDistribution", so a distribution object there
    as_object = case["form"] == "from_values" or case["how"] == "attr"
    ctx.label("form=" + ("from_values" if as_object else "list"))
    for s, vals in dists.items():
        if as_object:
            from abtem.distributions import from_values

            given[s] = from_values(list(vals))
        else:
            given[s] = list(vals)
    # lists are documented to become equal-weight distributions (weights 1); defocus = -C10
    obj = build(case["cls"], given, case["alias"], case["how"], energy)
    got = np.asarray(obj._evaluate_from_angular_grid(alpha, phi))
    axes = obj.ensemble_axes_metadata
    labels = [a.label for a in axes]
    n_members = int(np.prod([len(v) for v in dists.values()]))
    ctx.label(f"axes={len(dists)}")
    ctx.label(case["cls"])
    ctx.nontrivial(n_members >= 2)
    if sorted(labels) != sorted(dists):
        raise Violation(f"ensemble axes {labels} for distributions over {sorted(dists)}", ("ensemble", "axes"))
    exp_shape = tuple(len(dists[l]) for l in labels) + alpha.shape
    if got.shape != exp_shape or tuple(obj.ensemble_shape) != exp_shape[: len(labels)]:
        raise Violation(f"kernel shape {got.shape} / ensemble_shape {obj.ensemble_shape}, expected {exp_shape} for axes {labels}", ("ensemble", "shape"))
    for a, l in zip(axes, labels):
        if not np.allclose(np.asarray(a.values, dtype=float), np.asarray(dists[l], dtype=float), rtol=1e-6, atol=0):
            raise Violation(f"axis {l} has values {a.values}, given {dists[l]}", ("ensemble", "values"))
    for idx in itertools.product(*(range(len(dists[l])) for l in labels)):
        member = dict(coeffs)
        for l, i in zip(labels, idx):
            member[l] = dists[l][i]
        compare(got[idx], alpha.astype(np.float64), phi.astype(np.float64), member, energy, RTOL, f"ensemble member {dict(zip(labels, idx))}", ("ensemble", "member", case["cls"]), ctx)
