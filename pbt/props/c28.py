"""C28 Ptychographic operators honour their mathematical contracts (abtem/reconstruct.py).

The static methods of ``RegularizedPtychographicOperator`` are called directly with
arrays, exactly as ``reconstruct()`` calls them (same argument order, ``xp=np``).

Preconditions taken from the callers (``preprocess`` / ``reconstruct``):
* the objects array is at least as large as the probe window in both dimensions
  (``preprocess`` sizes it as ``max(round(max_position + padding), roi_shape)``);
* all-zero diffraction patterns never reach ``_fourier_projection`` (``reconstruct`` skips
  them), so the measured amplitude always has a positive sum;
* ``alpha``/``beta``/step sizes are the documented values in (0, 1];
* fractional parts of exactly one half are not drawn (the rounding convention of the
  window centre is not documented; any consistent convention satisfies the property).
"""

from __future__ import annotations

import numpy as np
from hypothesis import strategies as st

from pbt import gen
from pbt.core import Violation, claim


# ----------------------------------------------------------------------- helpers
def _tol(dtype):
    return 1e-10 if np.dtype(dtype) == np.complex128 else 2e-5


def _field(kind, shape, seed, dtype):
    """Complex test arrays of several structures (always with a non-zero entry)."""
    rng = np.random.default_rng(seed)
    if kind == "random":
        a = rng.standard_normal(shape) + 1j * rng.standard_normal(shape)
    elif kind == "phase":  # pure phase object / weak-phase object
        a = np.exp(1j * rng.uniform(-1.5, 1.5, shape))
    elif kind == "bandlimited":
        a = gen.bandlimited_complex(shape, seed, frac=0.6, dtype=np.complex128) * np.sqrt(shape[0] * shape[1])
        if not np.any(a):
            a = a + 1.0
    elif kind == "real":
        a = rng.standard_normal(shape) + 0j
    elif kind == "blob":  # probe-like: smooth envelope centred in the window, with a phase curvature
        x = (np.arange(shape[0]) - shape[0] // 2)[:, None] / max(shape[0], 1)
        y = (np.arange(shape[1]) - shape[1] // 2)[None, :] / max(shape[1], 1)
        r2 = x**2 + y**2
        a = np.exp(-r2 * rng.uniform(4, 30)) * np.exp(1j * rng.uniform(-20, 20) * r2)
    elif kind == "holes":  # random with exact zeros
        a = rng.standard_normal(shape) + 1j * rng.standard_normal(shape)
        a = a * (rng.random(shape) > 0.3)
        a.flat[rng.integers(a.size)] = 1.0 + 0.5j
    elif kind == "delta":
        a = np.zeros(shape, complex)
        a.flat[rng.integers(a.size)] = rng.uniform(0.5, 2.0) * np.exp(1j * rng.uniform(-3, 3))
    else:  # pragma: no cover
        raise ValueError(kind)
    return np.ascontiguousarray(a.astype(dtype))


def _roi(objects, position, window_shape):
    """Independent model of the periodic window: the block of ``window_shape`` whose pixel
    ``(n//2, m//2)`` sits on ``round(position)`` (modulo the objects shape)."""
    c = np.round(np.asarray(position, float)).astype(int)
    n, m = window_shape
    rolled = np.roll(objects, (n // 2 - c[0], m // 2 - c[1]), axis=(0, 1))
    return rolled[:n, :m]


def _roi_mask(objects_shape, position, window_shape):
    mask = np.zeros(objects_shape, bool)
    c = np.round(np.asarray(position, float)).astype(int)
    n, m = window_shape
    for i in range(n):
        for j in range(m):
            mask[(c[0] - n // 2 + i) % objects_shape[0], (c[1] - m // 2 + j) % objects_shape[1]] = True
    return mask


def _frac():
    # fractional offsets in (-0.5, 0.5), never exactly one half
    return st.sampled_from([0.0, 0.0, 0.25, -0.25, 0.4375, -0.4375]) | gen.floats(-0.49, 0.49).map(lambda v: round(v, 3))


@st.composite
def _position(draw, obj_shape, win_shape):
    """Pixel position: inside, near the border (window wraps) or beyond the array."""
    out = []
    for p, r in zip(obj_shape, win_shape):
        kind = draw(st.sampled_from(["in", "in", "border", "border", "out"]))
        if kind == "in":
            i = draw(st.integers(0, p - 1))
        elif kind == "border":
            i = draw(st.sampled_from([0, 1, p - 1, p - 2, r // 2, p - r // 2]))
        else:
            i = draw(st.integers(-r - 2, p + r + 2))
        out.append(i + draw(_frac()))
    return out


# ======================================================================= claim 1
@st.composite
def fourier_case(draw):
    shape = [draw(st.integers(4, 24)), draw(st.integers(4, 24))]
    return {
        "shape": shape,
        "dtype": draw(st.sampled_from(["complex128", "complex128", "complex64"])),
        "wave_kind": draw(st.sampled_from(["random", "random", "bandlimited", "real", "phase", "holes", "delta"])),
        "wave_seed": draw(gen.seeds()),
        "amp_kind": draw(st.sampled_from(["random", "random", "zeros", "sparse", "scaled", "true"])),
        "amp_seed": draw(gen.seeds()),
        "amp_scale": draw(st.sampled_from([1.0, 1e-3, 250.0])),
        "sse_in": draw(st.sampled_from([0.0, 0.0, 0.125, 3.5])),
    }


def _amplitude(case, wave):
    shape = tuple(case["shape"])
    rng = np.random.default_rng(case["amp_seed"])
    true = np.abs(np.fft.fft2(wave.astype(np.complex128)))
    kind = case["amp_kind"]
    if kind == "random":
        a = np.abs(rng.standard_normal(shape))
    elif kind == "zeros":
        a = np.abs(rng.standard_normal(shape)) * (rng.random(shape) > 0.4)
        a.flat[rng.integers(a.size)] = 1.0
    elif kind == "sparse":
        a = np.zeros(shape)
        a.flat[rng.integers(a.size)] = 1.0
    elif kind == "scaled":
        a = true * rng.uniform(0.2, 3.0)
    else:
        return true.astype(np.float64 if case["dtype"] == "complex128" else np.float32)
    a = a * case["amp_scale"]
    return a.astype(np.float64 if case["dtype"] == "complex128" else np.float32)


@claim(
    "C28",
    "fourier_projection",
    fourier_case,
    quick=1500,
    thorough=30000,
    tol="f64 1e-10 (complex128) / 2e-5 (complex64), relative to max amplitude",
    rule="measured amplitude differs from |FFT2(exit wave)| by more than 1% of its maximum somewhere",
    nontrivial_floor=0.35,
)
def check_fourier_projection(case, ctx):
    from abtem.reconstruct import RegularizedPtychographicOperator as Op

    shape = tuple(case["shape"])
    dtype = np.dtype(case["dtype"])
    tol = _tol(dtype)
    wave = _field(case["wave_kind"], shape, case["wave_seed"], dtype)
    amp = _amplitude(case, wave)
    sse_in = case["sse_in"]
    ctx.label(f"amp:{case['amp_kind']}")
    ctx.label(case["dtype"])
    ctx.label("amp has exact zeros", bool((amp == 0).any()))

    f_in = np.fft.fft2(wave.astype(np.complex128))
    amp64 = amp.astype(np.float64)
    amax = float(amp64.max())
    ctx.nontrivial(bool(np.abs(np.abs(f_in) - amp64).max() > 0.01 * max(amax, np.abs(f_in).max())))

    wave_before = wave.copy()
    amp_before = amp.copy()
    out, sse = Op._fourier_projection(wave, amp, sse_in, xp=np)
    if not (np.array_equal(wave, wave_before) and np.array_equal(amp, amp_before)):
        raise Violation("_fourier_projection modified its inputs", ("fourier", "inputs_modified"))
    out = np.asarray(out)
    if out.shape != shape or not np.iscomplexobj(out):
        raise Violation(f"output shape/dtype {out.shape} {out.dtype} for input {shape}", ("fourier", "shape"))

    f_out = np.fft.fft2(out.astype(np.complex128))
    # (a) Fourier amplitude equals the measured amplitude
    err = float(np.abs(np.abs(f_out) - amp64).max())
    if not err <= tol * amax:
        raise Violation(
            f"|FFT2(out)| differs from the measured amplitude by {err / amax:.2e} (rel. to max) for {case}",
            ("fourier", "amplitude", case["dtype"]),
        )
    # (b) the input phase is kept wherever it is defined: FFT2(out) = amp * F_in/|F_in|
    fmax = float(np.abs(f_in).max())
    with np.errstate(divide="ignore", invalid="ignore"):
        phasor = np.where(np.abs(f_in) > 0, f_in / np.abs(f_in), 1.0)
        cond = np.where(np.abs(f_in) > 0, tol * fmax / np.abs(f_in), np.inf)
    allowed = tol * amax + amp64 * np.minimum(cond, 2.0)
    defined = cond < 0.5
    ctx.skip(int((~defined).sum()))
    bad = (np.abs(f_out - amp64 * phasor) > allowed) & defined
    if bad.any():
        k = np.unravel_index(int(np.argmax(np.where(defined, np.abs(f_out - amp64 * phasor) - allowed, -np.inf))), shape)
        raise Violation(
            f"phase not kept at Fourier pixel {k}: in {np.angle(f_in[k]):.6f} out {np.angle(f_out[k]):.6f} (amp {amp64[k]:.3e}) for {case}",
            ("fourier", "phase", case["dtype"]),
        )
    # (c) the error estimate is accumulated, never decreased; zero for a consistent wave
    sse = float(sse)
    if not sse >= sse_in - 1e-12 or not np.isfinite(sse):
        raise Violation(f"sse decreased / not finite: {sse_in} -> {sse}", ("fourier", "sse_decreased"))
    if case["amp_kind"] == "true" and dtype == np.complex128 and not sse - sse_in <= 1e-12:
        raise Violation(f"consistent amplitude reports error {sse - sse_in:.3e}", ("fourier", "sse_true_nonzero"))
    # (d) idempotence, and the projected wave is consistent with the measurement
    out2, sse2 = Op._fourier_projection(out, amp, 0.0, xp=np)
    e2 = float(np.abs(np.asarray(out2) - out).max())
    omax = float(np.abs(out).max())
    if not e2 <= tol * max(omax, np.finfo(float).tiny):
        raise Violation(f"P(P(x)) differs from P(x) by {e2 / max(omax, 1e-300):.2e} for {case}", ("fourier", "idempotent", case["dtype"]))
    if not float(sse2) <= (1e-18 if dtype == np.complex128 else 1e-8):
        raise Violation(f"projected wave reports error {float(sse2):.3e} against the same measurement", ("fourier", "sse_after_projection"))


# ======================================================================= claims 2, 3
@st.composite
def rpie_case(draw, fixed_point=True):
    win = [draw(st.integers(4, 16)), draw(st.integers(4, 16))]
    obj = [win[0] + draw(st.sampled_from([0, 0, 1, 2, 5, 9])), win[1] + draw(st.sampled_from([0, 0, 1, 3, 4, 10]))]
    par = st.sampled_from([1.0, 0.5, 0.05]) | gen.floats(0.01, 1.0).map(lambda v: round(v, 4))
    case = {
        "window": win,
        "objects_shape": obj,
        "dtype": draw(st.sampled_from(["complex128", "complex128", "complex64"])),
        "object_kind": draw(st.sampled_from(["phase", "phase", "random", "holes"])),
        "object_seed": draw(gen.seeds()),
        "probe_kind": draw(st.sampled_from(["blob", "blob", "random", "holes"])),
        "probe_seed": draw(gen.seeds()),
        "position": draw(_position(obj, win)),
        "alpha": draw(par),
        "beta": draw(par),
        "object_step_size": draw(par),
        "probe_step_size": draw(par),
        "fix_probe": draw(st.sampled_from([False, False, True])),
    }
    if fixed_point:
        case["old_position"] = draw(st.none() | _position(obj, win))
    else:
        case["modified_seed"] = draw(gen.seeds())
    return case


def _wraps(case):
    return any(
        (round(p) - n // 2 < 0) or (round(p) - n // 2 + n > s) for p, n, s in zip(case["position"], case["window"], case["objects_shape"])
    )


@claim(
    "C28",
    "rpie_fixed_point",
    rpie_case,
    quick=1200,
    thorough=24000,
    tol="f64 1e-12 relative (objects, probes), sse <= 1e-20",
    rule="the probe window wraps around the objects border or the probe is fractionally shifted",
    nontrivial_floor=0.3,
)
def check_rpie_fixed_point(case, ctx):
    from abtem.reconstruct import RegularizedPtychographicOperator as Op

    dtype = np.dtype(case["dtype"])
    win = tuple(case["window"])
    objects = _field(case["object_kind"], tuple(case["objects_shape"]), case["object_seed"], dtype)
    probes0 = _field(case["probe_kind"], win, case["probe_seed"], dtype)
    position = np.array(case["position"], float)
    old = position.copy() if case["old_position"] is None else np.array(case["old_position"], float)
    shifted = bool(np.any(np.abs((position - np.round(position)) - (old - np.round(old))) > 0))
    ctx.label("wraps", _wraps(case))
    ctx.label("fractional shift", shifted)
    ctx.label(case["dtype"])
    ctx.nontrivial(_wraps(case) or shifted)

    objects_in = objects.copy()
    probes, psi = Op._overlap_projection(objects, probes0, position, old, xp=np)
    if not np.array_equal(objects, objects_in):
        raise Violation("_overlap_projection modified the objects", ("overlap", "objects_modified"))
    probes = np.asarray(probes)
    psi = np.asarray(psi)
    if probes.shape != win or psi.shape != win:
        raise Violation(f"overlap projection shapes {probes.shape} {psi.shape} for window {win}", ("overlap", "shape"))
    # psi = O_roi * P with the periodic window centred on round(position)
    ref = _roi(objects, position, win).astype(np.complex128) * probes.astype(np.complex128)
    scale = float(np.abs(ref).max())
    if not float(np.abs(psi - ref).max()) <= _tol(dtype) * 1e-2 * max(scale, 1e-300):
        raise Violation(
            f"exit wave is not O_roi*P for the periodic window at {case['position']} (objects {case['objects_shape']}, window {case['window']})",
            ("overlap", "roi", "wraps" if _wraps(case) else "inside"),
        )

    amp = np.abs(np.fft.fft2(psi.astype(np.complex128)))
    if not amp.sum() > 0:  # reconstruct() skips empty patterns; cannot happen by construction
        ctx.label("empty pattern")
        return
    modified, sse = Op._fourier_projection(psi, amp, 0.0, xp=np)
    if not float(sse) <= 1e-20:
        raise Violation(f"true object and probe report error {float(sse):.3e}", ("fixed_point", "sse"))
    rp = {k: case[k] for k in ("alpha", "beta", "object_step_size", "probe_step_size")}
    obj_before = objects.copy()
    prb_before = probes.copy()
    new_objects, new_probes, new_position = Op._update_function(
        objects, probes, position.copy(), psi, modified, amp,
        fix_probe=case["fix_probe"], position_correction=None, sobel=None, reconstruction_parameters=rp, xp=np,
    )
    for name, new, before in (("objects", new_objects, obj_before), ("probes", new_probes, prb_before)):
        new = np.asarray(new)
        if new.shape != before.shape:
            raise Violation(f"{name} changed shape {before.shape} -> {new.shape}", ("fixed_point", name, "shape"))
        e = float(np.abs(new.astype(np.complex128) - before.astype(np.complex128)).max())
        if not e <= 1e-12 * float(np.abs(before).max()):
            raise Violation(
                f"{name} changed by {e / float(np.abs(before).max()):.2e} (relative) at the fixed point for {case}",
                ("fixed_point", name),
            )
    if not np.array_equal(np.asarray(new_position, float), position):
        raise Violation(f"position changed without position correction: {position} -> {new_position}", ("fixed_point", "position"))


@claim(
    "C28",
    "rpie_update_formula",
    lambda: rpie_case(fixed_point=False),
    quick=1200,
    thorough=24000,
    tol="f64 1e-12 (complex128) / 2e-6 (complex64 objects), relative",
    rule="always (the modified exit wave differs from the exit wave; compared with the documented update formula)",
    nontrivial_floor=0.9,
    floors={"wraps": 0.15},
)
def check_rpie_update_formula(case, ctx):
    """Documented in the docstring of ``_update_function``:
    O' = O + s_o P* (psi'-psi) / ((1-alpha)|P|^2 + alpha max|P|^2) inside the window,
    P' = P + s_p O_roi* (psi'-psi) / ((1-beta)|O_roi|^2 + beta max|O_roi|^2),
    ``fix_probe=True`` leaves the probe alone; pixels outside the window are not touched."""
    from abtem.reconstruct import RegularizedPtychographicOperator as Op

    dtype = np.dtype(case["dtype"])
    win = tuple(case["window"])
    oshape = tuple(case["objects_shape"])
    objects = _field(case["object_kind"], oshape, case["object_seed"], dtype)
    probes = _field(case["probe_kind"], win, case["probe_seed"], dtype)
    position = np.array(case["position"], float)
    ctx.label("wraps", _wraps(case))
    ctx.label("fix_probe", case["fix_probe"])
    ctx.label(case["dtype"])
    ctx.nontrivial()

    roi = _roi(objects, position, win).astype(np.complex128)
    p = probes.astype(np.complex128)
    psi = roi * p
    modified = gen.rand_complex(win, case["modified_seed"], np.complex128) * max(float(np.abs(psi).max()), 1e-3)
    amp = np.abs(np.fft.fft2(modified))
    d = modified - psi
    a, b = case["alpha"], case["beta"]
    exp_roi = roi + case["object_step_size"] * np.conj(p) * d / ((1 - a) * np.abs(p) ** 2 + a * (np.abs(p) ** 2).max())
    if case["fix_probe"]:
        exp_probes = p
    else:
        exp_probes = p + case["probe_step_size"] * np.conj(roi) * d / ((1 - b) * np.abs(roi) ** 2 + b * (np.abs(roi) ** 2).max())
    mask = _roi_mask(oshape, position, win)

    objects_before = objects.copy()
    new_objects, new_probes, new_position = Op._update_function(
        objects, probes.copy(), position.copy(), psi, modified, amp,
        fix_probe=case["fix_probe"], position_correction=None, sobel=None,
        reconstruction_parameters={k: case[k] for k in ("alpha", "beta", "object_step_size", "probe_step_size")}, xp=np,
    )
    new_objects = np.asarray(new_objects)
    new_probes = np.asarray(new_probes)
    if new_objects.shape != oshape or new_probes.shape != win:
        raise Violation(f"shapes changed: {new_objects.shape} {new_probes.shape}", ("update", "shape"))
    if not np.array_equal(new_objects[~mask], objects_before[~mask]):
        raise Violation(f"object pixels outside the probe window were modified for {case}", ("update", "outside_window"))
    tol = 1e-12 if dtype == np.complex128 else 2e-6
    got_roi = _roi(new_objects, position, win).astype(np.complex128)
    s = max(float(np.abs(exp_roi).max()), float(np.abs(roi).max()))
    e = float(np.abs(got_roi - exp_roi).max())
    if not e <= tol * s:
        raise Violation(f"object update differs from the documented formula by {e / s:.2e} (relative) for {case}", ("update", "objects"))
    s = max(float(np.abs(exp_probes).max()), float(np.abs(p).max()))
    e = float(np.abs(new_probes.astype(np.complex128) - exp_probes).max())
    if not e <= tol * s:
        raise Violation(
            f"probe update differs from the documented formula by {e / s:.2e} (relative) for {case}",
            ("update", "probes", "fix_probe" if case["fix_probe"] else "free"),
        )
    if not np.array_equal(np.asarray(new_position, float), position):
        raise Violation(f"position changed without position correction: {position} -> {new_position}", ("update", "position"))


# ======================================================================= claim 4
@st.composite
def positions_case(draw):
    mode = draw(st.sampled_from(["list", "list", "list", "raster"]))
    coord = st.sampled_from([0.0, 1.0, 2.5, -3.0]) | gen.floats(-20, 20).map(lambda v: round(v, 3))
    case = {
        "mode": mode,
        "sampling": [draw(st.sampled_from([0.1, 0.25, 0.5])), draw(st.sampled_from([0.1, 0.2, 0.5]))],
        "roi": [draw(st.integers(4, 32)), draw(st.integers(4, 32))],
        "rotation": draw(st.none() | st.sampled_from([0.0, 0.3, -1.2, 1.5707963267948966]) | gen.floats(-3.14, 3.14).map(lambda v: round(v, 4))),
        "padding": draw(st.none() | st.tuples(st.integers(0, 20), st.integers(0, 20)).map(list)),
        # what a 4D measurement leaves in the parameters; must be ignored for explicit positions
        "stale_grid": draw(st.none() | st.tuples(st.integers(1, 4), st.integers(1, 4)).map(list)),
        "stale_steps": draw(st.none() | st.just([0.3, 0.7])),
    }
    if mode == "list":
        j = draw(st.integers(1, 12))
        case["positions"] = [[draw(coord), draw(coord)] for _ in range(j)]
    else:
        case["grid"] = [draw(st.integers(1, 4)), draw(st.integers(1, 4))]
        case["steps"] = [round(draw(gen.floats(0.05, 3.0)), 3), round(draw(gen.floats(0.05, 3.0)), 3)]
    return case


def _params(case, grid, steps):
    return {
        "grid_scan_shape": None if grid is None else tuple(grid),
        "scan_step_sizes": None if steps is None else tuple(steps),
        "rotation_angle": case["rotation"],
        "object_px_padding": None if case["padding"] is None else tuple(case["padding"]),
        "angular_sampling": (1.0, 1.0),
        "background_counts_cutoff": None,
        "counts_scaling_factor": None,
    }


@claim(
    "C28",
    "scan_positions",
    positions_case,
    quick=1500,
    thorough=30000,
    tol="f64 1e-9 px absolute",
    rule="J >= 2 explicit positions with at least two distinct x coordinates",
    nontrivial_floor=0.3,
)
def check_scan_positions(case, ctx):
    from abtem.reconstruct import RegularizedPtychographicOperator as Op

    sampling = tuple(case["sampling"])
    roi = tuple(case["roi"])
    if case["mode"] == "raster":
        nx, ny = case["grid"]
        sx, sy = case["steps"]
        positions = np.array([[i * sx, j * sy] for i in range(nx) for j in range(ny)], float)
    else:
        positions = np.array(case["positions"], float).reshape(-1, 2)
    J = len(positions)
    ctx.label(case["mode"])
    ctx.label("rotated", bool(case["rotation"]))
    ctx.label("J=1", J == 1)
    ctx.nontrivial(J >= 2 and len(set(positions[:, 0].tolist())) >= 2)

    before = positions.copy()
    out, params = Op._calculate_scan_positions_in_pixels(positions, sampling, roi, _params(case, case["stale_grid"], case["stale_steps"]))
    out = np.asarray(out)
    if not np.array_equal(positions, before):
        raise Violation("input positions were modified", ("positions", "input_modified"))
    if out.shape != (J, 2):
        raise Violation(
            f"{J} explicit positions became an array of shape {out.shape}", ("positions", "count")
        )
    # same order: every pairwise difference equals R(theta) . (dr / sampling); the sense of
    # the rotation (x' = x cos + y sin, y' = -x sin + y cos, in pixel units) is that of the
    # documented raster construction, which is cross-checked below ("raster_equivalence")
    th = case["rotation"] or 0.0
    px = positions / np.array(sampling)
    rot = np.stack([px[:, 0] * np.cos(th) + px[:, 1] * np.sin(th), -px[:, 0] * np.sin(th) + px[:, 1] * np.cos(th)], axis=1)
    got_d = out[:, None, :] - out[None, :, :]
    exp_d = rot[:, None, :] - rot[None, :, :]
    e = float(np.abs(got_d - exp_d).max())
    if not e <= 1e-9 * max(1.0, float(np.abs(exp_d).max())):
        raise Violation(
            f"pairwise differences of the pixel positions are off by {e:.3e} px: order/geometry not preserved for {case}",
            ("positions", "order"),
        )
    pad = np.array(roi) / 2 if case["padding"] is None else np.array(case["padding"], float)
    if not np.allclose(np.asarray(params["object_px_padding"], float), pad, rtol=0, atol=0):
        raise Violation(f"returned object_px_padding {params['object_px_padding']} != {pad}", ("positions", "padding"))
    if case["mode"] == "raster":
        # the documented raster construction of the same points gives the same pixel positions
        ref, _ = Op._calculate_scan_positions_in_pixels(None, sampling, roi, _params(case, case["grid"], case["steps"]))
        ref = np.asarray(ref)
        if ref.shape != out.shape or not float(np.abs(ref - out).max()) <= 1e-9:
            raise Violation(
                f"explicit list of the raster points differs from the raster construction: {ref.shape} vs {out.shape}",
                ("positions", "raster_equivalence"),
            )


# ======================================================================= claim 5 (added after seeded/C28-2)
@st.composite
def half_pixel_case(draw):
    win = [draw(st.integers(6, 14)), draw(st.integers(6, 14))]
    obj = [win[0] + draw(st.sampled_from([4, 6, 9])), win[1] + draw(st.sampled_from([4, 5, 10]))]
    pos = []
    for p in obj:
        k = draw(st.integers(0, p - 1))
        pos.append(k + draw(st.sampled_from([0.5, 0.5, 0.25, 0.0, -0.5])))
    return {
        "window": win,
        "objects_shape": obj,
        "object_seed": draw(gen.seeds()),
        "probe_seed": draw(gen.seeds()),
        "position": pos,
        "old_integer": [draw(st.integers(0, obj[0] - 1)), draw(st.integers(0, obj[1] - 1))],
    }


@claim(
    "C28",
    "window_and_subpixel_shift_consistent",
    half_pixel_case,
    quick=1200,
    thorough=24000,
    tol="window centre + measured probe shift == position within 1e-6 pixel",
    rule="a coordinate with fractional part exactly one half (tie of the rounding convention)",
    nontrivial_floor=0.4,
)
def check_half_pixel(case, ctx):
    """Convention-free consistency at rounding ties: moving the probe from an integer pixel
    to ``position`` shifts the probe array by s and cuts the object window around some
    pixel c; whatever rounding convention is used, the probe must end up at the requested
    position, i.e. c + s == position on every axis (otherwise the true object and probe
    are not a fixed point for an independently simulated pattern)."""
    from abtem.reconstruct import RegularizedPtychographicOperator as Op

    win = tuple(case["window"])
    objects = _field("random", tuple(case["objects_shape"]), case["object_seed"], np.complex128)
    probes0 = _field("blob", win, case["probe_seed"], np.complex128)
    position = np.array(case["position"], float)
    old = np.array(case["old_integer"], float)
    ties = [abs(p - np.floor(p) - 0.5) < 1e-12 for p in position]
    ctx.nontrivial(any(ties))
    ctx.label("tie_even" if any(t and int(np.floor(p)) % 2 == 0 for t, p in zip(ties, position)) else ("tie_odd" if any(ties) else "no_tie"))
    probes, psi = Op._overlap_projection(objects, probes0.copy(), position, old, xp=np)
    probes, psi = np.asarray(probes, np.complex128), np.asarray(psi, np.complex128)
    # measured sub-pixel shift of the probe array (first harmonic of each axis)
    f0, f1 = np.fft.fft2(probes0), np.fft.fft2(probes)
    s = []
    for ax, n in enumerate(win):
        idx = (1, 0) if ax == 0 else (0, 1)
        if abs(f0[idx]) < 1e-6 * np.abs(f0).max():
            ctx.skip()
            return
        s.append(-np.angle(f1[idx] / f0[idx]) * n / (2 * np.pi))
    # window centre actually used: the candidate whose periodic window reproduces psi
    scale = float(np.abs(psi).max())
    found = None
    for cx in {int(np.floor(position[0])), int(np.ceil(position[0]))}:
        for cy in {int(np.floor(position[1])), int(np.ceil(position[1]))}:
            ref = _roi(objects, [cx, cy], win) * probes
            if float(np.abs(psi - ref).max()) <= 1e-9 * max(scale, 1e-300):
                found = (cx, cy)
    if found is None:
        raise Violation(f"exit wave is O_roi*P for no window centred within half a pixel of {case['position']}", ("half_pixel", "no_window"))
    for ax in range(2):
        if abs(found[ax] + s[ax] - position[ax]) > 1e-6:
            raise Violation(
                f"axis {ax}: window centred on pixel {found[ax]} but the probe was shifted by {s[ax]:+.4f} px: "
                f"the probe sits at {found[ax] + s[ax]:.4f}, requested {position[ax]} (old position {case['old_integer']})",
                ("half_pixel", "inconsistent", "tie" if ties[ax] else "no_tie"),
            )
