"""C14 Diffraction pattern geometry is self-consistent
(abtem/waves.py: Waves.diffraction_patterns / _diffraction_pattern / _gpts_within_angle /
_ensure_parity_of_gpts; abtem/core/fft.py: fft_crop / fft_interpolation_masks;
abtem/measurements.py: DiffractionPatterns.block_direct / bandlimit / limits / coordinates /
angular_coordinates).

Index conventions used by the oracles (independent of abTEM): a pattern with fftshift=True
has the zero frequency at index n // 2 of each axis, frequency index of pixel i is
i - n // 2; a pattern with fftshift=False is in numpy.fft.fftfreq order.  The centred crop
of a shifted n-pattern to m <= n pixels is the index window [n//2 - m//2, n//2 - m//2 + m).

Claims
  crop     : Waves.diffraction_patterns(max_angle, parity, fftshift, return_complex, block_direct)
             on random waves: (a) the pattern equals the centred window of |FFT2 psi|^2 (NumPy,
             float64; 1e-5) and, bit for bit, of abTEM's own "full" pattern; (b) the
             fftshift=False pattern is ifftshift of the fftshift=True one (exact); (c) parity of
             angle-limited patterns, size for a float max_angle; (d) sampling / limits /
             coordinates of the returned pattern describe exactly that window; block_direct=r
             equals the oracle of claim `block` applied to the unblocked pattern.
  block    : directly constructed DiffractionPatterns: block_direct(radius, margin) zeroes the
             pixels with alpha <= r_eff and leaves every other pixel bit-identical
             (r_eff = radius + [margin] * max(angular sampling); radius defaults to
             semiangle_cutoff from the metadata, else 1.0001 * max(angular sampling); margin
             defaults to True iff semiangle_cutoff is in the metadata);
             bandlimit(inner, outer) keeps exactly inner < alpha < outer.
             Pixels within 8*eps32 (relative) of a radius are skipped and counted.
"""

from __future__ import annotations

import numpy as np
from hypothesis import strategies as st

from pbt import gen, tol
from pbt.core import Violation, claim

_H = 6.62607015e-34
_C = 299792458.0
_E = 1.602176634e-19
_M = 9.1093837015e-31


def wavelength_angstrom(energy_ev: float) -> float:
    ev = energy_ev * _E
    return _H * _C / np.sqrt(ev * (2 * _M * _C**2 + ev)) * 1e10


def _freq_index(n, fftshift):
    """Integer frequency index of every pixel of an axis with n pixels."""
    if fftshift:
        return np.arange(n) - n // 2
    return np.rint(np.fft.fftfreq(n) * n).astype(int)


def _window(n, m):
    return slice(n // 2 - m // 2, n // 2 - m // 2 + m)


def _alpha_grid(shape, angular_sampling, fftshift):
    ax = _freq_index(shape[0], fftshift) * angular_sampling[0]
    ay = _freq_index(shape[1], fftshift) * angular_sampling[1]
    return np.sqrt(ax[:, None] ** 2 + ay[None, :] ** 2)


def _check_blocked(got, original, alpha, inner, outer, ctx, what, bucket_tail):
    """got must be `original` where inner < alpha < outer and 0 elsewhere; pixels on an edge
    (within float32 resolution of the library's float32 coordinates) are skipped."""
    band = 8 * tol.EPS32
    near = np.abs(alpha - inner) <= band * max(inner, 1e-30)
    keep = alpha > inner
    if np.isfinite(outer):
        near |= np.abs(alpha - outer) <= band * outer
        keep &= alpha < outer
    ctx.skip(int(near.sum()) * int(np.prod(got.shape[:-2], dtype=int)))
    decided = ~near
    g = got[..., decided]
    o = original[..., decided]
    k = np.broadcast_to(keep[decided], g.shape)
    bad_zero = (~k) & (g != 0)
    bad_keep = k & ~((g == o) | (np.isnan(g) & np.isnan(o)))
    if bad_zero.any():
        raise Violation(f"{what}: {int(bad_zero.sum())} pixels outside ({inner}, {outer}) mrad are not zero",
                        ("block", "not_zeroed") + bucket_tail)
    if bad_keep.any():
        raise Violation(f"{what}: {int(bad_keep.sum())} pixels inside ({inner}, {outer}) mrad were changed",
                        ("block", "changed") + bucket_tail)
    return int((~keep & decided).sum()), int((keep & decided).sum())


# ----------------------------------------------------------------------- generators
@st.composite
def ensemble_layout(draw):
    n_axes = draw(st.sampled_from([0, 0, 1, 1, 2]))
    shape = [draw(st.integers(1, 3)) for _ in range(n_axes)]
    kinds = [draw(st.sampled_from(["scan", "ordinal"])) for _ in range(n_axes)]
    lazy = draw(st.sampled_from([False, False, True]))
    chunks = [draw(gen.partition(n, 2)) for n in shape] if lazy else None
    return {"shape": shape, "kinds": kinds, "lazy": lazy, "chunks": chunks}


def _axes(layout):
    from abtem.core.axes import OrdinalAxis, ScanAxis

    out = []
    for i, (n, kind) in enumerate(zip(layout["shape"], layout["kinds"])):
        if kind == "scan":
            out.append(ScanAxis(label="xy"[i % 2], sampling=0.3, units="Å"))
        else:
            out.append(OrdinalAxis(label=f"member{i}", values=tuple(range(n))))
    return out


def _maybe_lazy(array, layout):
    if not layout["lazy"]:
        return array
    import dask.array as da

    ch = tuple([tuple(c) for c in layout["chunks"]] + [(n,) for n in array.shape[-2:]])
    return da.from_array(array, chunks=ch)


@st.composite
def crop_case(draw):
    sampling = [round(draw(gen.floats(0.05, 0.4)), 3), round(draw(gen.floats(0.05, 0.4)), 3)]
    # Physical grids only: each extent is at least 3.2 x the coarser sampling, so that the antialias cutoff
    # (2/3 of the Nyquist frequency of the coarser axis) contains at least two reciprocal-space pixels per
    # axis.  (On thinner cells 'cutoff'/'valid' ask for 0 pixels and fft_crop raises; not part of C14.)
    lo = [max(6, int(np.ceil(3.2 * max(sampling) / d))) for d in sampling]
    gpts = [draw(st.integers(lo[0], 40)), draw(st.integers(lo[1], 40))]
    kind = draw(st.sampled_from(["float", "float", "float", "cutoff", "valid", "full", "none", "float_outside"]))
    frac = None
    if kind == "float":
        frac = round(draw(gen.floats(0.03, 0.98)), 4)  # fraction of the smaller full-grid angle
    elif kind == "float_outside":
        frac = round(draw(gen.floats(1.02, 1.8)), 4)
    return {
        "gpts": gpts,
        "sampling": sampling,
        "energy": draw(gen.energies()),
        "layout": draw(ensemble_layout()),
        "seed": draw(gen.seeds()),
        "max_angle": kind,
        "frac": frac,
        "parity": draw(st.sampled_from(["same", "odd", "even"])),
        "fftshift": draw(st.booleans()),
        "return_complex": draw(st.sampled_from([False, False, True])),
        "normalization": draw(st.sampled_from([None, None, "values", "reciprocal_space"])),
        "block_frac": draw(st.sampled_from([None, None, 0.15, 0.4, 0.8])),
    }


# ----------------------------------------------------------------------- crop claim
@claim(
    "C14",
    "crop",
    crop_case,
    quick=700,
    thorough=14000,
    tol="exact vs abTEM's own full pattern / shifted pattern; 1e-5 of max vs NumPy float64 FFT; metadata 1e-12",
    rule="cropped shape != full shape",
    nontrivial_floor=0.4,
    floors={"unshifted": 0.25, "odd_side": 0.3, "even_side": 0.3},
)
def check_crop(case, ctx):
    from abtem.waves import Waves

    n = tuple(case["gpts"])
    layout = case["layout"]
    ens = tuple(layout["shape"])
    psi = gen.rand_complex(ens + n, case["seed"])
    metadata = {"normalization": case["normalization"]} if case["normalization"] else {}
    waves = Waves(
        _maybe_lazy(psi, layout),
        energy=case["energy"],
        sampling=tuple(case["sampling"]),
        ensemble_axes_metadata=_axes(layout),
        metadata=metadata,
    )
    lam = wavelength_angstrom(case["energy"])
    dk = tuple(1.0 / (n[i] * case["sampling"][i]) for i in range(2))
    dalpha = tuple(dk[i] * lam * 1e3 for i in range(2))
    full_angle = min((n[i] // 2) * dalpha[i] for i in range(2))

    kind = case["max_angle"]
    if kind in ("float", "float_outside"):
        max_angle = case["frac"] * full_angle
    elif kind == "none":
        max_angle = None
    else:
        max_angle = kind
    ctx.label(f"max_angle={kind}")
    ctx.label(f"parity={case['parity']}")
    ctx.label("shifted" if case["fftshift"] else "unshifted")
    ctx.label("complex", case["return_complex"])
    ctx.label("lazy", layout["lazy"])
    ctx.label(f"ensemble{len(ens)}")

    def compute(m):
        return np.asarray(m.compute().array if m.is_lazy else m.array)

    kw = dict(parity=case["parity"], return_complex=case["return_complex"])
    dp = waves.diffraction_patterns(max_angle=max_angle, fftshift=case["fftshift"], **kw)
    got = compute(dp)
    m = got.shape[-2:]
    if got.shape[:-2] != ens:
        raise Violation(f"ensemble shape {got.shape[:-2]} != {ens}", ("crop", "ensemble_shape"))
    if min(m) < 1:
        raise Violation(f"max_angle={max_angle!r} parity={case['parity']!r} on grid {n}: empty pattern {m}", ("crop", "empty"))
    if dp.fftshift != case["fftshift"]:
        raise Violation(f"fftshift flag {dp.fftshift} != requested {case['fftshift']}", ("crop", "flag"))
    ctx.label("odd_side", any(x % 2 for x in m))
    ctx.label("even_side", any(x % 2 == 0 for x in m))
    ctx.nontrivial(m != n)
    padded = any(m[i] > n[i] for i in range(2))
    ctx.label("padded", padded)

    # (c) parity and size
    if kind in ("float", "float_outside", "cutoff", "valid"):
        for i in range(2):
            want_even = {"odd": False, "even": True, "same": n[i] % 2 == 0}[case["parity"]]
            if (m[i] % 2 == 0) != want_even:
                raise Violation(
                    f"max_angle={max_angle!r} parity={case['parity']!r} on grid {n}: pattern shape {m} has the wrong "
                    f"parity along axis {i}", ("parity", kind.split("_")[0], case["parity"]))
    else:
        if m != n:
            raise Violation(f"max_angle={max_angle!r} changed the shape {n} -> {m}", ("full_shape",))
    if kind in ("float", "float_outside"):
        for i in range(2):
            q = max_angle / dalpha[i]
            if abs(q - round(q)) < 1e-6:
                ctx.skip()
                continue
            if (m[i] - 1) // 2 != int(np.ceil(q)):
                raise Violation(
                    f"max_angle={max_angle} mrad with angular sampling {dalpha[i]:.6g}: axis {i} has {m[i]} pixels, "
                    f"expected 2*{int(np.ceil(q))}+1 (+1 for parity)", ("size", "float"))

    # (a) values: centred window of the full pattern
    shifted = compute(waves.diffraction_patterns(max_angle=max_angle, fftshift=True, **kw)) if not case["fftshift"] else got
    full_abtem = compute(waves.diffraction_patterns(max_angle="full", fftshift=True, **kw))
    psi64 = psi.astype(np.complex128)
    if case["normalization"] == "values":
        psi64 = psi64 / (n[0] * n[1])
    full_np = np.fft.fftshift(np.fft.fft2(psi64), axes=(-2, -1))
    if not case["return_complex"]:
        full_np = np.abs(full_np) ** 2
    if full_abtem.shape[-2:] != n or not tol.close(full_abtem, full_np, rtol=1e-5):
        raise Violation(f"'full' pattern differs from NumPy's FFT by {tol.rel_err(full_abtem, full_np):.3g}",
                        ("full_vs_numpy",))
    if not padded:
        win = (Ellipsis, _window(n[0], m[0]), _window(n[1], m[1]))
        if not np.array_equal(shifted, full_abtem[win]):
            raise Violation(
                f"pattern {m} (max_angle={max_angle!r}, parity={case['parity']!r}) of grid {n} is not the centred crop "
                f"of the full pattern: rel. error {tol.rel_err(shifted, full_abtem[win]):.3g}",
                ("crop", "values", "odd" if any(x % 2 for x in m) else "even"))
        if not tol.close(shifted, full_np[win], rtol=1e-5, atol=1e-5 * tol.scale(full_np)):
            raise Violation(f"cropped pattern differs from NumPy window by {tol.rel_err(shifted, full_np[win]):.3g}",
                            ("crop", "vs_numpy"))
    elif all(m[i] >= n[i] for i in range(2)):
        # the pattern is larger than the grid: the full pattern must be its centred window and the rest empty
        win = (Ellipsis, _window(m[0], n[0]), _window(m[1], n[1]))
        rest = np.ones(m, dtype=bool)
        rest[win[1:]] = False
        if not np.array_equal(shifted[win], full_abtem) or np.any(shifted[..., rest] != 0):
            raise Violation(f"padded pattern {m} of grid {n} does not contain the full pattern centred in zeros",
                            ("crop", "padded"))

    # (b) unshifted == ifftshift(shifted)
    if not case["fftshift"]:
        if not np.array_equal(got, np.fft.ifftshift(shifted, axes=(-2, -1))):
            raise Violation(
                f"fftshift=False pattern {m} is not the inverse shift of the fftshift=True pattern",
                ("unshifted", "values", "odd" if any(x % 2 for x in m) else "even"))

    # (d) the geometry the pattern reports
    for i in range(2):
        if abs(dp.sampling[i] - dk[i]) > 1e-9 * dk[i]:
            raise Violation(f"sampling {dp.sampling} != 1/extent {dk}", ("geometry", "sampling"))
        lo, hi = dp.limits[i]
        if abs(lo + (m[i] // 2) * dk[i]) > 1e-9 * dk[i] * m[i] or abs(hi - ((m[i] - 1) // 2) * dk[i]) > 1e-9 * dk[i] * m[i]:
            raise Violation(f"limits {dp.limits[i]} of axis {i} ({m[i]} px, dk={dk[i]:.6g})", ("geometry", "limits"))
    for name, factor, rtol in (("coordinates", 1.0, 1e-9), ("angular_coordinates", lam * 1e3, 1e-5)):
        coords = getattr(dp, name)
        for i in range(2):
            ref = _freq_index(m[i], case["fftshift"]) * dk[i] * factor
            c = np.asarray(coords[i], dtype=np.float64)
            if c.shape != ref.shape or np.abs(c - ref).max() > rtol * np.abs(ref).max() + 1e-12:
                raise Violation(
                    f"{name}[{i}] of a fftshift={case['fftshift']} pattern with {m[i]} pixels: {c.tolist()} != "
                    f"{ref.tolist()}",
                    (name, "shifted" if case["fftshift"] else "unshifted", "odd" if m[i] % 2 else "even"))

    # block_direct passed through diffraction_patterns
    if case["block_frac"] is not None and not case["return_complex"]:
        r = case["block_frac"] * min((m[i] // 2) * dalpha[i] for i in range(2))
        blocked = compute(waves.diffraction_patterns(max_angle=max_angle, fftshift=case["fftshift"], block_direct=r, **kw))
        alpha = _alpha_grid(m, dalpha, case["fftshift"])
        nz, nk = _check_blocked(blocked, got, alpha, r, np.inf, ctx, f"diffraction_patterns(block_direct={r})",
                                ("shifted" if case["fftshift"] else "unshifted", "odd" if any(x % 2 for x in m) else "even"))
        ctx.label("block_direct")
        ctx.label("block_direct_nontrivial", nz > 1 and nk > 0)


# ----------------------------------------------------------------------- block claim
@st.composite
def block_case(draw):
    gpts = [draw(st.integers(3, 32)), draw(st.integers(3, 32))]
    mode = draw(st.sampled_from(["block_direct", "block_direct", "bandlimit"]))
    case = {
        "gpts": gpts,
        "sampling": [round(draw(gen.floats(0.01, 0.2)), 4), round(draw(gen.floats(0.01, 0.2)), 4)],
        "energy": draw(gen.energies()),
        "fftshift": draw(st.booleans()),
        "layout": draw(ensemble_layout()),
        "seed": draw(gen.seeds()),
        "mode": mode,
        "cutoff_frac": draw(st.sampled_from([None, None, 0.2, 0.5])),  # semiangle_cutoff metadata
    }
    if mode == "block_direct":
        case["radius_frac"] = draw(st.none() | gen.floats(0.02, 1.2).map(lambda x: round(x, 4)))
        case["margin"] = draw(st.sampled_from([None, None, True, False]))
    else:
        a = round(draw(gen.floats(0.0, 1.0)), 4)
        b = round(draw(gen.floats(0.0, 1.5)), 4)
        case["inner_frac"] = min(a, b)
        case["outer_frac"] = None if draw(st.booleans()) else max(a, b)
    return case


@claim(
    "C14",
    "block",
    block_case,
    quick=900,
    thorough=18000,
    tol="exact (bit-identical kept pixels, exact zeros); pixels within 8*eps32 of a radius skipped",
    rule="at least one but not all pixels are zeroed",
    nontrivial_floor=0.5,
    floors={"unshifted": 0.25, "odd_side": 0.3},
)
def check_block(case, ctx):
    from abtem.measurements import DiffractionPatterns

    n = tuple(case["gpts"])
    layout = case["layout"]
    ens = tuple(layout["shape"])
    array = gen.rand_real(ens + n, case["seed"], positive=True) + np.float32(0.5)  # strictly positive
    lam = wavelength_angstrom(case["energy"])
    dalpha = tuple(case["sampling"][i] * lam * 1e3 for i in range(2))
    amax = min((n[i] // 2) * dalpha[i] for i in range(2))
    metadata = {"energy": case["energy"]}
    if case["cutoff_frac"] is not None:
        metadata["semiangle_cutoff"] = case["cutoff_frac"] * amax
    dp = DiffractionPatterns(
        _maybe_lazy(array, layout),
        sampling=tuple(case["sampling"]),
        fftshift=case["fftshift"],
        ensemble_axes_metadata=_axes(layout),
        metadata=metadata,
    )
    alpha = _alpha_grid(n, dalpha, case["fftshift"])
    ctx.label("shifted" if case["fftshift"] else "unshifted")
    ctx.label("odd_side", any(x % 2 for x in n))
    ctx.label("lazy", layout["lazy"])
    ctx.label(case["mode"])
    tail = ("shifted" if case["fftshift"] else "unshifted", "odd" if any(x % 2 for x in n) else "even")

    if case["mode"] == "block_direct":
        radius = None if case["radius_frac"] is None else case["radius_frac"] * amax
        out = dp.block_direct(radius=radius, margin=case["margin"])
        has_cutoff = "semiangle_cutoff" in metadata
        r = radius if radius is not None else (metadata["semiangle_cutoff"] if has_cutoff else max(dalpha) * 1.0001)
        margin = case["margin"] if case["margin"] is not None else has_cutoff
        inner, outer = r + (max(dalpha) if margin else 0.0), np.inf
        ctx.label("radius_default", radius is None)
        ctx.label("margin", bool(margin))
        what = f"block_direct(radius={radius}, margin={case['margin']}) [r_eff={inner:.6g} mrad] on {n} fftshift={case['fftshift']}"
    else:
        inner = case["inner_frac"] * amax
        outer = np.inf if case["outer_frac"] is None else case["outer_frac"] * amax
        out = dp.bandlimit(inner, outer)
        ctx.label("outer_finite", np.isfinite(outer))
        what = f"bandlimit({inner:.6g}, {outer:.6g}) on {n} fftshift={case['fftshift']}"

    if type(out) is not DiffractionPatterns or out.fftshift != case["fftshift"] or tuple(out.sampling) != tuple(dp.sampling):
        raise Violation(f"{what}: result type/fftshift/sampling changed", ("block", "container"))
    got = np.asarray(out.compute().array if out.is_lazy else out.array)
    if got.shape != array.shape:
        raise Violation(f"{what}: shape {got.shape} != {array.shape}", ("block", "shape"))
    # count before comparing so that non-triviality is recorded for failing cases as well
    keep = (alpha > inner) & (alpha < outer)
    ctx.nontrivial(bool(keep.any() and not keep.all()))
    _check_blocked(got, array, alpha, inner, outer, ctx, what, tail)
