"""C16 Measurement resampling and source-size filtering conserve what they promise
(abtem/measurements.py: DiffractionPatterns.interpolate / _batch_interpolate_bilinear /
_diffraction_pattern_resampling_gpts; Images.interpolate; _gaussian_source_size;
_BaseMeasurement2D.gaussian_filter).

Claims
  dp_interpolate      : DiffractionPatterns.interpolate(sampling='uniform' | float, or gpts=(m, n))
                        keeps the sum over the pixels of every pattern (float64 NumPy sums of input
                        and output; 1e-5 relative), eagerly and lazily.
  images_interpolate  : Images.interpolate(method='fft') to the same grid returns the input
                        (1e-5 of max|x|); to any other grid (gpts or sampling, up / down / mixed)
                        it keeps the mean of every image (4e-6 of max|x|); real and complex.
  source_size         : 4-D scanned data D: integrate(gaussian_source_size(D, sigma)) ==
                        gaussian_filter(integrate(D), sigma) as documented.  Both abTEM paths
                        (A: source size first; B: integrate first, then Images.gaussian_filter)
                        are compared with an independent reference: the eagerly integrated image
                        filtered by scipy.ndimage.gaussian_filter(sigma / scan sampling,
                        mode='wrap') in float64.  Integration = DiffractionPatterns.integrate_radial
                        or PolarMeasurements.integrate after polar_binning.  Eager and lazy with
                        the scan axes split into 1-3 chunks.
"""

from __future__ import annotations

import numpy as np
from hypothesis import strategies as st

from pbt import gen, tol
from pbt.core import Violation, claim


# ----------------------------------------------------------------------- shared
@st.composite
def ensemble_layout(draw, n_scan=None, lengths=None, lazy_choices=(False, False, True)):
    if n_scan is None:
        n_scan = draw(st.sampled_from([0, 1, 2, 2]))
    extra = draw(st.sampled_from([0, 0, 2]))
    scan_shape = [draw(lengths if lengths is not None else st.integers(1, 3)) for _ in range(n_scan)]
    scan_sampling = [draw(st.sampled_from([0.2, 0.3, 0.5])) for _ in range(n_scan)]
    lazy = draw(st.sampled_from(list(lazy_choices)))
    chunks = [draw(gen.partition(n, 3)) for n in scan_shape] if lazy else None
    return {"extra": extra, "scan_shape": scan_shape, "scan_sampling": scan_sampling, "lazy": lazy, "chunks": chunks}


def _ens_shape(layout):
    return tuple(([layout["extra"]] if layout["extra"] else []) + layout["scan_shape"])


def _axes(layout):
    from abtem.core.axes import OrdinalAxis, ScanAxis

    axes = []
    if layout["extra"]:
        axes.append(OrdinalAxis(label="member", values=tuple(range(layout["extra"]))))
    axes += [ScanAxis(label="xy"[i % 2], sampling=s, units="Å") for i, s in enumerate(layout["scan_sampling"])]
    return axes


def _maybe_lazy(array, layout):
    if not layout["lazy"]:
        return array
    import dask.array as da

    ch = tuple(
        ([(layout["extra"],)] if layout["extra"] else [])
        + [tuple(c) for c in layout["chunks"]]
        + [(n,) for n in array.shape[-2:]]
    )
    return da.from_array(array, chunks=ch)


def _computed(m):
    return np.asarray(m.compute().array if m.is_lazy else m.array)


def _n_scan_chunks(layout):
    return max([len(c) for c in layout["chunks"]], default=1) if layout["lazy"] else 1


# ----------------------------------------------------------------------- DiffractionPatterns.interpolate
@st.composite
def dp_interpolate_case(draw):
    gpts = [draw(st.integers(4, 32)), draw(st.integers(4, 32))]
    sampling = [round(draw(gen.floats(0.01, 0.1)), 4), round(draw(gen.floats(0.01, 0.1)), 4)]
    mode = draw(st.sampled_from(["uniform", "float", "float", "gpts", "gpts"]))
    target = None
    if mode == "float":
        # finer or coarser than the input, at most 2.5x coarser than the coarser axis
        target = round(draw(gen.floats(0.4, 2.5)) * draw(st.sampled_from(sampling)), 5)
    elif mode == "gpts":
        target = [draw(st.integers(3, 40)), draw(st.integers(3, 40))]
    return {
        "gpts": gpts,
        "sampling": sampling,
        "fftshift": draw(st.sampled_from([True, True, False])),
        "layout": draw(ensemble_layout()),
        "data": draw(st.sampled_from(["dense", "spots"])),
        "seed": draw(gen.seeds()),
        "mode": mode,
        "target": target,
    }


def _pattern_data(case):
    shape = _ens_shape(case["layout"]) + tuple(case["gpts"])
    rng = np.random.default_rng(case["seed"])
    if case["data"] == "dense":
        a = rng.random(shape) + 0.05
    else:
        # a few bright spots on a weak positive background
        a = np.full(shape, 1e-3) + (rng.random(shape) > 0.93) * rng.random(shape) * 10.0
    return a.astype(np.float32)


@claim(
    "C16",
    "dp_interpolate",
    dp_interpolate_case,
    quick=500,
    thorough=10000,
    tol="1e-5 relative per pattern sum (observed 3e-7)",
    rule="target grid != source grid",
    nontrivial_floor=0.5,
    floors={"mode=gpts": 0.2, "mode=float": 0.2, "mode=uniform": 0.1},
)
def check_dp_interpolate(case, ctx):
    from abtem.measurements import DiffractionPatterns

    layout = case["layout"]
    array = _pattern_data(case)
    dp = DiffractionPatterns(
        _maybe_lazy(array, layout),
        sampling=tuple(case["sampling"]),
        fftshift=case["fftshift"],
        ensemble_axes_metadata=_axes(layout),
        metadata={"energy": 100e3},
    )
    ctx.label(f"mode={case['mode']}")
    ctx.label("lazy", layout["lazy"])
    ctx.label("lazy_chunked_scan", _n_scan_chunks(layout) >= 2)
    ctx.label(f"scan{len(layout['scan_shape'])}")
    ctx.label(case["data"])
    if case["mode"] == "uniform":
        out = dp.interpolate(sampling="uniform")
    elif case["mode"] == "float":
        out = dp.interpolate(sampling=case["target"])
    else:
        out = dp.interpolate(gpts=tuple(case["target"]))
    if type(out) is not DiffractionPatterns:
        raise Violation(f"interpolate returned {type(out).__name__}", ("dp_interpolate", "type"))
    got = _computed(out)
    ctx.nontrivial(got.shape[-2:] != array.shape[-2:])
    if got.shape[:-2] != array.shape[:-2]:
        raise Violation(f"ensemble shape changed {array.shape[:-2]} -> {got.shape[:-2]}", ("dp_interpolate", "ensemble_shape"))
    if case["mode"] == "gpts" and got.shape[-2:] != tuple(case["target"]):
        raise Violation(f"interpolate(gpts={case['target']}) returned base shape {got.shape[-2:]}", ("dp_interpolate", "gpts"))
    if out.shape != got.shape:
        raise Violation(f"declared shape {out.shape} != computed shape {got.shape}", ("dp_interpolate", "declared_shape"))
    old = array.astype(np.float64).sum((-2, -1))
    new = got.astype(np.float64).sum((-2, -1))
    rel = np.abs(new - old) / old
    if not np.all(np.isfinite(got)) or not np.all(rel <= 1e-5):
        raise Violation(
            f"interpolate({case['mode']}={case['target']}) of {case['gpts']} patterns (sampling {case['sampling']}) -> "
            f"{got.shape[-2:]}: pattern sums change by up to {np.nanmax(rel):.3g} (relative); finite={bool(np.all(np.isfinite(got)))}",
            ("dp_interpolate", "sum", case["mode"], "lazy" if layout["lazy"] else "eager"),
        )


# ----------------------------------------------------------------------- Images.interpolate
@st.composite
def images_interpolate_case(draw):
    gpts = [draw(st.integers(3, 24)), draw(st.integers(3, 24))]
    mode = draw(st.sampled_from(["same", "gpts", "gpts", "gpts", "sampling"]))
    target = None
    if mode == "gpts":
        target = [draw(st.integers(1, 30)), draw(st.integers(1, 30))]
    elif mode == "sampling":
        target = [round(draw(gen.floats(0.03, 0.8)), 3), round(draw(gen.floats(0.03, 0.8)), 3)]
        if draw(st.booleans()):
            target = target[0]
    layout = draw(ensemble_layout(n_scan=0))
    layout["extra"] = draw(st.sampled_from([0, 0, 2, 3]))
    return {
        "gpts": gpts,
        "sampling": [round(draw(gen.floats(0.05, 0.5)), 3), round(draw(gen.floats(0.05, 0.5)), 3)],
        "complex": draw(st.booleans()),
        "layout": layout,
        "seed": draw(gen.seeds()),
        "mode": mode,
        "target": target,
        "offset": draw(st.sampled_from([0.0, 0.0, 3.0, -100.0])),
    }


@claim(
    "C16",
    "images_interpolate",
    images_interpolate_case,
    quick=700,
    thorough=14000,
    tol="identity: 1e-5 of max|x|; mean: 4e-6 of max|x| (observed 5e-8)",
    rule="target grid != source grid",
    nontrivial_floor=0.5,
    floors={"mode=same": 0.08},
)
def check_images_interpolate(case, ctx):
    from abtem.measurements import Images

    layout = case["layout"]
    shape = _ens_shape(layout) + tuple(case["gpts"])
    if case["complex"]:
        array = gen.rand_complex(shape, case["seed"]) + np.complex64(case["offset"])
    else:
        array = gen.rand_real(shape, case["seed"]) + np.float32(case["offset"])
    images = Images(_maybe_lazy(array, layout), sampling=tuple(case["sampling"]), ensemble_axes_metadata=_axes(layout))
    ctx.label(f"mode={case['mode']}")
    ctx.label("complex" if case["complex"] else "real")
    ctx.label("lazy", layout["lazy"])
    if case["mode"] == "same":
        out = images.interpolate(gpts=tuple(case["gpts"]), method="fft")
    elif case["mode"] == "gpts":
        out = images.interpolate(gpts=tuple(case["target"]), method="fft")
    else:
        t = case["target"]
        out = images.interpolate(sampling=tuple(t) if isinstance(t, list) else t, method="fft")
    if type(out) is not Images:
        raise Violation(f"interpolate returned {type(out).__name__}", ("images_interpolate", "type"))
    got = _computed(out)
    new_gpts = got.shape[-2:]
    ctx.nontrivial(new_gpts != tuple(case["gpts"]))
    for i in range(2):
        d = "up" if new_gpts[i] > case["gpts"][i] else "down" if new_gpts[i] < case["gpts"][i] else "same"
        ctx.label(f"axis_{d}")
    if got.shape[:-2] != array.shape[:-2]:
        raise Violation(f"ensemble shape changed {array.shape[:-2]} -> {got.shape[:-2]}", ("images_interpolate", "ensemble_shape"))
    if case["mode"] == "gpts" and new_gpts != tuple(case["target"]):
        raise Violation(f"interpolate(gpts={case['target']}) gave {new_gpts}", ("images_interpolate", "gpts"))
    if np.iscomplexobj(got) != case["complex"]:
        raise Violation(f"dtype {array.dtype} -> {got.dtype}", ("images_interpolate", "dtype"))
    scale = tol.scale(array)
    kind = "complex" if case["complex"] else "real"
    if new_gpts == tuple(case["gpts"]):
        err = tol.max_err(got, array)
        if err > 1e-5 * scale:
            raise Violation(
                f"Fourier interpolation of {case['gpts']} {kind} images to the same grid changes them by {err / scale:.3g} "
                f"of max|x|", ("images_interpolate", "identity", kind))
        return
    old_mean = array.astype(np.complex128).mean((-2, -1))
    new_mean = got.astype(np.complex128).mean((-2, -1))
    err = float(np.abs(new_mean - old_mean).max())
    if err > 4e-6 * scale:
        raise Violation(
            f"Fourier interpolation {case['gpts']} -> {new_gpts} of {kind} images changes the image mean by "
            f"{err / scale:.3g} of max|x| (mode {case['mode']}, target {case['target']})",
            ("images_interpolate", "mean", kind),
        )


# ----------------------------------------------------------------------- source size
@st.composite
def source_size_case(draw):
    # mostly >= 3 scan positions per axis (non-triviality rule), some degenerate 1-2
    lengths = st.sampled_from([1, 2, 3, 3, 4, 4, 5, 5, 6, 7, 8])
    layout = draw(ensemble_layout(n_scan=2, lengths=lengths, lazy_choices=(False, True)))
    sig = [round(draw(gen.floats(0.05, 1.0)), 3), round(draw(gen.floats(0.05, 1.0)), 3)]
    path = draw(st.sampled_from(["radial", "radial", "polar"]))
    a = round(draw(gen.floats(0.0, 1.0)), 3)
    b = round(draw(gen.floats(0.0, 1.0)), 3)
    case = {
        "gpts": [draw(st.integers(4, 12)), draw(st.integers(4, 12))],
        "sampling": [round(draw(gen.floats(0.02, 0.1)), 4), round(draw(gen.floats(0.02, 0.1)), 4)],
        "energy": draw(gen.energies()),
        "fftshift": draw(st.booleans()),
        "layout": layout,
        "seed": draw(gen.seeds()),
        "sigma": sig if draw(st.booleans()) else sig[0],
        "path": path,
        "inner_frac": min(a, b),
        "outer_frac": max(a, b) if max(a, b) > min(a, b) + 0.05 else 1.0,
    }
    if path == "polar":
        case["nbins"] = [draw(st.integers(1, 4)), draw(st.integers(1, 4))]
        case["regions"] = draw(st.none() | st.lists(st.integers(0, case["nbins"][0] * case["nbins"][1] - 1),
                                                    min_size=1, max_size=4, unique=True))
    return case


@claim(
    "C16",
    "source_size",
    source_size_case,
    quick=450,
    thorough=9000,
    tol="1e-5 of max|reference image| (float32 filter and sums; observed 2e-7)",
    rule="sigma >= 0.3 scan pixels on some axis and >= 3 scan positions per axis",
    nontrivial_floor=0.4,
    floors={"lazy_chunked_scan": 0.12, "path=polar": 0.15, "extra_axis": 0.15},
)
def check_source_size(case, ctx):
    from scipy.ndimage import gaussian_filter as scipy_gaussian_filter

    from abtem.measurements import DiffractionPatterns, Images

    layout = case["layout"]
    shape = _ens_shape(layout) + tuple(case["gpts"])
    array = (gen.rand_real(shape, case["seed"], positive=True) + np.float32(0.01)).astype(np.float32)
    meta = {"energy": case["energy"]}

    def patterns(lazy):
        lay = dict(layout, lazy=lazy)
        return DiffractionPatterns(_maybe_lazy(array, lay), sampling=tuple(case["sampling"]), fftshift=case["fftshift"],
                                   ensemble_axes_metadata=_axes(layout), metadata=dict(meta))

    sigma = case["sigma"]
    sigma_arg = tuple(sigma) if isinstance(sigma, list) else sigma
    sig2 = list(sigma) if isinstance(sigma, list) else [sigma, sigma]
    sigma_px = [s / d for s, d in zip(sig2, layout["scan_sampling"])]
    ctx.label(f"path={case['path']}")
    ctx.label("lazy", layout["lazy"])
    ctx.label("lazy_chunked_scan", _n_scan_chunks(layout) >= 2)
    ctx.label("extra_axis", bool(layout["extra"]))
    ctx.label("sigma_pair", isinstance(sigma, list))
    ctx.nontrivial(max(sigma_px) >= 0.3 and min(layout["scan_shape"]) >= 3)

    eager = patterns(False)
    amax = min(eager.max_angles)
    inner, outer = case["inner_frac"] * amax, case["outer_frac"] * amax

    if case["path"] == "radial":
        def integrate(m):
            return m.integrate_radial(inner, outer)

        def prepare(dp):
            return dp
    else:
        nr, na = case["nbins"]
        regions = case["regions"]

        def integrate(m):
            return m.integrate() if regions is None else m.integrate(detector_regions=list(regions))

        def prepare(dp):
            return dp.polar_binning(nr, na, inner=0.0, outer=amax)

    # independent reference: eager integration, then scipy's periodic Gaussian in float64
    base = integrate(prepare(eager))
    if type(base) is not Images:
        raise Violation(f"integration returned {type(base).__name__}", ("source_size", "type"))
    base = np.asarray(base.array, dtype=np.float64)
    ref = scipy_gaussian_filter(base, sigma=[0.0] * (base.ndim - 2) + sigma_px, mode="wrap")
    scale = tol.scale(ref)

    measured = prepare(patterns(layout["lazy"]))
    mode = "lazy_chunked" if _n_scan_chunks(layout) >= 2 else "lazy" if layout["lazy"] else "eager"
    a_img = integrate(measured.gaussian_source_size(sigma_arg))
    b_img = integrate(measured).gaussian_filter(sigma_arg)
    for name, img in (("source_size_then_integrate", a_img), ("integrate_then_filter", b_img)):
        if type(img) is not Images or img.is_lazy != layout["lazy"]:
            raise Violation(f"{name}: returned {type(img).__name__}, lazy={img.is_lazy}", ("source_size", "type", name))
        got = _computed(img)
        if got.shape != ref.shape:
            raise Violation(f"{name}: shape {got.shape} != {ref.shape}", ("source_size", "shape", name))
        err = tol.max_err(got, ref)
        if err > 1e-5 * scale:
            raise Violation(
                f"{name} ({case['path']}, {mode}, scan {layout['scan_shape']} chunks {layout['chunks']}, sigma {sigma} A = "
                f"{[round(s, 3) for s in sigma_px]} px) differs from the scipy-filtered integrated image by "
                f"{err / scale:.3g} of its maximum",
                ("source_size", name, case["path"], mode),
            )
    # the documented commutation itself, path A against path B
    err = tol.max_err(_computed(a_img), _computed(b_img))
    if err > 1e-5 * scale:
        raise Violation(f"paths A and B differ by {err / scale:.3g}", ("source_size", "commute", case["path"], mode))
