"""C30 Saved results load back unchanged (abtem/array.py: to_zarr / from_zarr).

Claims
  roundtrip       one array object -> zarr (directory or zip store) -> from_zarr: same
                  type, identical array bytes and dtype, identical axes metadata (every
                  dataclass field, same classes), identical metadata (tuples stay tuples,
                  lists stay lists, numpy scalars come back as their Python value).
  list_roundtrip  the same for a ComputableList of 2-3 objects (order and pairing kept).
  many_axes       stress shape: 11 singleton ensemble axes (axis order must be numeric,
                  not lexicographic: axis_10 after axis_9).

Temporary stores live in a per-evaluation ``tempfile.mkdtemp()`` removed in ``finally``.
"""

from __future__ import annotations

import os
import shutil
import tempfile

import numpy as np
from hypothesis import strategies as st

from pbt import gen
from pbt.core import Violation, claim
from pbt.props import _arrayobjs as ao


# ----------------------------------------------------------------------- generators
_key_text = st.text(st.characters(min_codepoint=32, max_codepoint=0x2FFF, exclude_categories=("Cs", "Cc")), min_size=1, max_size=6)
_keys = st.one_of(st.sampled_from(ao._META_KEYS), _key_text).filter(lambda k: k not in ao.RESERVED_META_KEYS and k != "__t")


def _np_scalar():
    return st.one_of(
        st.integers(-400, 400).map(lambda k: {"__t": "np", "dtype": "float32", "v": k / 10.0}),
        gen.floats(-1e6, 1e6).map(lambda x: {"__t": "np", "dtype": "float64", "v": x}),
        st.integers(-(2**31), 2**31 - 1).map(lambda k: {"__t": "np", "dtype": "int64", "v": k}),
        st.integers(-100, 100).map(lambda k: {"__t": "np", "dtype": "int32", "v": k}),
        st.booleans().map(lambda b: {"__t": "np", "dtype": "bool", "v": b}),
    )


_leaf = st.one_of(
    st.none(),
    st.booleans(),
    st.integers(-(2**31), 2**31 - 1),
    gen.floats(-1e12, 1e12),
    st.sampled_from([0.0, -0.0, 1e-300, 1.0, 0.1]),
    st.text(st.characters(min_codepoint=32, max_codepoint=0x2FFF, exclude_categories=("Cs", "Cc")), max_size=8),
    _np_scalar(),
)


def _containers(children):
    return st.one_of(
        st.lists(children, max_size=3),
        st.lists(children, max_size=3).map(lambda v: {"__t": "tuple", "v": v}),
        st.dictionaries(_keys, children, max_size=3),
    )


_values = st.recursive(_leaf, _containers, max_leaves=6)


@st.composite
def rich_metadata(draw):
    if draw(st.integers(0, 3)) == 0:
        return draw(ao.simple_metadata())
    return draw(st.dictionaries(_keys, _values, max_size=4))


def _is_nested(md):
    return any(isinstance(v, (dict, list)) for v in md.values())


def _nondefault_axes(spec):
    return any(a["fields"] or a.get("values", {}).get("data") for a in spec["ens"])


@st.composite
def store_opts(draw):
    return {
        "store": draw(st.sampled_from(["dir", "zip"])),
        "compression_level": draw(st.sampled_from(["default", None, 0, 4, 9])),
        "reader": draw(st.sampled_from(["module", "module_auto", "classmethod"])),
        "overwrite": draw(st.booleans()),
    }


@st.composite
def single_case(draw):
    return {"obj": draw(ao.object_spec(wide_dtypes=True, metadata=rich_metadata())), "opts": draw(store_opts())}


@st.composite
def list_case(draw):
    k = draw(st.integers(2, 3))
    return {"objs": [draw(ao.object_spec(wide_dtypes=True, max_ens=2, metadata=rich_metadata())) for _ in range(k)], "opts": draw(store_opts())}


@st.composite
def many_axes_case(draw):
    spec = draw(ao.object_spec(types=["Waves", "Images", "DiffractionPatterns", "RealSpaceLineProfiles"], min_ens=0, max_ens=0, lazy=False))
    nax = draw(st.sampled_from([10, 11, 11, 12, 13]))
    spec["ens"] = [draw(ao.axis_spec(n=1, default_bias=0.7)) for _ in range(nax)]
    if draw(st.booleans()):
        # scan-like (linear) axes in the middle of the ensemble: a reader that mixes up the
        # axis order then finds plausible "base" axes in the wrong place
        for i in (8, 9):
            spec["ens"][i] = draw(ao.axis_spec(n=1, classes=ao.LINEAR_AXES, default_bias=0.3))
    if draw(st.booleans()):
        spec["lazy"] = True
        spec["chunks"] = [[1]] * nax
    return {"obj": spec, "opts": draw(store_opts())}


# ----------------------------------------------------------------------- oracle
BASE_RTOL = 1e-12


def _write(obj_or_list, path, opts):
    kw = {}
    if opts["compression_level"] != "default":
        kw["compression_level"] = opts["compression_level"]
    if opts["overwrite"]:
        kw["overwrite"] = True
    out = obj_or_list.to_zarr(path, **kw)
    return out


def _read(path, opts, cls):
    import abtem

    if opts["reader"] == "module":
        return abtem.from_zarr(path)
    if opts["reader"] == "module_auto":
        return abtem.from_zarr(path, chunks="auto")
    return cls.from_zarr(path)


def _compare(r, spec, tag):
    """``r`` = reloaded object, ``spec`` = what was written.  The expectation is a second,
    independent construction from the spec (never the object that was written)."""
    exp = ao.make_object(dict(spec, lazy=False, chunks=None))
    typ = spec["type"]
    store_bucket = (typ,)
    if type(r) is not type(exp):
        raise Violation(f"{tag}: wrote a {typ}, read a {type(r).__name__}", ("type",) + store_bucket)
    ref = ao.make_array(spec)
    got = ao.computed(r)
    if got.dtype != ref.dtype:
        raise Violation(f"{tag}: dtype {ref.dtype} came back as {got.dtype}", ("dtype", str(ref.dtype)))
    if got.shape != ref.shape:
        raise Violation(f"{tag}: shape {ref.shape} came back as {got.shape}", ("shape",) + store_bucket)
    if got.tobytes() != ref.tobytes():
        raise Violation(f"{tag}: array values changed (max abs diff {np.max(np.abs(got - ref))})", ("values", str(ref.dtype)))
    ra, ea = list(r.axes_metadata), list(exp.axes_metadata)
    if len(ra) != len(ea) or len(ra) != got.ndim:
        raise Violation(f"{tag}: {len(ra)} axes for {got.ndim} dimensions (wrote {len(ea)})", ("axes_count",) + store_bucket)
    for i, (x, y) in enumerate(zip(ra, ea)):
        where = "ensemble" if i < len(spec["ens"]) else "base"
        # base-axis floats are derived from abTEM's grid (sampling = extent / gpts), which
        # is only reproducible to an ulp when an object is rebuilt from extent AND sampling
        # (PotentialArray): 1e-12 relative there, exact everywhere else.
        if not ao.axes_identical(x, y, rtol=BASE_RTOL if where == "base" else 0.0):
            raise Violation(
                f"{tag}: axis {i} changed: wrote {ao.describe_axis(y)}, read {ao.describe_axis(x)}",
                ("axis", where),
            )
        if not (x == y):
            raise Violation(f"{tag}: axis {i} does not compare equal (==): {ao.describe_axis(y)}", ("axis_eq", type(y).__name__))
    rm, em = r.metadata, exp.metadata
    if not ao.strict_equal(rm, em):
        keys = sorted(set(rm) ^ set(em)) or [k for k in em if not ao.strict_equal(rm[k], em[k])]
        raise Violation(f"{tag}: metadata changed at {keys}: wrote {em!r}, read {rm!r}", ("metadata", _kind_of_diff(rm, em)))


def _kind_of_diff(rm, em):
    if set(rm) != set(em):
        return "keys"

    def walk(a, b):
        if isinstance(b, np.generic):
            b = b.item()
        if type(a) is not type(b):
            return f"{type(b).__name__}->{type(a).__name__}"
        if isinstance(b, dict):
            if a.keys() != b.keys():
                return "nested_keys"
            for k in b:
                w = walk(a[k], b[k])
                if w:
                    return w
            return None
        if isinstance(b, (list, tuple)):
            if len(a) != len(b):
                return "length"
            for x, y in zip(a, b):
                w = walk(x, y)
                if w:
                    return w
            return None
        return None if a == b else "value:" + type(b).__name__

    return walk(rm, em) or "?"


def _labels(ctx, spec, opts):
    ctx.label("type=" + spec["type"])
    ctx.label("dtype=" + spec["dtype"])
    ctx.label("store=" + opts["store"])
    ctx.label("lazy" if spec["lazy"] else "eager")
    ctx.label(f"ens={len(spec['ens'])}")
    ctx.label("nested_metadata", _is_nested(spec["metadata"]))
    ctx.label(f"compression={opts['compression_level']}")
    ctx.label("reader=" + opts["reader"])


def _path(tmp, opts):
    return os.path.join(tmp, "store.zip" if opts["store"] == "zip" else "store.zarr")


@claim(
    "C30",
    "roundtrip",
    single_case,
    quick=168,
    thorough=6000,
    tol="exact (bytes, fields; 1e-12 on derived base-axis floats)",
    rule=">=1 ensemble axis with non-default fields/values, or nested metadata",
    nontrivial_floor=0.4,
    max_shrink_calls=150,
)
def check_roundtrip(case, ctx):
    spec, opts = case["obj"], case["opts"]
    _labels(ctx, spec, opts)
    ctx.nontrivial(_nondefault_axes(spec) or _is_nested(spec["metadata"]))
    obj = ao.make_object(spec)
    tmp = tempfile.mkdtemp(prefix="c30-")
    try:
        path = _path(tmp, opts)
        _write(obj, path, opts)
        r = _read(path, opts, type(obj))
        if isinstance(r, list):
            raise Violation(f"a single object came back as a list of {len(r)}", ("single_as_list",))
        _compare(r, spec, "single")
    finally:
        shutil.rmtree(tmp, ignore_errors=True)


@claim(
    "C30",
    "list_roundtrip",
    list_case,
    quick=84,
    thorough=3000,
    tol="exact (bytes, fields; 1e-12 on derived base-axis floats)",
    rule=">=1 member has an ensemble axis with non-default fields/values or nested metadata",
    nontrivial_floor=0.4,
    max_shrink_calls=150,
)
def check_list_roundtrip(case, ctx):
    from abtem.array import ComputableList

    specs, opts = case["objs"], case["opts"]
    for s in specs:
        ctx.label("type=" + s["type"])
    ctx.label("store=" + opts["store"])
    ctx.label(f"members={len(specs)}")
    ctx.label("mixed_lazy", len({s["lazy"] for s in specs}) > 1)
    ctx.label("mixed_types", len({s["type"] for s in specs}) > 1)
    ctx.nontrivial(any(_nondefault_axes(s) or _is_nested(s["metadata"]) for s in specs))
    objs = ComputableList([ao.make_object(s) for s in specs])
    tmp = tempfile.mkdtemp(prefix="c30-")
    try:
        path = _path(tmp, opts)
        _write(objs, path, opts)
        r = _read(path, opts, type(objs[0]))
        if not isinstance(r, list) or len(r) != len(specs):
            raise Violation(f"wrote {len(specs)} objects, read {type(r).__name__} of {len(r) if isinstance(r, list) else 1}", ("list_length",))
        for i, (ri, s) in enumerate(zip(r, specs)):
            _compare(ri, s, f"member {i}")
    finally:
        shutil.rmtree(tmp, ignore_errors=True)


@claim(
    "C30",
    "many_axes",
    many_axes_case,
    quick=42,
    thorough=1500,
    tol="exact (bytes, fields; 1e-12 on derived base-axis floats)",
    rule=">=11 ensemble axes of which two differ",
    nontrivial_floor=0.5,
    max_shrink_calls=150,
)
def check_many_axes(case, ctx):
    spec, opts = case["obj"], case["opts"]
    ctx.label("type=" + spec["type"])
    ctx.label("store=" + opts["store"])
    ctx.label(f"ens={len(spec['ens'])}")
    distinct = len({repr(sorted(a.items(), key=str)) for a in spec["ens"]})
    ctx.nontrivial(len(spec["ens"]) + len(spec["base"]) >= 11 and distinct >= 2)
    obj = ao.make_object(spec)
    tmp = tempfile.mkdtemp(prefix="c30-")
    try:
        path = _path(tmp, opts)
        _write(obj, path, opts)
        r = _read(path, opts, type(obj))
        _compare(r, spec, "many_axes")
    finally:
        shutil.rmtree(tmp, ignore_errors=True)
