"""C39 Beam tilt acts as a lateral shift per propagation distance (abtem/multislice.py, abtem/tilt.py).

Clauses and claims:

* propagating by dz with small-angle tilt (tx, ty) == propagating without tilt, then shifting
  by dz*tan(t) in each direction                                   -> ``propagate_tilt_shift``
  (FresnelPropagator.propagate; tilt as base metadata, as N x 2 TiltAxis, as a pair of
  AxisAlignedTiltAxis, mixed with base tilt and with further ensemble axes; dz of both
  signs; propagator order 1 and 2)
* tilts given per axis and as 2-D pairs act the same               -> ``tilt_forms_agree``
  (public path: Probe(tilt=...).multislice through a real potential / vacuum; every member
  of an N x 2 or (xs, ys) tilt ensemble == the run with that scalar tilt; in vacuum the
  scalar run == the untilted run shifted by thickness*tan(t))
* a tilted plane wave keeps unit modulus through vacuum            -> ``plane_wave_unit_modulus``

The shift reference is a float64 numpy Fourier shift (exp(-2 pi i k.s)) of the *untilted*
abTEM result, so the aperture and the propagator order cancel out of the comparison.
Only axis orders that abTEM's own builders produce are generated (tilt axes first).
"""

from __future__ import annotations

import numpy as np
from hypothesis import strategies as st

from pbt import gen, tol
from pbt.core import Violation, claim


# ----------------------------------------------------------------------- helpers
def _tilt_value():
    return (gen.floats(-40.0, 40.0) | st.sampled_from([0.0, 10.0, -25.0, 40.0])).map(lambda v: round(v, 2))


@st.composite
def _grid(draw, lo=6, hi=28):
    gpts = [draw(st.integers(lo, hi)), draw(st.integers(lo, hi))]
    s0 = round(draw(gen.floats(0.05, 0.3)), 4)
    sampling = [s0, round(s0 * draw(st.sampled_from([1.0, 1.0, 0.6, 0.8, 1.25, 1.7])), 4)]
    return gpts, sampling


def _shift64(a, s, sampling):
    """Periodic (Fourier) shift of the last two axes of ``a`` by s = (sx, sy) [Angstrom], float64."""
    a = np.asarray(a).astype(np.complex128)
    kx = np.fft.fftfreq(a.shape[-2], sampling[0])[:, None]
    ky = np.fft.fftfreq(a.shape[-1], sampling[1])[None, :]
    return np.fft.ifft2(np.fft.fft2(a) * np.exp(-2j * np.pi * (kx * s[0] + ky * s[1])))


def _wave_array(shape, content, seed):
    if content == "white":
        return gen.rand_complex(shape, seed)
    return gen.bandlimited_complex(shape, seed, frac=0.5)


def _tan(t_mrad):
    return float(np.tan(t_mrad * 1e-3))


# ----------------------------------------------------------------------- direct propagation
@st.composite
def propagate_case(draw):
    gpts, sampling = draw(_grid())
    form = draw(st.sampled_from(["base", "nx2", "pair", "x+base", "y+base"]))
    case = {
        "gpts": gpts,
        "sampling": sampling,
        "energy": draw(gen.energies()),
        "dz": round(draw(gen.floats(0.5, 50.0)) * draw(st.sampled_from([1, 1, -1])), 3),
        "order": draw(st.sampled_from([1, 1, 2])),
        "form": form,
        "content": draw(st.sampled_from(["white", "bandlimited"])),
        "extra_axis": draw(st.sampled_from([0, 0, 1, 2])),  # size of a trailing non-tilt ensemble axis
        "seed": draw(gen.seeds()),
    }
    # A base tilt and a tilt axis never act along the same direction: validate_tilt builds
    # BeamTilt2D(scalar, values) / BeamTilt(N x 2), which is all PlaneWave/Probe(tilt=...) can give.
    # (Stacked tilts in one direction would add tan(a) + tan(b), which the statement does not define.)
    if form == "base":
        case["base"] = [draw(_tilt_value()), draw(_tilt_value())]
    elif form == "x+base":
        case["base"] = [0.0, draw(_tilt_value())]
    elif form == "y+base":
        case["base"] = [draw(_tilt_value()), 0.0]
    if form.startswith("nx2"):
        case["nx2"] = [[draw(_tilt_value()), draw(_tilt_value())] for _ in range(draw(st.integers(1, 3)))]
    if form == "pair":
        case["tx"] = [draw(_tilt_value()) for _ in range(draw(st.integers(1, 3)))]
        case["ty"] = [draw(_tilt_value()) for _ in range(draw(st.integers(1, 3)))]
    if form == "x+base":
        case["tx"] = [draw(_tilt_value()) for _ in range(draw(st.integers(1, 3)))]
    if form == "y+base":
        case["ty"] = [draw(_tilt_value()) for _ in range(draw(st.integers(1, 3)))]
    return case


@claim(
    "C39",
    "propagate_tilt_shift",
    propagate_case,
    quick=900,
    thorough=18000,
    tol="ulp32: max|P_tilt psi - shift(P_0 psi, dz tan t)| <= (2e-5 + 2e-6*|shift in pixels|) * max|psi| (observed 1e-7)",
    rule="|tan(tilt)| * |dz| >= 0.05 pixel for some member",
    nontrivial_floor=0.5,
)
def check_propagate_tilt_shift(case, ctx):
    import abtem
    from abtem.core.axes import AxisAlignedTiltAxis, OrdinalAxis, TiltAxis
    from abtem.multislice import FresnelPropagator

    gpts, sampling = tuple(case["gpts"]), tuple(case["sampling"])
    dz, order, form = case["dz"], case["order"], case["form"]
    base = tuple(case.get("base", (0.0, 0.0)))
    metadata = {"base_tilt_x": base[0], "base_tilt_y": base[1]} if "base" in case else {}

    # ensemble axes (tilt axes first, as abTEM's builders produce them) and the tilt of every member
    axes, shape = [], ()
    if "nx2" in case:
        axes.append(TiltAxis(label="tilt", values=tuple(tuple(v) for v in case["nx2"])))
        shape += (len(case["nx2"]),)
        member_tilts = np.array(case["nx2"], dtype=float)
    else:
        member_tilts = np.zeros((1, 2))
        shape_t = ()
        if "tx" in case:
            axes.append(AxisAlignedTiltAxis(label="tilt_x", values=tuple(case["tx"]), direction="x"))
            shape_t += (len(case["tx"]),)
        if "ty" in case:
            axes.append(AxisAlignedTiltAxis(label="tilt_y", values=tuple(case["ty"]), direction="y"))
            shape_t += (len(case["ty"]),)
        tx = case.get("tx", [0.0])
        ty = case.get("ty", [0.0])
        member_tilts = np.array([[a, b] for a in tx for b in ty], dtype=float)
        shape += shape_t
    member_tilts = member_tilts + np.array(base)[None]
    n_extra = case["extra_axis"]
    if n_extra:
        axes.append(OrdinalAxis(label="member", values=tuple(range(n_extra))))
        shape += (n_extra,)
    ntilt = len(member_tilts)
    ctx.label("form=" + form)
    ctx.label("order=%d" % order)
    ctx.label("dz<0", dz < 0)
    ctx.label("extra_axis", bool(n_extra))

    # one wave per extra-axis member, repeated over the tilt members
    x = _wave_array((max(n_extra, 1),) + gpts, case["content"], case["seed"])
    full = np.broadcast_to(x[None], (ntilt,) + x.shape).reshape(shape + gpts).copy()
    waves = abtem.Waves(full, energy=case["energy"], sampling=sampling, metadata=dict(metadata), ensemble_axes_metadata=axes)
    plain = abtem.Waves(x.copy(), energy=case["energy"], sampling=sampling,
                        ensemble_axes_metadata=[OrdinalAxis(label="member", values=tuple(range(x.shape[0])))])

    # one propagator object serves both calls (re-using it is what the class is for): its cache
    # key must tell the tilted from the untilted waves
    propagator = FresnelPropagator()
    if case["seed"] % 2:
        ref0 = np.asarray(propagator.propagate(plain, thickness=dz, order=order).array)
        got = np.asarray(propagator.propagate(waves, thickness=dz, order=order).array)
    else:
        got = np.asarray(propagator.propagate(waves, thickness=dz, order=order).array)
        ref0 = np.asarray(propagator.propagate(plain, thickness=dz, order=order).array)
    if got.shape != shape + gpts:
        raise Violation(f"propagated shape {got.shape} != {shape + gpts}: {case}", ("propagate", "shape"))
    got = got.reshape((ntilt, max(n_extra, 1)) + gpts)
    scale = tol.scale(ref0)
    biggest = 0.0
    for i, t in enumerate(member_tilts):
        s = (dz * _tan(t[0]), dz * _tan(t[1]))
        px = max(abs(s[0]) / sampling[0], abs(s[1]) / sampling[1])
        biggest = max(biggest, px)
        ref = _shift64(ref0, s, sampling)
        err = tol.max_err(got[i], ref)
        if not err <= (2e-5 + 2e-6 * px) * scale:
            why = "other"
            if px > 0.05:
                if tol.max_err(got[i], _shift64(ref0, (-s[0], -s[1]), sampling)) <= (2e-5 + 2e-6 * px) * scale:
                    why = "opposite_sign"
                elif tol.max_err(got[i], _shift64(ref0, (s[1], s[0]), sampling)) <= (2e-5 + 2e-6 * px) * scale:
                    why = "xy_swapped"
                elif tol.max_err(got[i], ref0) <= (2e-5 + 2e-6 * px) * scale:
                    why = "not_shifted"
            ctx.nontrivial(px >= 0.05)
            raise Violation(
                f"member {i} (tilt {tuple(t)} mrad, dz={dz}): tilted propagation differs from the shifted untilted "
                f"propagation by {err / scale:.2e} [{why}; expected shift {s} A = {px:.3f} px]: {case}",
                bucket=("propagate", form, why),
            )
    ctx.nontrivial(biggest >= 0.05)


# ----------------------------------------------------------------------- public path: forms agree
@st.composite
def forms_case(draw):
    gpts, sampling = draw(_grid(6, 20))
    nslices = draw(st.integers(1, 3))
    form = draw(st.sampled_from(["nx2", "pair", "x_array", "y_array", "scalar"]))
    case = {
        "gpts": gpts,
        "sampling": sampling,
        "energy": draw(gen.energies()),
        "semiangle_cutoff": round(draw(gen.floats(5.0, 25.0)), 1),
        "defocus": round(draw(gen.floats(-100.0, 100.0)), 1),
        "position": [round(draw(gen.floats(0.0, 1.0)), 3), round(draw(gen.floats(0.0, 1.0)), 3)],  # fractional
        "thickness": [round(draw(gen.floats(0.3, 6.0)), 3) for _ in range(nslices)],
        "potential": draw(st.sampled_from(["vacuum", "random", "random"])),
        "amplitude": draw(st.sampled_from([20.0, 200.0, 1000.0])),
        "order": draw(st.sampled_from([1, 1, 2])),
        "form": form,
        "lazy": draw(st.booleans()),
        "max_batch": draw(st.sampled_from(["auto", "auto", 1, 2])),
        "seed": draw(gen.seeds()),
    }
    n1, n2 = draw(st.integers(1, 3)), draw(st.integers(1, 2))
    if form == "nx2":
        case["tilts"] = [[draw(_tilt_value()), draw(_tilt_value())] for _ in range(n1)]
    elif form == "pair":
        case["tx"] = [draw(_tilt_value()) for _ in range(n1)]
        case["ty"] = [draw(_tilt_value()) for _ in range(n2)]
    elif form == "x_array":
        case["tx"] = [draw(_tilt_value()) for _ in range(n1)]
        case["ty"] = draw(_tilt_value())
    elif form == "y_array":
        case["tx"] = draw(_tilt_value())
        case["ty"] = [draw(_tilt_value()) for _ in range(n1)]
    else:
        case["tx"], case["ty"] = draw(_tilt_value()), draw(_tilt_value())
    return case


@claim(
    "C39",
    "tilt_forms_agree",
    forms_case,
    quick=350,
    thorough=7000,
    tol="ulp32 pipeline: members vs scalar-tilt runs 2e-5 * max|psi|; vacuum scalar run vs shifted untilted run "
    "(2e-5 + 2e-6*|shift px|) * max|psi|",
    rule="some member tilt shifts the wave by >= 0.05 pixel over the total thickness",
    nontrivial_floor=0.45,
    floors={"lazy": 0.25},
)
def check_tilt_forms_agree(case, ctx):
    import abtem
    from abtem.multislice import FourierMultislice

    gpts, sampling = tuple(case["gpts"]), tuple(case["sampling"])
    extent = tuple(n * s for n, s in zip(gpts, sampling))
    nsl = len(case["thickness"])
    if case["potential"] == "vacuum":
        v = np.zeros((nsl,) + gpts, dtype=np.float32)
    else:
        v = gen.rand_real((nsl,) + gpts, case["seed"]) * np.float32(case["amplitude"])
    potential = abtem.PotentialArray(v, slice_thickness=list(case["thickness"]), sampling=sampling)
    total = float(sum(case["thickness"]))
    position = (case["position"][0] * extent[0], case["position"][1] * extent[1])
    algorithm = FourierMultislice(order=case["order"])

    def run(tilt, lazy=False, max_batch="auto"):
        probe = abtem.Probe(
            energy=case["energy"], semiangle_cutoff=case["semiangle_cutoff"], defocus=case["defocus"],
            gpts=gpts, sampling=sampling, tilt=tilt,
        )
        out = probe.multislice(potential, scan=position, detectors=None, lazy=lazy, max_batch=max_batch, algorithm=algorithm)
        if lazy:
            out = out.compute()
        return out

    form = case["form"]
    if form == "nx2":
        tilt = np.array(case["tilts"], dtype=float)
        members = [tuple(t) for t in case["tilts"]]
        shape = (len(members),)
    elif form == "pair":
        # one axis as a list and one as an array: both spellings are accepted by validate_distribution
        tilt = (list(case["tx"]), np.array(case["ty"], dtype=float))
        members = [(a, b) for a in case["tx"] for b in case["ty"]]
        shape = (len(case["tx"]), len(case["ty"]))
    elif form == "x_array":
        tilt = (np.array(case["tx"], dtype=float), case["ty"])
        members = [(a, case["ty"]) for a in case["tx"]]
        shape = (len(case["tx"]),)
    elif form == "y_array":
        tilt = (case["tx"], np.array(case["ty"], dtype=float))
        members = [(case["tx"], b) for b in case["ty"]]
        shape = (len(case["ty"]),)
    else:
        tilt = (case["tx"], case["ty"])
        members = [tilt]
        shape = ()
    ctx.label("form=" + form)
    ctx.label("lazy", case["lazy"])
    ctx.label("potential=" + case["potential"])
    px_max = max(
        max(abs(total * _tan(t[0])) / sampling[0], abs(total * _tan(t[1])) / sampling[1]) for t in members
    )
    ctx.nontrivial(px_max >= 0.05)

    out = run(tilt, lazy=case["lazy"], max_batch=case["max_batch"])
    arr = np.asarray(out.array)
    if arr.shape != shape + gpts:
        raise Violation(f"exit waves have shape {arr.shape}, expected {shape + gpts}: {case}", ("forms", "shape", form))
    arr = arr.reshape((-1,) + gpts)
    untilted = np.asarray(run((0.0, 0.0)).array)
    scale = tol.scale(untilted)
    for i, t in enumerate(members):
        scalar = np.asarray(run((float(t[0]), float(t[1]))).array)
        if scalar.shape != gpts:
            raise Violation(f"scalar-tilt run has shape {scalar.shape}: {case}", ("forms", "shape", "scalar"))
        if form != "scalar":
            err = tol.max_err(arr[i], scalar)
            if not err <= 2e-5 * scale:
                raise Violation(
                    f"member {i} of the '{form}' tilt ensemble (tilt {t} mrad) differs from the run with that scalar tilt "
                    f"by {err / scale:.2e}: {case}",
                    bucket=("forms", form, "lazy" if case["lazy"] else "eager"),
                )
        if case["potential"] == "vacuum":
            s = (total * _tan(t[0]), total * _tan(t[1]))
            px = max(abs(s[0]) / sampling[0], abs(s[1]) / sampling[1])
            ref = _shift64(untilted, s, sampling)
            err = tol.max_err(scalar, ref)
            if not err <= (2e-5 + 2e-6 * px) * scale:
                raise Violation(
                    f"vacuum multislice with tilt {t} mrad over {total} A differs from the shifted untilted exit wave by "
                    f"{err / scale:.2e} (shift {s} A): {case}",
                    bucket=("forms", "vacuum_shift"),
                )


# ----------------------------------------------------------------------- plane waves
@st.composite
def plane_case(draw):
    gpts, sampling = draw(_grid(6, 24))
    nslices = draw(st.integers(1, 4))
    form = draw(st.sampled_from(["scalar", "nx2", "pair", "x_array"]))
    case = {
        "gpts": gpts,
        "sampling": sampling,
        "energy": draw(gen.energies()),
        "thickness": [round(draw(gen.floats(0.3, 20.0)), 3) for _ in range(nslices)],
        "order": draw(st.sampled_from([1, 2])),
        "form": form,
        "lazy": draw(st.booleans()),
    }
    if form == "nx2":
        case["tilts"] = [[draw(_tilt_value()), draw(_tilt_value())] for _ in range(draw(st.integers(1, 3)))]
    elif form == "pair":
        case["tx"] = [draw(_tilt_value()) for _ in range(draw(st.integers(1, 3)))]
        case["ty"] = [draw(_tilt_value()) for _ in range(draw(st.integers(1, 2)))]
    elif form == "x_array":
        case["tx"] = [draw(_tilt_value()) for _ in range(draw(st.integers(1, 3)))]
        case["ty"] = draw(_tilt_value())
    else:
        case["tx"], case["ty"] = draw(_tilt_value()), draw(_tilt_value())
    return case


@claim(
    "C39",
    "plane_wave_unit_modulus",
    plane_case,
    quick=400,
    thorough=8000,
    tol="ulp32: | |psi| - 1 | <= 1e-5 at every pixel",
    rule="some tilt component is non-zero",
    nontrivial_floor=0.5,
)
def check_plane_wave(case, ctx):
    import abtem
    from abtem.multislice import FourierMultislice

    gpts, sampling = tuple(case["gpts"]), tuple(case["sampling"])
    nsl = len(case["thickness"])
    vacuum = abtem.PotentialArray(np.zeros((nsl,) + gpts, dtype=np.float32), slice_thickness=list(case["thickness"]), sampling=sampling)
    form = case["form"]
    if form == "nx2":
        tilt = np.array(case["tilts"], dtype=float)
        shape = (len(case["tilts"]),)
        nonzero = bool(np.abs(tilt).max() > 0)
    elif form == "pair":
        tilt = (np.array(case["tx"], dtype=float), np.array(case["ty"], dtype=float))
        shape = (len(case["tx"]), len(case["ty"]))
        nonzero = bool(max(np.abs(tilt[0]).max(), np.abs(tilt[1]).max()) > 0)
    elif form == "x_array":
        tilt = (np.array(case["tx"], dtype=float), case["ty"])
        shape = (len(case["tx"]),)
        nonzero = bool(max(np.abs(tilt[0]).max(), abs(case["ty"])) > 0)
    else:
        tilt = (case["tx"], case["ty"])
        shape = ()
        nonzero = bool(max(abs(case["tx"]), abs(case["ty"])) > 0)
    ctx.label("form=" + form)
    ctx.label("lazy", case["lazy"])
    ctx.nontrivial(nonzero)

    wave = abtem.PlaneWave(energy=case["energy"], tilt=tilt)
    out = wave.multislice(vacuum, lazy=case["lazy"], algorithm=FourierMultislice(order=case["order"]))
    if case["lazy"]:
        out = out.compute()
    arr = np.asarray(out.array)
    if arr.shape != shape + gpts:
        raise Violation(f"exit waves have shape {arr.shape}, expected {shape + gpts}: {case}", ("plane", "shape", form))
    dev = float(np.abs(np.abs(arr.astype(np.complex128)) - 1.0).max())
    if not dev <= 1e-5:
        raise Violation(f"tilted plane wave left vacuum with | |psi| - 1 | = {dev:.2e}: {case}", ("plane", "modulus", form))
