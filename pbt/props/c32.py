"""C32 API calls do not modify caller-owned inputs.

Clause 1 (atoms): an ASE ``Atoms`` handed to a public function / constructor
(orthogonalize_cell, standardize_cell, Potential, FrozenPhonons, AtomsEnsemble, SMatrix,
StructureFactor, BlochWaves, multislice, the helpers of abtem.atoms) has the same
positions, cell, numbers and pbc afterwards - also when the call raises.

Clause 2 (measurements): a measurement method that returns a new object leaves the
receiver's array, metadata and axes metadata unchanged.

Oracle: bit-exact snapshot comparison (taken here with numpy copies / deep copies before
the call, independent of abTEM's own copy logic).
"""

from __future__ import annotations

import copy

import numpy as np
from hypothesis import strategies as st

from pbt import gen
from pbt.core import Violation, claim

# =========================================================================== atoms
LATTICES = ["ortho", "ortho", "tiny", "hex60", "hex120", "fcc", "bcc"]


@st.composite
def lattice_atoms(draw, lattices=LATTICES, max_atoms=4, min_atoms=1):
    lat = draw(st.sampled_from(lattices))
    a = round(draw(gen.floats(3.0, 5.0)), 3)
    b = round(draw(gen.floats(3.0, 5.0)), 3)
    c = round(draw(gen.floats(2.5, 5.0)), 3)
    n = draw(st.integers(min_atoms, max_atoms))
    species = draw(st.lists(st.sampled_from(gen.ELEMENTS), min_size=1, max_size=2, unique=True))
    numbers = [draw(st.sampled_from(species)) for _ in range(n)]
    scaled = []
    outside = draw(st.booleans())
    for i in range(n):
        if outside and (i == 0 or draw(st.booleans())):
            f = [round(draw(gen.floats(-0.6, 1.6)), 4) for _ in range(3)]
            # make sure this one really is outside in x or y
            if all(0 <= x < 1 for x in f[:2]):
                f[draw(st.integers(0, 1))] = draw(st.sampled_from([-0.25, 1.0, 1.3]))
        else:
            f = [round(draw(gen.floats(0.0, 0.999)), 4) for _ in range(3)]
        scaled.append(f)
    spec = {"lattice": lat, "abc": [a, b, c], "numbers": numbers, "scaled": scaled}
    if lat == "tiny":
        spec["eps"] = [draw(st.sampled_from([1e-9, -3e-8, 2e-7, 9e-7, 0.0])) for _ in range(6)]
    return spec


def cell_of(spec):
    a, b, c = spec["abc"]
    lat = spec["lattice"]
    if lat == "ortho":
        return np.diag([a, b, c])
    if lat == "tiny":
        e = spec["eps"]
        return np.array([[a, e[0], e[1]], [e[2], b, e[3]], [e[4], e[5], c]])
    if lat == "hex60":
        return np.array([[a, 0, 0], [a / 2, a * np.sqrt(3) / 2, 0], [0, 0, c]])
    if lat == "hex120":
        return np.array([[a, 0, 0], [-a / 2, a * np.sqrt(3) / 2, 0], [0, 0, c]])
    if lat == "fcc":
        return a / 2 * np.array([[0.0, 1, 1], [1, 0, 1], [1, 1, 0]])
    if lat == "bcc":
        return a / 2 * np.array([[-1.0, 1, 1], [1, -1, 1], [1, 1, -1]])
    raise ValueError(lat)


def make_lattice_atoms(spec):
    from ase import Atoms

    cell = cell_of(spec)
    pos = np.array(spec["scaled"], dtype=float) @ cell
    return Atoms(numbers=spec["numbers"], positions=pos, cell=cell, pbc=True)


def is_orthogonal(spec):
    return spec["lattice"] == "ortho"


def has_outside(spec):
    return any(not (0 <= x < 1) for f in spec["scaled"] for x in f)


def snap_atoms(atoms):
    return {
        "positions": atoms.positions.copy(),
        "cell": np.array(atoms.cell).copy(),
        "numbers": atoms.numbers.copy(),
        "pbc": np.array(atoms.pbc).copy(),
        "arrays": sorted(atoms.arrays.keys()),
        "len": len(atoms),
    }


def changed_atoms(s, atoms):
    out = []
    if len(atoms) != s["len"]:
        return ["len"]
    if not np.array_equal(s["positions"], atoms.positions):
        out.append("positions")
    if not np.array_equal(s["cell"], np.array(atoms.cell)):
        out.append("cell")
    if not np.array_equal(s["numbers"], atoms.numbers):
        out.append("numbers")
    if not np.array_equal(s["pbc"], np.array(atoms.pbc)):
        out.append("pbc")
    if s["arrays"] != sorted(atoms.arrays.keys()):
        out.append("arrays")
    return out


def call_and_compare(api, fn, inputs, documented=None):
    """Run ``fn``; whatever the outcome, every (name, atoms) in ``inputs`` must equal its
    snapshot.  An exception for which ``documented(exc)`` holds is the documented rejection
    of the input; any other exception propagates (after the snapshot comparison)."""
    snaps = [(name, a, snap_atoms(a)) for name, a in inputs]
    err = None
    try:
        fn()
    except Exception as e:  # noqa: BLE001 - re-raised below (unless documented), after the inputs were compared
        err = e
        outcome = "rejected" if documented is not None and documented(e) else "raised"
    else:
        outcome = "ok"
    for name, a, s in snaps:
        ch = changed_atoms(s, a)
        if ch:
            d = ""
            if "positions" in ch:
                i = int(np.argmax(np.abs(s["positions"] - a.positions).max(axis=1)))
                d = f"; atom {i}: {s['positions'][i].tolist()} -> {a.positions[i].tolist()}"
            if "cell" in ch:
                d += f"; cell {s['cell'].tolist()} -> {np.array(a.cell).tolist()}"
            # bucket = the API family (all keyword variants of one function share a root cause)
            raise Violation(f"{api} ({outcome}) modified the caller's {name}: {ch}{d}", ("atoms", api.split("_")[0] + "_" + api.split("_")[1] if api.startswith("orthogonalize") else api))
    if outcome == "raised":
        # C32 is about the caller's inputs (compared above, also for calls that raise). An
        # exception raised inside abTEM for this input is a matter of the property that owns
        # that API (e.g. C26 for Bloch waves), not a C32 violation; an exception without any
        # abTEM frame is a bug of this harness and propagates.
        from pbt.core import exception_bucket

        if exception_bucket(err)[0] == "harness":
            raise err
    return outcome


def _standardize_rejection(e):
    """standardize_cell documents its rejections: "Invalid cell: no vertical lattice vector" /
    "Cell has non-orthogonal lattice vectors" / "This cell cannot be made orthogonal ..."
    (a cell that is diagonal only up to 1e-9..1e-6 is such a cell: its tolerance is 1e-12)."""
    return isinstance(e, RuntimeError) and ("ell" in str(e))


# --------------------------------------------------------------------------- claim 1: functions of abtem.atoms
_FUNC_APIS = [
    "orthogonalize_cell",
    "orthogonalize_cell",
    "orthogonalize_cell_transform",
    "orthogonalize_cell_matrix",
    "orthogonalize_cell_origin",
    "orthogonalize_cell_box",
    "orthogonalize_cell_plane",
    "orthogonalize_cell_noaffine",
    "standardize_cell",
    "pad_atoms",
    "cut_cell",
    "rotate_atoms",
    "rotate_atoms_to_plane",
    "flip_atoms",
    "wrap_with_tolerance",
    "merge_close_atoms",
    "shrink_cell",
    "atoms_in_cell",
    "is_cell_checks",
    "best_orthogonal_cell",
]


@st.composite
def atoms_function_case(draw):
    api = draw(st.sampled_from(_FUNC_APIS))
    if api in ("pad_atoms", "orthogonalize_cell_plane", "rotate_atoms_to_plane", "orthogonalize_cell_box"):
        # documented / implicit precondition: axis-aligned cell (pad_atoms divides by the
        # diagonal; plane != 'xy' goes through standardize_cell)
        atoms = draw(lattice_atoms(lattices=["ortho", "ortho", "tiny"] if api != "pad_atoms" else ["ortho"]))
    elif api in ("merge_close_atoms", "shrink_cell"):
        # clustering needs >=2 atoms of every species (scipy linkage rejects a single point)
        atoms = draw(lattice_atoms(min_atoms=2))
        atoms["numbers"] = [atoms["numbers"][0]] * len(atoms["numbers"])
    else:
        atoms = draw(lattice_atoms())
    return {
        "api": api,
        "atoms": atoms,
        "u": [round(draw(gen.floats(0.05, 0.95)), 3) for _ in range(3)],
        "k": draw(st.integers(2, 5)),
        "plane": draw(st.sampled_from(["xz", "yz", "yx", "zx", "zy"])),
        "axis": draw(st.integers(0, 2)),
    }


@claim(
    "C32",
    "atoms_functions",
    atoms_function_case,
    quick=3000,
    thorough=60000,
    tol="exact (positions, cell, numbers, pbc bit-identical)",
    rule=">=1 atom outside the cell or a non-orthogonal / not exactly diagonal cell",
    nontrivial_floor=0.4,
)
def check_atoms_functions(case, ctx):
    import abtem
    from abtem import atoms as A

    spec = case["atoms"]
    atoms = make_lattice_atoms(spec)
    api, u, k = case["api"], case["u"], case["k"]
    abc = spec["abc"]
    documented = None
    if api == "orthogonalize_cell":
        fn = lambda: abtem.orthogonalize_cell(atoms, max_repetitions=k)
    elif api == "orthogonalize_cell_transform":
        fn = lambda: abtem.orthogonalize_cell(atoms, return_transform=True)
    elif api == "orthogonalize_cell_matrix":
        fn = lambda: abtem.orthogonalize_cell(atoms, return_transform_matrix=True)
    elif api == "orthogonalize_cell_origin":
        fn = lambda: abtem.orthogonalize_cell(atoms, origin=(u[0] * abc[0], u[1] * abc[1], 0.0))
    elif api == "orthogonalize_cell_box":
        fn = lambda: abtem.orthogonalize_cell(atoms, box=(abc[0] * k, abc[1], abc[2] * 2))
    elif api == "orthogonalize_cell_plane":
        fn = lambda: abtem.orthogonalize_cell(atoms, plane=case["plane"])
        documented = _standardize_rejection if spec["lattice"] == "tiny" else None
    elif api == "orthogonalize_cell_noaffine":
        fn = lambda: abtem.orthogonalize_cell(atoms, allow_transform=False)
    elif api == "standardize_cell":
        fn = lambda: abtem.standardize_cell(atoms)
        documented = _standardize_rejection
    elif api == "pad_atoms":
        fn = lambda: A.pad_atoms(atoms, margins=round(0.5 + 3 * u[0], 3), directions=["xyz", "xy", "z"][k % 3])
    elif api == "cut_cell":
        fn = lambda: A.cut_cell(atoms, cell=(abc[0] * (0.5 + u[0]), abc[1] * (0.5 + u[1]), abc[2]), origin=(u[2], 0.0, 0.0), margin=round(u[0], 2) if k % 2 else 0.0)
    elif api == "rotate_atoms":
        fn = lambda: A.rotate_atoms(atoms, axes=["zxz", "xyz", "zyx"][k % 3], angles=(u[0] * 3, u[1] * 3, u[2] * 3), convention=["intrinsic", "extrinsic"][k % 2])
    elif api == "rotate_atoms_to_plane":
        fn = lambda: A.rotate_atoms_to_plane(atoms, case["plane"])
        documented = _standardize_rejection if spec["lattice"] == "tiny" else None
    elif api == "flip_atoms":
        fn = lambda: A.flip_atoms(atoms, axis=case["axis"])
    elif api == "wrap_with_tolerance":
        fn = lambda: A.wrap_with_tolerance(atoms, tol=10 ** (-2 - 5 * u[0]))
    elif api == "merge_close_atoms":
        fn = lambda: A.merge_close_atoms(atoms, tol=10 ** (-1 - 6 * u[0]))
    elif api == "shrink_cell":
        fn = lambda: A.shrink_cell(atoms)
    elif api == "atoms_in_cell":
        fn = lambda: A.atoms_in_cell(atoms, margin=round(u[0], 2) if k % 2 else 0.0)
    elif api == "is_cell_checks":
        fn = lambda: (A.is_cell_orthogonal(atoms), A.is_cell_valid(atoms), A.is_cell_hexagonal(atoms))
    elif api == "best_orthogonal_cell":
        fn = lambda: A.best_orthogonal_cell(atoms.cell, max_repetitions=k)
    else:
        raise ValueError(api)
    outcome = call_and_compare(api, fn, [("atoms", atoms)], documented)
    ctx.label("api:" + api)
    ctx.label("lattice:" + spec["lattice"])
    ctx.label("outcome:" + outcome)
    ctx.nontrivial(has_outside(spec) or not is_orthogonal(spec))


# --------------------------------------------------------------------------- claim 2: objects built from atoms
_OBJ_APIS = [
    "Potential.build",
    "Potential.build_lazy",
    "Potential.project",
    "Potential.generate_slices",
    "Potential.finite",
    "Potential.nonperiodic",
    "Potential.get_transformed_atoms",
    "FrozenPhonons.iter",
    "FrozenPhonons.to_atoms_ensemble",
    "Potential(FrozenPhonons)",
    "Potential(AtomsEnsemble)",
    "Potential(list)",
    "CrystalPotential",
    "SMatrix",
    "PlaneWave.multislice",
    "Probe.multislice",
    "StructureFactor",
    "BlochWaves",
]


@st.composite
def atoms_object_case(draw):
    api = draw(st.sampled_from(_OBJ_APIS))
    if api in ("Potential.nonperiodic", "CrystalPotential"):
        atoms = draw(lattice_atoms(lattices=["ortho"], max_atoms=3))
    elif api == "StructureFactor":
        atoms = draw(lattice_atoms(max_atoms=2))
    elif api == "BlochWaves":
        # hexagonal cells left out: for some cell parameters BlochWaves asks the structure factor for
        # hkl outside its grid ("invalid entry in coordinates array", abtem/bloch/utils.py ravel_hkl) -
        # a Bloch-wave defect (C26 territory) that has nothing to do with the caller's atoms
        atoms = draw(lattice_atoms(lattices=["ortho", "ortho", "tiny", "fcc", "bcc"], max_atoms=2))
    else:
        atoms = draw(lattice_atoms(max_atoms=3))
    return {
        "api": api,
        "atoms": atoms,
        "sampling": draw(st.sampled_from([0.3, 0.4, 0.5])),
        "seed": draw(gen.seeds()),
        "sigma": round(draw(gen.floats(0.0, 0.2)), 3),
        # how the frozen-phonon sigmas are spelled (added after seeded/C32-3: the anisotropic
        # branch of FrozenPhonons.randomize is separate code)
        "sigma_kind": draw(st.sampled_from(["scalar", "scalar", "aniso", "aniso_dict", "per_atom"])),
        "energy": draw(gen.energies()),
        "u": [round(draw(gen.floats(0.05, 0.95)), 3) for _ in range(2)],
    }


def _fp_sigmas(case, atoms):
    """Frozen-phonon sigmas in the documented spellings: float, (sx, sy, sz), per-element
    dict of 3-tuples, per-atom sequence."""
    from ase.data import chemical_symbols

    s0 = case["sigma"]
    kind = case.get("sigma_kind", "scalar")
    if kind == "aniso":
        return {chemical_symbols[z]: (s0, 0.5 * s0, 2.0 * s0) for z in sorted(set(atoms.numbers))}
    if kind == "aniso_dict":
        return {chemical_symbols[z]: (s0 * (1 + i), s0, 0.5 * s0) for i, z in enumerate(sorted(set(atoms.numbers)))}
    if kind == "per_atom" and case["atoms"].get("lattice") in ("ortho", "cubic", "tetra", None):
        # per-atom values only where the potential does not replicate atoms to orthogonalize
        return [s0 * (1 + 0.1 * i) for i in range(len(atoms))]
    return s0


@claim(
    "C32",
    "atoms_objects",
    atoms_object_case,
    quick=220,
    thorough=10000,
    tol="exact (positions, cell, numbers, pbc bit-identical)",
    rule=">=1 atom outside the cell or a non-orthogonal / not exactly diagonal cell",
    nontrivial_floor=0.4,
)
def check_atoms_objects(case, ctx):
    import abtem

    spec = case["atoms"]
    atoms = make_lattice_atoms(spec)
    api = case["api"]
    s = case["sampling"]
    dz = max(spec["abc"][2] / 2, 1.0)
    kw = dict(sampling=s, slice_thickness=dz)
    inputs = [("atoms", atoms)]
    if api == "Potential.build":
        fn = lambda: abtem.Potential(atoms, **kw).build(lazy=False)
    elif api == "Potential.build_lazy":
        fn = lambda: abtem.Potential(atoms, **kw).build(lazy=True).compute()
    elif api == "Potential.project":
        fn = lambda: abtem.Potential(atoms, **kw).project()
    elif api == "Potential.generate_slices":
        fn = lambda: list(abtem.Potential(atoms, **kw).generate_slices())
    elif api == "Potential.finite":
        fn = lambda: abtem.Potential(atoms, projection="finite", **kw).build(lazy=False)
    elif api == "Potential.nonperiodic":
        abc = spec["abc"]
        box = (abc[0] * (1 + case["u"][0]), abc[1] * (1 + case["u"][1]), abc[2])
        fn = lambda: abtem.Potential(atoms, periodic=False, box=box, projection="finite", **kw).build(lazy=False)
    elif api == "Potential.get_transformed_atoms":
        fn = lambda: (abtem.Potential(atoms, **kw).get_transformed_atoms(), abtem.Potential(atoms, **kw).get_sliced_atoms())
    elif api == "FrozenPhonons.iter":
        fn = lambda: list(abtem.FrozenPhonons(atoms, 2, _fp_sigmas(case, atoms), seed=case["seed"]))
    elif api == "FrozenPhonons.to_atoms_ensemble":
        fn = lambda: abtem.FrozenPhonons(atoms, 2, _fp_sigmas(case, atoms), seed=case["seed"]).to_atoms_ensemble()
    elif api == "Potential(FrozenPhonons)":
        fn = lambda: abtem.Potential(abtem.FrozenPhonons(atoms, 2, _fp_sigmas(case, atoms), seed=case["seed"]), **kw).build(lazy=False)
    elif api in ("Potential(AtomsEnsemble)", "Potential(list)"):
        other = atoms.copy()
        other.positions[:] = other.positions + np.random.default_rng(case["seed"]).normal(scale=case["sigma"], size=other.positions.shape)
        inputs.append(("second atoms", other))
        if api == "Potential(list)":
            fn = lambda: abtem.Potential([atoms, other], **kw).build(lazy=False)
        else:
            fn = lambda: abtem.Potential(abtem.AtomsEnsemble([atoms, other]), **kw).build(lazy=False)
    elif api == "CrystalPotential":
        fn = lambda: abtem.CrystalPotential(abtem.Potential(atoms, **kw), repetitions=(1, 2, 2)).build(lazy=False)
    elif api == "SMatrix":
        fn = lambda: abtem.SMatrix(potential=abtem.Potential(atoms, **kw), semiangle_cutoff=8.0, energy=case["energy"]).build(lazy=False)
    elif api == "PlaneWave.multislice":
        fn = lambda: abtem.PlaneWave(energy=case["energy"], sampling=s).multislice(atoms, lazy=False)
    elif api == "Probe.multislice":
        fn = lambda: abtem.Probe(energy=case["energy"], sampling=s, semiangle_cutoff=15.0).multislice(atoms, scan=abtem.CustomScan([[0.5, 0.5], [1.0, 1.5]]), lazy=False)
    elif api == "StructureFactor":
        from abtem.bloch import StructureFactor

        fn = lambda: StructureFactor(atoms, g_max=1.5, thermal_sigma=case["sigma"]).build(lazy=False)
    elif api == "BlochWaves":
        from abtem.bloch import BlochWaves

        fn = lambda: BlochWaves(atoms, energy=case["energy"], sg_max=0.05, g_max=1.0).calculate_diffraction_patterns([10.0, 20.0], lazy=False)
    else:
        raise ValueError(api)
    documented = None
    if spec["lattice"] == "tiny":
        # a cell that is diagonal only up to ~1e-9..1e-6 is either orthogonalized internally or
        # rejected with "atoms must have an orthogonal cell" (abtem/slicing.py) - both are fine here
        documented = lambda e: isinstance(e, RuntimeError) and "orthogonal cell" in str(e)
    outcome = call_and_compare(api, fn, inputs, documented)
    ctx.label("api:" + api)
    ctx.label("lattice:" + spec["lattice"])
    ctx.label("outcome:" + outcome)
    ctx.nontrivial(has_outside(spec) or not is_orthogonal(spec))


# =========================================================================== measurements
MEAS = ["Images", "ImagesComplex", "DiffractionPatterns", "RealSpaceLineProfiles", "ReciprocalSpaceLineProfiles", "PolarMeasurements"]

_COMMON = [
    "abs", "copy", "mean", "sum", "std", "min", "max", "reduce_ensemble", "squeeze", "expand_dims", "getitem", "getitem_int",
    "normalize_ensemble", "relative_difference", "add", "sub", "mul", "div", "pow", "to_cpu", "ensure_lazy",
    "to_measurement_ensemble", "get_items", "no_base_chunks", "poisson_noise", "poisson_noise_samples",
]
_COMPLEX_ONLY = ["real", "imag", "phase", "intensity"]
_METHODS = {
    "Images": _COMMON + ["interpolate_sampling", "interpolate_gpts", "interpolate_spline", "crop", "tile", "gaussian_filter", "diffractograms", "interpolate_line", "interpolate_line_at_position", "integrate_disc", "poisson_noise_dose_per_area"],
    "ImagesComplex": [m for m in _COMMON if not m.startswith("poisson")] + _COMPLEX_ONLY + ["interpolate_sampling", "interpolate_gpts", "crop", "tile", "gaussian_filter", "diffractograms", "integrate_gradient", "interpolate_line"],
    "DiffractionPatterns": _COMMON + ["interpolate_sampling", "interpolate_uniform", "gaussian_source_size", "polar_binning", "radial_binning", "integrate_radial", "integrated_center_of_mass", "center_of_mass", "bandlimit", "crop_angle", "azimuthal_average", "block_direct", "tile_scan", "gaussian_filter", "interpolate_line", "poisson_noise_dose_per_area"],
    "RealSpaceLineProfiles": _COMMON + ["interpolate_sampling", "tile1d"],
    "ReciprocalSpaceLineProfiles": _COMMON + ["interpolate_sampling"],
    "PolarMeasurements": _COMMON + ["polar_integrate_radial", "polar_integrate", "polar_integrate_regions", "gaussian_source_size", "to_diffraction_patterns", "differentials", "poisson_noise_dose_per_area"],
}
_NEEDS_SCAN = {"gaussian_source_size", "integrated_center_of_mass", "tile_scan", "poisson_noise_dose_per_area", "differentials"}
_NEEDS_ENSEMBLE = {"mean", "sum", "std", "min", "max", "getitem", "getitem_int", "get_items"}
# not implemented for lazy receivers (boolean-mask assignment / fancy indexing / chunked line interpolation
# raise inside dask) - that is not what C32 is about, so these are only drawn for in-memory receivers
_EAGER_ONLY = {"relative_difference", "interpolate_line", "interpolate_line_at_position", "integrate_disc"}
# left out on purpose: set_ensemble_axes_metadata (a setter), compute (documented in-place), show / to_zarr /
# to_tiff / to_hyperspy / to_data_array (I/O, optional dependencies), apply_func / apply_transform (user code),
# to_image_ensemble, scan_noise, index_diffraction_spots, width (need further inputs / return plain numbers /
# fail independently of C32)


@st.composite
def measurement_case(draw):
    cls = draw(st.sampled_from(MEAS))
    scan = draw(st.booleans())
    extra = draw(st.lists(st.sampled_from(["param_mean", "param", "frozen_mean", "thickness"]), min_size=0, max_size=2))
    ens = extra + (["scan_x", "scan_y"] if scan else [])
    shape = [draw(st.integers(1, 3)) for _ in ens]
    if cls in ("Images", "ImagesComplex", "DiffractionPatterns"):
        base = draw(gen.gpts2d(6, 12))
    elif cls == "PolarMeasurements":
        base = [draw(st.integers(2, 5)), draw(st.integers(1, 4))]
    else:
        base = [draw(st.integers(6, 14))]
    lazy = draw(st.booleans())
    candidates = [m for m in _METHODS[cls] if (scan or m not in _NEEDS_SCAN) and (ens or m not in _NEEDS_ENSEMBLE) and not (lazy and m in _EAGER_ONLY)]
    ops = []
    for _ in range(draw(st.integers(1, 4))):
        ops.append({
            "name": draw(st.sampled_from(candidates)),
            "u": [round(draw(gen.floats(0.05, 0.95)), 3) for _ in range(4)],
            "k": [draw(st.integers(1, 3)), draw(st.integers(1, 3))],
            "seed": draw(gen.seeds()),
        })
    return {
        "cls": cls, "ens": ens, "shape": shape, "base": base, "seed": draw(gen.seeds()), "lazy": lazy,
        "sampling": [round(draw(gen.floats(0.1, 0.4)), 3), round(draw(gen.floats(0.1, 0.4)), 3)],
        "metadata": draw(st.sampled_from([{}, {"label": "intensity", "units": "arb. unit"}, {"note": [1, 2], "nested": {"a": 1.0}}])),
        "ops": ops,
    }


def make_measurement(case):
    import dask.array as da
    from abtem.core import axes as ax
    from abtem import measurements as M

    metas = []
    for kind, n in zip(case["ens"], case["shape"]):
        if kind == "param_mean":
            metas.append(ax.ParameterAxis(label="defocus", values=tuple(float(i) for i in range(n)), units="Å", _ensemble_mean=True))
        elif kind == "param":
            metas.append(ax.ParameterAxis(label="Cs", values=tuple(float(10 * i) for i in range(n)), units="Å"))
        elif kind == "frozen_mean":
            metas.append(ax.FrozenPhononsAxis(_ensemble_mean=True))
        elif kind == "thickness":
            metas.append(ax.ThicknessAxis(values=tuple(float(2 * i + 2) for i in range(n))))
        elif kind == "scan_x":
            metas.append(ax.ScanAxis(label="x", sampling=0.3, offset=0.0, units="Å", endpoint=False))
        elif kind == "scan_y":
            metas.append(ax.ScanAxis(label="y", sampling=0.4, offset=0.0, units="Å", endpoint=False))
    full = tuple(case["shape"]) + tuple(case["base"])
    cls = case["cls"]
    if cls == "ImagesComplex":
        arr = gen.rand_complex(full, case["seed"])
    else:
        arr = gen.rand_real(full, case["seed"], positive=True) + np.float32(0.1)
    if case["lazy"]:
        arr = da.from_array(arr, chunks=(1,) * len(case["shape"]) + tuple(case["base"]))
    md = {"energy": 100e3, **copy.deepcopy(case["metadata"])}
    s = case["sampling"]
    if cls in ("Images", "ImagesComplex"):
        return M.Images(arr, sampling=(s[0], s[1]), ensemble_axes_metadata=metas, metadata=md)
    if cls == "DiffractionPatterns":
        return M.DiffractionPatterns(arr, sampling=(s[0] / 4, s[1] / 4), fftshift=True, ensemble_axes_metadata=metas, metadata=md)
    if cls == "RealSpaceLineProfiles":
        return M.RealSpaceLineProfiles(arr, sampling=s[0], ensemble_axes_metadata=metas, metadata=md)
    if cls == "ReciprocalSpaceLineProfiles":
        return M.ReciprocalSpaceLineProfiles(arr, sampling=s[0] / 4, ensemble_axes_metadata=metas, metadata=md)
    return M.PolarMeasurements(arr, radial_sampling=10.0, azimuthal_sampling=2 * np.pi / case["base"][1], radial_offset=5.0, azimuthal_offset=0.0, ensemble_axes_metadata=metas, metadata=md)


def apply_method(m, op, case):
    """One invocation with arguments valid for ``m`` (derived from its own geometry)."""
    from abtem.core import axes as ax

    name, u, k = op["name"], op["u"], op["k"]
    nd = len(case["shape"])
    if name in ("abs", "real", "imag", "phase", "intensity", "copy", "reduce_ensemble", "squeeze", "normalize_ensemble", "to_cpu", "ensure_lazy", "to_measurement_ensemble", "no_base_chunks", "diffractograms", "integrate_gradient", "integrated_center_of_mass", "center_of_mass", "azimuthal_average"):
        return getattr(m, name)()
    if name in ("mean", "sum", "std", "min", "max"):
        return getattr(m, name)(axis=k[0] % nd)
    if name == "expand_dims":
        return m.expand_dims(0, axis_metadata=[ax.UnknownAxis()]) if k[0] == 1 else m.expand_dims(0)
    if name == "getitem":
        return m[(slice(0, max(1, case["shape"][0] - 1)),)]
    if name == "getitem_int":
        return m[tuple(0 for _ in range(nd))]
    if name == "get_items":
        return m.get_items((0,))
    if name == "relative_difference":
        return m.relative_difference(m.copy() * 1.5, min_relative_tol=u[0] / 10)
    if name == "add":
        return m + m
    if name == "sub":
        return m - u[0]
    if name == "mul":
        return m * (1 + u[0])
    if name == "div":
        return m / (1 + u[0])
    if name == "pow":
        return m**2
    if name == "poisson_noise":
        return m.poisson_noise(total_dose=10 ** (2 + 4 * u[0]), seed=op["seed"])
    if name == "poisson_noise_samples":
        return m.poisson_noise(total_dose=10 ** (2 + 4 * u[0]), samples=1 + k[0], seed=op["seed"])
    if name == "poisson_noise_dose_per_area":
        return m.poisson_noise(dose_per_area=10 ** (2 + 4 * u[0]), seed=op["seed"])
    if name == "interpolate_sampling":
        s = m.sampling
        f = 0.6 + 0.8 * u[0]
        if type(m).__name__ == "DiffractionPatterns":
            return m.interpolate(sampling=float(max(s) * f))  # a float or "uniform" is what interpolate accepts
        return m.interpolate(sampling=tuple(x * f for x in s) if isinstance(s, tuple) else s * f)
    if name == "interpolate_gpts":
        return m.interpolate(gpts=(m.base_shape[0] + k[0], m.base_shape[1] + k[1]))
    if name == "interpolate_spline":
        return m.interpolate(sampling=tuple(x * (0.6 + 0.8 * u[0]) for x in m.sampling), method="spline", order=1 + k[0])
    if name == "interpolate_uniform":
        return m.interpolate(sampling="uniform")
    if name == "crop":
        e = m.extent
        ext = (e[0] * (0.3 + 0.5 * u[0]), e[1] * (0.3 + 0.5 * u[1]))
        return m.crop(extent=ext, offset=(u[2] * (e[0] - ext[0]), u[3] * (e[1] - ext[1])))
    if name == "tile":
        return m.tile((k[0], k[1]))
    if name == "tile1d":
        return m.tile(1 + k[0])
    if name == "tile_scan":
        return m.tile_scan((k[0], k[1]))
    if name == "gaussian_filter":
        return m.gaussian_filter(float(min(m.sampling)) * (0.5 + 2 * u[0]))
    if name == "interpolate_line":
        e = m.extent
        return m.interpolate_line(start=(u[0] * e[0] * 0.4, u[1] * e[1] * 0.4), end=(e[0] * (0.5 + 0.4 * u[2]), e[1] * (0.5 + 0.4 * u[3])), gpts=3 + k[0])
    if name == "interpolate_line_at_position":
        e = m.extent
        return m.interpolate_line_at_position(center=(e[0] / 2, e[1] / 2), angle=360 * u[0], extent=min(e) * 0.4 * u[1] + 0.05, gpts=3 + k[0])
    if name == "integrate_disc":
        e = m.extent
        return m.integrate_disc(np.array([e[0] * u[0], e[1] * u[1]]), radius=min(e) * 0.3 * u[2] + 0.05)
    if name in ("polar_binning", "radial_binning", "integrate_radial", "bandlimit", "crop_angle", "block_direct"):
        amax = float(min(m.max_angles))
        inner, outer = u[0] * 0.4 * amax, (0.5 + 0.45 * u[1]) * amax
        if name == "polar_binning":
            return m.polar_binning(k[0], k[1], inner=inner, outer=outer, rotation=u[2])
        if name == "radial_binning":
            return m.radial_binning(step_size=(outer - inner) / (1 + k[0]), inner=inner, outer=outer)
        if name == "integrate_radial":
            return m.integrate_radial(inner, outer)
        if name == "bandlimit":
            return m.bandlimit(inner, outer)
        if name == "crop_angle":
            return m.crop(max_angle=outer)
        return m.block_direct(radius=0.3 * amax * u[2] + 0.1)
    if name == "gaussian_source_size":
        return m.gaussian_source_size(0.1 + u[0])
    if name in ("polar_integrate_radial", "polar_integrate"):
        lo, hi = m.radial_offset, m.outer_angle
        a = lo + (hi - lo) * 0.4 * u[0]
        b = lo + (hi - lo) * (0.55 + 0.45 * u[1])
        return m.integrate_radial(a, b) if name == "polar_integrate_radial" else m.integrate(radial_limits=(a, b))
    if name == "polar_integrate_regions":
        return m.integrate(detector_regions=list(range(min(k[0], m.base_shape[0] * m.base_shape[1]))))
    if name == "to_diffraction_patterns":
        return m.to_diffraction_patterns(8 + 4 * k[0])
    if name == "differentials":
        nb = m.base_shape[0] * m.base_shape[1]
        return m.differentials((0, (1 % nb)), ((2 % nb), (3 % nb)))
    raise ValueError(name)


def snap_measurement(m):
    arr = m.array
    lazy = hasattr(arr, "compute")
    values = np.array(arr.compute() if lazy else arr, copy=True)
    return {
        "lazy": lazy,
        "chunks": arr.chunks if lazy else None,
        "dtype": str(values.dtype),
        "values": values,
        "metadata": copy.deepcopy(m.metadata),
        "axes": gen.axes_to_plain(m.axes_metadata),
        "type": type(m).__name__,
    }


def changed_measurement(s, m):
    out = []
    arr = m.array
    lazy = hasattr(arr, "compute")
    if lazy != s["lazy"]:
        out.append("laziness")
    elif lazy and arr.chunks != s["chunks"]:
        out.append("chunks")
    values = np.asarray(arr.compute() if lazy else arr)
    if str(values.dtype) != s["dtype"] or values.shape != s["values"].shape:
        out.append("array_shape_or_dtype")
    elif not np.array_equal(values, s["values"]):
        out.append("array")
    if m.metadata != s["metadata"]:
        out.append("metadata")
    if gen.axes_to_plain(m.axes_metadata) != s["axes"]:
        out.append("axes")
    return out


@claim(
    "C32",
    "measurement_methods",
    measurement_case,
    quick=2500,
    thorough=60000,
    tol="exact (array bits, deep-copied metadata, axes metadata)",
    rule="at least one applied method returned a new array object",
    nontrivial_floor=0.5,
)
def check_measurement_methods(case, ctx):
    from abtem.array import ArrayObject

    m = make_measurement(case)
    s = snap_measurement(m)
    new_objects = 0
    for op in case["ops"]:
        r = apply_method(m, op, case)
        results = r if isinstance(r, (list, tuple)) else [r]
        for x in results:
            if isinstance(x, ArrayObject):
                if x is not m:
                    new_objects += 1
                if hasattr(x.array, "compute"):
                    x.array.compute()  # run the graph: in-place work on the receiver's blocks would happen here
        ch = changed_measurement(s, m)
        if ch:
            what = ""
            if "metadata" in ch:
                what = f": metadata {s['metadata']} -> {m.metadata}"
            family = "elementwise" if op["name"] in ("abs", "real", "imag", "phase", "intensity") else op["name"]
            raise Violation(f"{case['cls']}.{op['name']} modified the receiver ({ch}){what}", ("measurement", family, "+".join(ch)))
        ctx.label("method:" + op["name"])
    ctx.label("cls:" + case["cls"])
    ctx.label("lazy", case["lazy"])
    ctx.nontrivial(new_objects > 0)
