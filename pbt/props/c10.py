"""C10 Potential building and slice windows are consistent (abtem/potentials/iam.py).

Claims
  eager_lazy_build  build(lazy=False).array == build(lazy=True).compute().array for every
                    ensemble member, for Potential (Atoms / FrozenPhonons / AtomsEnsemble) and
                    CrystalPotential (with/without seeds).  Each member is also compared with
                    an independent reference: Potential(i-th configuration as plain Atoms) for
                    Potential ensembles; "every z-block is the tile of one unit configuration"
                    for CrystalPotential.
  slice_window      list(generate_slices(a, b)) == list(generate_slices())[a:b] (arrays,
                    thicknesses, exit-plane flags) and build(a, b) == build()[a:b], for
                    Potential, PotentialArray (random arrays: exact against numpy slicing) and
                    CrystalPotential, with and without frozen phonons.  The full sequence
                    itself is checked against num_slices / slice_thickness / exit_planes.

Soundness notes
* CrystalPotential with a frozen-phonon unit and seeds=None draws the unit configurations
  from an unseeded RNG (documented: "randomly drawn"); such cases are generated with seeds.
* PotentialArray.build() raises the documented RuntimeError("potential is already built");
  only its slice generation is exercised.
* windows satisfy 0 <= first < last <= num_slices (what abTEM's own callers pass).
"""

from __future__ import annotations

import math

import numpy as np
from hypothesis import strategies as st

from pbt import gen, tol
from pbt.core import Violation, claim

RTOL = 1e-6  # eager/lazy and window paths execute the same float32 operations


# ----------------------------------------------------------------------- generators
@st.composite
def exit_planes_spec(draw, max_slices):
    kind = draw(st.sampled_from(["none", "none", "int", "tuple"]))
    if kind == "none":
        return None
    if kind == "int":
        return draw(st.integers(1, max_slices + 1))
    # sorted slice indices; mapped modulo num_slices and de-duplicated in the check
    return sorted(set(draw(st.lists(st.integers(0, max_slices - 1), min_size=1, max_size=4))))


@st.composite
def atoms_part(draw, max_atoms=4, cz_hi=6.0):
    a = round(draw(gen.floats(3.0, 7.0)), 3)
    b = round(draw(gen.floats(3.0, 7.0)), 3)
    c = round(draw(gen.floats(2.0, cz_hi)), 3)
    n = draw(st.integers(1, max_atoms))
    species = draw(st.lists(st.sampled_from(gen.ELEMENTS), min_size=1, max_size=2, unique=True))
    numbers = [draw(st.sampled_from(species)) for _ in range(n)]
    positions = [[round(draw(gen.floats(0, 1)) * a, 4), round(draw(gen.floats(0, 1)) * b, 4), round(draw(gen.floats(0, 1)) * c, 4)] for _ in range(n)]
    num_slices = draw(st.integers(1, 6))
    return {"cell": [a, b, c], "numbers": numbers, "positions": positions, "slice_thickness": c / (num_slices - 0.5) if num_slices > 1 else c}


@st.composite
def frozen_phonons_spec(draw):
    n = draw(st.sampled_from([2, 3, 1, 4, 2]))
    seed_kind = draw(st.sampled_from(["int", "tuple"]))
    seed = draw(st.integers(0, 10**6)) if seed_kind == "int" else sorted(set(draw(st.lists(st.integers(0, 10**6), min_size=n, max_size=n, unique=True))))
    return {
        "num_configs": n,
        "sigmas": draw(st.sampled_from([0.05, 0.1, 0.2])),
        "seed": seed,
        "ensemble_mean": draw(st.booleans()),
        "directions": draw(st.sampled_from(["xyz", "xy"])),
    }


@st.composite
def builder_case(draw, with_array):
    # (Hypothesis favours early entries: ensembles first)
    kinds = ["frozen_phonons", "crystal_fp", "atoms_ensemble", "crystal", "atoms", "frozen_phonons", "crystal", "crystal_fp"]
    if with_array:
        kinds += ["array", "array", "array_ensemble"]
    kind = draw(st.sampled_from(kinds))
    case = {"kind": kind, "window": [draw(st.integers(0, 40)), draw(st.integers(0, 40))], "exit_planes": draw(exit_planes_spec(6))}
    if kind in ("array", "array_ensemble"):
        n = draw(st.integers(1, 8))
        case["shape"] = ([draw(st.integers(1, 3))] if kind == "array_ensemble" else []) + [n, draw(st.integers(4, 12)), draw(st.integers(4, 12))]
        case["array_seed"] = draw(gen.seeds())
        case["thickness"] = [round(draw(gen.floats(0.2, 2.0)), 3) for _ in range(n)] if draw(st.booleans()) else round(draw(gen.floats(0.2, 2.0)), 3)
        case["extent"] = [round(draw(gen.floats(3.0, 9.0)), 3), round(draw(gen.floats(3.0, 9.0)), 3)]
        return case
    case.update(draw(atoms_part(cz_hi=4.0 if kind.startswith("crystal") else 6.0)))
    case["projection"] = draw(st.sampled_from(["infinite", "infinite", "infinite", "finite"]))
    case["gpts"] = draw(gen.gpts2d(6, 12 if case["projection"] == "finite" else 20))
    if kind in ("frozen_phonons", "crystal_fp"):
        case["fp"] = draw(frozen_phonons_spec())
    if kind == "atoms_ensemble":
        case["fp"] = {"num_configs": draw(st.sampled_from([2, 3, 1, 4, 2])), "seed": draw(st.integers(0, 10**6)), "ensemble_mean": draw(st.booleans())}
    if kind.startswith("crystal"):
        case["reps"] = [draw(st.integers(1, 2)), draw(st.integers(1, 2)), draw(st.integers(1, 3))]
        case["unit_built"] = draw(st.booleans())  # hand CrystalPotential a PotentialArray instead of a builder
        seeds_kind = draw(st.sampled_from(["tuple", "tuple", "int"] + (["none"] if kind == "crystal" else [])))
        if seeds_kind == "none":
            case["seeds"], case["num_frozen_phonons"] = None, None
        elif seeds_kind == "tuple":
            m = draw(st.sampled_from([2, 3, 1, 2]))
            case["seeds"] = draw(st.lists(st.integers(0, 10**6), min_size=m, max_size=m, unique=True))
            case["num_frozen_phonons"] = None
        else:
            case["seeds"] = draw(st.integers(0, 10**6))
            case["num_frozen_phonons"] = draw(st.sampled_from([2, 3, 1, 2]))
        case["crystal_ensemble_mean"] = draw(st.booleans())
    return case


# ----------------------------------------------------------------------- construction
def _atoms(case):
    from ase import Atoms

    return Atoms(numbers=case["numbers"], positions=np.array(case["positions"], dtype=float), cell=case["cell"], pbc=True)


def _trajectory(case):
    """AtomsEnsemble input: explicit, deterministic displaced copies of the atoms."""
    rng = np.random.default_rng(case["fp"]["seed"])
    out = []
    for _ in range(case["fp"]["num_configs"]):
        a = _atoms(case)
        a.positions += 0.1 * rng.standard_normal(a.positions.shape)
        out.append(a)
    return out


def _exit_planes(spec, num_slices):
    if spec is None or isinstance(spec, int):
        return spec
    return tuple(sorted({i % num_slices for i in spec}))


def _unit_potential(abtem, case, structure, exit_planes=None):
    return abtem.Potential(
        structure,
        gpts=tuple(case["gpts"]),
        slice_thickness=case["slice_thickness"],
        projection=case["projection"],
        exit_planes=exit_planes,
    )


def _num_unit_slices(case):
    return int(math.ceil(case["cell"][2] / case["slice_thickness"]))


def make_builder(abtem, case):
    """Returns (potential object, list of reference configurations or None)."""
    kind = case["kind"]
    if kind in ("array", "array_ensemble"):
        array = gen.rand_real(tuple(case["shape"]), case["array_seed"])
        n = case["shape"][-3]
        from abtem.core.axes import FrozenPhononsAxis

        meta = [FrozenPhononsAxis()] if kind == "array_ensemble" else None
        th = case["thickness"]
        pot = abtem.PotentialArray(
            array.copy(),
            slice_thickness=tuple(th) if isinstance(th, list) else th,
            extent=tuple(case["extent"]),
            exit_planes=_exit_planes(case["exit_planes"], n),
            ensemble_axes_metadata=meta,
        )
        return pot, array
    n_unit = _num_unit_slices(case)
    if kind in ("atoms", "crystal"):
        structure, configs = _atoms(case), None
    elif kind in ("frozen_phonons", "crystal_fp"):
        fp = case["fp"]
        seed = tuple(fp["seed"]) if isinstance(fp["seed"], list) else fp["seed"]
        structure = abtem.FrozenPhonons(_atoms(case), fp["num_configs"], fp["sigmas"], directions=fp["directions"], ensemble_mean=fp["ensemble_mean"], seed=seed)
        configs = list(structure)  # documented: iterating yields the displaced configurations
    else:
        configs = _trajectory(case)
        structure = abtem.AtomsEnsemble(configs, ensemble_mean=case["fp"]["ensemble_mean"])
    if not kind.startswith("crystal"):
        return _unit_potential(abtem, case, structure, _exit_planes(case["exit_planes"], n_unit)), configs
    unit = _unit_potential(abtem, case, structure)
    if case["unit_built"]:
        unit = unit.build(lazy=False)
    seeds = tuple(case["seeds"]) if isinstance(case["seeds"], list) else case["seeds"]
    reps = tuple(case["reps"])
    crystal = abtem.CrystalPotential(
        unit,
        reps,
        num_frozen_phonons=case["num_frozen_phonons"],
        exit_planes=_exit_planes(case["exit_planes"], n_unit * reps[2]),
        seeds=seeds,
        ensemble_mean=case["crystal_ensemble_mean"],
    )
    return crystal, configs


def _window(case, n):
    a = case["window"][0] % n
    b = a + 1 + case["window"][1] % (n - a)
    return a, b


def _close(a, b):
    a, b = np.asarray(a), np.asarray(b)
    if a.shape != b.shape:
        return False
    s = max(tol.scale(a), tol.scale(b))
    return tol.max_err(a, b) <= RTOL * s


# ----------------------------------------------------------------------- eager == lazy
def eager_lazy_strategy():
    return builder_case(with_array=False)


@claim(
    "C10",
    "eager_lazy_build",
    eager_lazy_strategy,
    quick=500,
    thorough=5000,
    tol="ulp32(8): 1e-6*max|P| (identical float32 operations on both paths; observed 0)",
    rule="ensemble size >= 2",
    nontrivial_floor=0.3,
    floors={"crystal": 0.2, "potential": 0.2, "finite": 0.1},
)
def check_eager_lazy_build(case, ctx):
    import abtem

    kind = case["kind"]
    ctx.label("crystal" if kind.startswith("crystal") else "potential")
    ctx.label("kind:" + kind)
    ctx.label(case["projection"])
    pot, configs = make_builder(abtem, case)
    ens = tuple(pot.ensemble_shape)
    size = int(np.prod(ens)) if ens else 1
    ctx.nontrivial(size >= 2)
    n = pot.num_slices
    eager = pot.build(lazy=False)
    lazy = pot.build(lazy=True)
    if not lazy.is_lazy or eager.is_lazy:
        raise Violation(f"lazy flag not honoured: eager.is_lazy={eager.is_lazy} lazy.is_lazy={lazy.is_lazy}", ("eager_lazy", "flag", kind))
    lazy = lazy.compute()
    expect_shape = ens + (n,) + tuple(pot.gpts)
    for name, built in (("eager", eager), ("lazy", lazy)):
        if tuple(built.array.shape) != expect_shape:
            raise Violation(f"{name} build has shape {built.array.shape}, expected {expect_shape}", ("eager_lazy", "shape", name, kind))
        if tuple(built.slice_thickness) != tuple(pot.slice_thickness):
            raise Violation(f"{name} build changed the slice thicknesses", ("eager_lazy", "thickness", name, kind))
    if gen.axes_to_plain(eager.ensemble_axes_metadata) != gen.axes_to_plain(lazy.ensemble_axes_metadata):
        raise Violation("ensemble axes metadata differ between eager and lazy build", ("eager_lazy", "metadata", kind))
    e, l = eager.array.astype(np.float64), lazy.array.astype(np.float64)
    scale = max(tol.scale(e), tol.scale(l))
    for idx in np.ndindex(*ens) if ens else [()]:
        if tol.max_err(e[idx], l[idx]) > RTOL * scale:
            raise Violation(
                f"member {idx} of {size}: eager and lazy build differ by {tol.max_err(e[idx], l[idx]):.3e} (scale {scale:.3e}; "
                f"max|eager member|={np.abs(e[idx]).max():.3e}, max|lazy member|={np.abs(l[idx]).max():.3e}); {case}",
                ("eager_lazy", "member_differs", "crystal" if kind.startswith("crystal") else "potential"),
            )
    # independent per-member references (compared with the eager build; lazy == eager is established above)
    if not kind.startswith("crystal"):
        if configs is None:
            return
        if len(configs) != size:
            raise Violation(f"{len(configs)} configurations but ensemble shape {ens}", ("eager_lazy", "num_configs", kind))
        for i, atoms in enumerate(configs):
            ref = _unit_potential(abtem, case, atoms).build(lazy=False).array.astype(np.float64)
            if tol.max_err(e[i], ref) > 1e-5 * max(scale, tol.scale(ref)):
                raise Violation(
                    f"member {i} of the eager build is not the potential of configuration {i} (error {tol.max_err(e[i], ref):.3e}, scale {scale:.3e}); {case}",
                    ("eager_lazy", "member_vs_config"),
                )
        return
    # CrystalPotential: every z-block of every member is the xy-tile of ONE unit configuration
    rx, ry, rz = case["reps"]
    units = [_unit_potential(abtem, case, a).build(lazy=False).array.astype(np.float64) for a in (configs or [_atoms(case)])]
    n_unit = units[0].shape[0]
    if n != n_unit * rz:
        raise Violation(f"CrystalPotential has {n} slices, unit {n_unit} x {rz}", ("eager_lazy", "crystal_slices"))
    tiles = [np.tile(u, (1, rx, ry)) for u in units]
    members = e if ens else e[None]
    for m in range(members.shape[0]):
        for blk in range(rz):
            part = members[m, blk * n_unit : (blk + 1) * n_unit]
            if not any(tol.max_err(part, t) <= 1e-5 * max(tol.scale(t), scale) for t in tiles):
                raise Violation(
                    f"member {m}, z-block {blk}: not the tile of any of the {len(tiles)} unit configurations " f"(max|block|={np.abs(part).max():.3e}); {case}",
                    ("eager_lazy", "crystal_block"),
                )


# ----------------------------------------------------------------------- slice windows
def window_strategy():
    return builder_case(with_array=True)


def _kind_class(kind):
    return "array" if kind.startswith("array") else ("crystal" if kind.startswith("crystal") else "potential")


@claim(
    "C10",
    "slice_window",
    window_strategy,
    quick=800,
    thorough=8000,
    tol="ulp32(8): 1e-6*max|P| for builders, exact for PotentialArray; thicknesses/flags exact",
    rule="window != full range",
    nontrivial_floor=0.4,
    floors={"crystal": 0.1, "potential": 0.15, "array": 0.1, "first>0": 0.2},
)
def check_slice_window(case, ctx):
    import abtem

    kind = case["kind"]
    kc = _kind_class(kind)
    ctx.label(kc)
    ctx.label("kind:" + kind)
    pot, aux = make_builder(abtem, case)
    n = pot.num_slices
    if len(pot.slice_thickness) != n or len(pot) != n:
        raise Violation("num_slices disagrees with slice_thickness", ("window", "num_slices", kc))
    a, b = _window(case, n)
    ctx.nontrivial((a, b) != (0, n))
    ctx.label("first>0", a > 0)
    ctx.label("last<n", b < n)

    full = list(pot.generate_slices())
    if len(full) != n:
        raise Violation(f"generate_slices() yields {len(full)} slices, num_slices = {n}", ("window", "full_length", kc))
    planes = {int(i) for i in pot.exit_planes if i >= 0}
    for i, s in enumerate(full):
        if tuple(s.array.shape) != (1,) + tuple(pot.gpts):
            raise Violation(f"slice {i} has shape {s.array.shape}", ("window", "slice_shape", kc))
        if tuple(s.slice_thickness) != (pot.slice_thickness[i],):
            raise Violation(f"slice {i} has thickness {s.slice_thickness}, potential says {pot.slice_thickness[i]}", ("window", "full_thickness", kc))
        flagged = len(s.exit_planes) > 0
        if tuple(s.exit_planes) not in ((), (0,)) or flagged != (i in planes):
            raise Violation(f"slice {i} has exit_planes {s.exit_planes}, potential exit_planes {pot.exit_planes}", ("window", "full_flags", kc))
    if kc == "array":
        for i, s in enumerate(full):
            ref = aux[(0,) * (aux.ndim - 3) + (i,)]
            if not np.array_equal(np.asarray(s.array[0]), ref):
                raise Violation(f"slice {i} of a PotentialArray is not array[{i}]", ("window", "array_full"))

    part = list(pot.generate_slices(a, b))
    if len(part) != b - a:
        raise Violation(f"generate_slices({a}, {b}) yields {len(part)} slices of {n}; expected {b - a}", ("window", "length", kc))
    scale = max(tol.scale(s.array) for s in full)
    for j, (s, ref) in enumerate(zip(part, full[a:b])):
        err = tol.max_err(s.array, ref.array)
        if (kc == "array" and err != 0) or err > RTOL * scale:
            raise Violation(
                f"generate_slices({a}, {b})[{j}] differs from full[{a + j}] by {err:.3e} (scale {scale:.3e}), n={n}; {case}",
                ("window", "array", kc),
            )
        if tuple(s.slice_thickness) != tuple(ref.slice_thickness):
            raise Violation(f"generate_slices({a}, {b})[{j}] thickness {s.slice_thickness} != {ref.slice_thickness}", ("window", "thickness", kc))
        if tuple(s.exit_planes) != tuple(ref.exit_planes):
            raise Violation(
                f"generate_slices({a}, {b})[{j}] exit_planes {s.exit_planes} != {ref.exit_planes} of full[{a + j}] (potential exit_planes {pot.exit_planes})",
                ("window", "flags", kc),
            )

    if kc == "array":
        # documented: a PotentialArray is already built
        try:
            pot.build(a, b, lazy=False)
        except RuntimeError:
            return
        raise Violation("PotentialArray.build did not raise", ("window", "array_build"))
    ens = tuple(pot.ensemble_shape)
    whole = pot.build(lazy=True).compute().array  # the lazy path is sound for ensembles (see eager_lazy_build)
    for lazy in (False, True):
        sub = pot.build(a, b, lazy=lazy)
        if lazy:
            sub = sub.compute()
        name = "lazy" if lazy else "eager"
        if tuple(sub.array.shape) != ens + (b - a,) + tuple(pot.gpts):
            raise Violation(f"build({a}, {b}, lazy={lazy}) has shape {sub.array.shape}", ("window", "build_shape", kc, name))
        if tuple(sub.slice_thickness) != tuple(pot.slice_thickness[a:b]):
            raise Violation(f"build({a}, {b}) thicknesses {sub.slice_thickness}", ("window", "build_thickness", kc, name))
        ref = whole[(slice(None),) * len(ens) + (slice(a, b),)]
        if not _close(sub.array, ref):
            raise Violation(
                f"build({a}, {b}, lazy={lazy}) differs from build()[{a}:{b}] by {tol.max_err(sub.array, ref):.3e} (scale {tol.scale(ref):.3e}); {case}",
                ("window", "build_array", name, "ensemble" if ens else "single"),
            )
