"""Shared generators for C29 / C30 / C35 (owned by the C29 group): axis-metadata specs
and array objects with random ensemble axes.

Everything drawn is a plain JSON-able *spec*; ``make_axis`` / ``make_object`` turn a spec
into the abTEM object.  Array contents come from ``np.random.default_rng(seed)``.

Soundness notes (from reading the callers in /repo/abtem):
* ordinal ``values`` are what abTEM itself passes: tuples of Python numbers
  (scan.py, tilt.py), of numpy scalars (``tuple(distribution.values)``, transfer.py),
  of strings (``stack(..., axis_metadata=[str, ...])``), of equal-length number tuples
  (TiltAxis, PositionsAxis, WaveVectorAxis) or a 1-D numpy array (reconstruct.py).
  Tuples whose *elements* are numpy arrays are not generated (``==`` on such axes is
  undefined in numpy terms).
* TiltAxis / PositionsAxis values are pairs, AxisAlignedTiltAxis values are numbers
  (their ``item_metadata`` index / add them).
* ``label`` is always a str (it is used as a metadata key by ``item_metadata``).
"""

from __future__ import annotations

import numpy as np
from hypothesis import strategies as st

from pbt import gen

PLAIN_AXES = ["AxisMetadata", "UnknownAxis", "SampleAxis", "FrozenPhononsAxis", "PrismPlaneWavesAxis"]
LINEAR_AXES = ["LinearAxis", "RealSpaceAxis", "ReciprocalSpaceAxis", "ScanAxis"]
ORDINAL_AXES = [
    "OrdinalAxis",
    "NonLinearAxis",
    "AxisAlignedTiltAxis",
    "WaveVectorAxis",
    "TiltAxis",
    "ThicknessAxis",
    "ParameterAxis",
    "PositionsAxis",
]
ALL_AXES = PLAIN_AXES + LINEAR_AXES + ORDINAL_AXES
# axis classes defined outside abtem/core/axes.py (module path); only used by C35
EXTRA_AXES = {"PlasmonAxis": "abtem.inelastic.plasmons"}

# which kinds of values a class is given by abTEM's own code
_VALUE_KINDS = {
    "OrdinalAxis": ["int", "float", "str", "str", "str", "pair", "triple", "npfloat64", "npfloat32", "npint64", "npint64", "nparray_f", "nparray_i", "nparray_i"],
    "NonLinearAxis": ["int", "float", "npfloat64", "npfloat32", "nparray_f"],
    "ThicknessAxis": ["float", "npfloat64", "npfloat32", "nparray_f"],
    "ParameterAxis": ["int", "float", "npfloat64", "npfloat32", "nparray_f"],
    "AxisAlignedTiltAxis": ["float", "npfloat64", "nparray_f"],
    "WaveVectorAxis": ["pair", "triple"],
    "TiltAxis": ["pair"],
    "PositionsAxis": ["pair"],
    "PlasmonAxis": ["quad"],  # (depth, radial angle, azimuthal angle, excitation number)
}

_LABELS = ["", "x", "y", "thickness", "tilt_x", "C10", "defocus", "x, y", "α", "Δf [Å]", "角度", "semiangle_cutoff"]
_UNITS = ["", "Å", "1/Å", "mrad", "pixels", "e", "unknown", "eV", "nm"]
_TEX = ["$x$", "$\\alpha_{cut}$", "$k_x$", "$\\mathrm{\\AA}$"]
_text = st.text(st.characters(min_codepoint=32, max_codepoint=0x2FFF, exclude_categories=("Cs", "Cc")), max_size=6)


def _num(draw):
    """A float that is exactly representable in float32 too (so that npfloat32 values
    compare equal to their Python spelling) and prints shortly."""
    return draw(st.integers(-4000, 4000)) / 8.0


@st.composite
def ordinal_values(draw, cls, n):
    kind = draw(st.sampled_from(_VALUE_KINDS[cls]))
    if kind in ("int", "npint64", "nparray_i"):
        data = [draw(st.integers(-50, 50)) for _ in range(n)]
    elif kind == "str":
        data = [draw(st.one_of(st.sampled_from(["a", "b", "Si", "Au", "bright", "dark"]), _text)) for _ in range(n)]
    elif kind == "pair":
        data = [[_num(draw), _num(draw)] for _ in range(n)]
    elif kind == "triple":
        data = [[_num(draw), _num(draw), _num(draw)] for _ in range(n)]
    elif kind == "quad":
        data = [[_num(draw), _num(draw), _num(draw), draw(st.integers(0, 3))] for _ in range(n)]
    else:
        data = [_num(draw) for _ in range(n)]
    return {"kind": kind, "data": data}


def make_values(v):
    kind, data = v["kind"], v["data"]
    if kind in ("int", "float", "str"):
        return tuple(data)
    if kind in ("pair", "triple"):
        return tuple(tuple(float(x) for x in p) for p in data)
    if kind == "quad":
        return tuple((float(p[0]), float(p[1]), float(p[2]), int(p[3])) for p in data)
    if kind == "npfloat64":
        return tuple(np.float64(x) for x in data)
    if kind == "npfloat32":
        return tuple(np.float32(x) for x in data)
    if kind == "npint64":
        return tuple(np.int64(x) for x in data)
    if kind == "nparray_f":
        return np.array(data, dtype=np.float64)
    if kind == "nparray_i":
        return np.array(data, dtype=np.int64)
    raise ValueError(kind)


def plain_values(v):
    """The value sequence as Python data (tuples for vector values): the reference the
    axis is supposed to describe."""
    if v["kind"] in ("pair", "triple"):
        return [tuple(float(x) for x in p) for p in v["data"]]
    if v["kind"] == "quad":
        return [(float(p[0]), float(p[1]), float(p[2]), int(p[3])) for p in v["data"]]
    return list(v["data"])


@st.composite
def axis_fields(draw, cls, default_bias=0.5):
    """Non-``values`` dataclass fields; each field is left at its default with
    probability ``default_bias``."""
    f = {}
    threshold = draw(st.just(default_bias))

    def maybe(name, strat):
        if draw(st.floats(0, 1)) >= threshold:
            f[name] = draw(strat)

    maybe("label", st.one_of(st.sampled_from(_LABELS), _text))
    if cls in LINEAR_AXES:
        maybe("units", st.sampled_from(_UNITS))
    else:
        maybe("units", st.one_of(st.none(), st.sampled_from(_UNITS)))
    maybe("tex_label", st.one_of(st.none(), st.sampled_from(_TEX)))
    maybe("tex_units", st.one_of(st.none(), st.sampled_from(_TEX)))
    maybe("_default_type", st.sampled_from(["index", "overlay", "range"]))
    maybe("_concatenate", st.booleans())
    maybe("_ensemble_mean", st.booleans())
    maybe("_squeeze", st.booleans())
    if cls in LINEAR_AXES:
        maybe("sampling", st.integers(1, 4000).map(lambda k: k / 400.0))
        maybe("offset", st.integers(-4000, 4000).map(lambda k: k / 40.0))
    if cls in ("RealSpaceAxis", "ScanAxis"):
        maybe("endpoint", st.booleans())
    if cls == "ReciprocalSpaceAxis":
        maybe("fftshift", st.booleans())
    if cls == "ScanAxis":
        maybe("_main", st.booleans())
    if cls == "AxisAlignedTiltAxis":
        maybe("direction", st.sampled_from(["x", "y"]))
    return f


@st.composite
def axis_spec(draw, n=None, classes=None, default_bias=0.5):
    """Spec of one axis.  ``n`` = number of items the axis must describe (ordinal axes
    get exactly n values); None = free (1..5)."""
    classes = list(classes or ALL_AXES)
    if "OrdinalAxis" in classes:  # the generic class carries the widest range of value kinds
        classes = classes + ["OrdinalAxis"] * 2
    cls = draw(st.sampled_from(classes))
    if n is None:
        n = draw(st.integers(0, 5)) if cls in _VALUE_KINDS else draw(st.integers(1, 5))
    spec = {"cls": cls, "fields": draw(axis_fields(cls, default_bias)), "n": n}
    if cls in _VALUE_KINDS:
        spec["values"] = draw(ordinal_values(cls, n))
    return spec


def axis_class(name):
    import importlib

    from abtem.core import axes

    if name in EXTRA_AXES:
        return getattr(importlib.import_module(EXTRA_AXES[name]), name)
    return getattr(axes, name)


def make_axis(spec):
    kw = dict(spec["fields"])
    if "values" in spec:
        kw["values"] = make_values(spec["values"])
    return axis_class(spec["cls"])(**kw)


def is_ordinal(spec):
    return spec["cls"] in ORDINAL_AXES


# ----------------------------------------------------------------- independent comparison
def _same_scalar(a, b, rtol=0.0):
    """Exact equality of two leaves, ignoring only the numpy-vs-Python spelling.
    ``rtol`` > 0 admits a relative difference between two *floats* (used only for
    base-axis fields abTEM derives from its grid: extent / gpts != sampling by an ulp)."""
    if isinstance(a, (np.generic,)):
        a = a.item()
    if isinstance(b, (np.generic,)):
        b = b.item()
    if isinstance(a, bool) or isinstance(b, bool):
        return isinstance(a, bool) and isinstance(b, bool) and a == b
    if isinstance(a, (int, float)) and isinstance(b, (int, float)):
        if float(a) == float(b):
            return True
        return rtol > 0 and abs(float(a) - float(b)) <= rtol * max(abs(float(a)), abs(float(b)))
    return type(a) is type(b) and a == b


def same_value(a, b, rtol=0.0):
    if isinstance(a, (tuple, list)) or isinstance(b, (tuple, list)):
        return (
            isinstance(a, (tuple, list))
            and isinstance(b, (tuple, list))
            and len(a) == len(b)
            and all(same_value(x, y, rtol) for x, y in zip(a, b))
        )
    return _same_scalar(a, b, rtol)


def axis_fields_of(axis):
    import dataclasses

    return {f.name: getattr(axis, f.name) for f in dataclasses.fields(axis)}


def axes_identical(a, b, exclude=(), rtol=0.0):
    """Independent field-by-field comparison of two axis objects (same class, same
    field values exactly; numpy scalars equal to their Python value)."""
    if type(a) is not type(b):
        return False
    fa, fb = axis_fields_of(a), axis_fields_of(b)
    if fa.keys() != fb.keys():
        return False
    return all(same_value(fa[k], fb[k], rtol) for k in fa if k not in exclude)


def describe_axis(a):
    return f"{type(a).__name__}({axis_fields_of(a)})"


# ======================================================================= array objects
OBJ_TYPES = [
    "Waves",
    "Images",
    "DiffractionPatterns",
    "PolarMeasurements",
    "RealSpaceLineProfiles",
    "ReciprocalSpaceLineProfiles",
    "PotentialArray",
]
BASE_DIMS = {
    "Waves": 2,
    "Images": 2,
    "DiffractionPatterns": 2,
    "PolarMeasurements": 2,
    "RealSpaceLineProfiles": 1,
    "ReciprocalSpaceLineProfiles": 1,
    "PotentialArray": 3,
}
_DTYPES = {  # first entry = what abTEM itself produces
    "Waves": ["complex64", "complex128"],
    "Images": ["float32", "complex64", "float64", "complex128", "int32"],
    "DiffractionPatterns": ["float32", "float64", "int32"],
    "PolarMeasurements": ["float32", "float64", "int32"],
    "RealSpaceLineProfiles": ["float32", "complex64", "float64"],
    "ReciprocalSpaceLineProfiles": ["float32", "complex64", "float64"],
    "PotentialArray": ["float32", "float64"],
}
_META_KEYS = ["label", "units", "tex_units", "note", "detector", "Δ", "run id", "n", "defocus"]
# keys abTEM writes itself / interprets: never drawn as free user metadata
RESERVED_META_KEYS = {"axes", "type", "kwargs", "data_origin", "energy", "reciprocal_space", "base_tilt_x", "base_tilt_y", "_type", "_value"}


def _sampling():
    return st.integers(8, 400).map(lambda k: k / 400.0)


@st.composite
def simple_metadata(draw, max_items=3):
    """Flat user metadata (strings / numbers); no reserved keys."""
    md = {}
    for _ in range(draw(st.integers(0, max_items))):
        key = draw(st.sampled_from(_META_KEYS))
        md[key] = draw(st.one_of(st.sampled_from(["a", "arb. unit", "%", "Å"]), st.integers(-5, 5), st.integers(-40, 40).map(lambda k: k / 8.0)))
    return md


@st.composite
def object_spec(draw, types=None, min_ens=0, max_ens=3, max_n=4, wide_dtypes=False, lazy=None, metadata=None, default_bias=0.5, n_choices=None):
    """Spec of an array object with random ensemble axes.

    ``lazy``: None = drawn.  ``metadata``: a strategy for the free user metadata
    (default ``simple_metadata``)."""
    typ = draw(st.sampled_from(types or OBJ_TYPES))
    nens = draw(st.integers(min_ens, max_ens))
    ens = []
    for _ in range(nens):
        n = draw(st.sampled_from(n_choices)) if n_choices else draw(st.integers(1, max_n))
        ens.append(draw(axis_spec(n=n, default_bias=default_bias)))
    bd = BASE_DIMS[typ]
    if bd == 1:
        base = [draw(st.integers(2, 8))]
    elif bd == 2:
        base = [draw(st.integers(2, 6)), draw(st.integers(2, 6))]
    else:
        base = [draw(st.integers(1, 4)), draw(st.integers(2, 5)), draw(st.integers(2, 5))]
    dts = _DTYPES[typ]
    dtype = draw(st.sampled_from(dts)) if wide_dtypes else draw(st.sampled_from([d for d in dts if d in ("float32", "complex64")]))
    p = {}
    if typ == "Waves":
        p = {"energy": draw(gen.energies()), "sampling": [draw(_sampling()), draw(_sampling())], "reciprocal_space": draw(st.booleans())}
    elif typ == "Images":
        p = {"sampling": [draw(_sampling()), draw(_sampling())]}
    elif typ == "DiffractionPatterns":
        p = {"sampling": [draw(_sampling()), draw(_sampling())], "fftshift": draw(st.booleans())}
    elif typ == "PolarMeasurements":
        p = {
            "radial_sampling": draw(st.integers(1, 80)) / 4.0,
            "azimuthal_sampling": draw(st.integers(1, 64)) / 32.0,
            "radial_offset": draw(st.integers(0, 200)) / 4.0,
            "azimuthal_offset": draw(st.integers(-32, 32)) / 32.0,
        }
    elif typ in ("RealSpaceLineProfiles", "ReciprocalSpaceLineProfiles"):
        p = {"sampling": draw(_sampling())}
    elif typ == "PotentialArray":
        ns = base[0]
        if draw(st.booleans()):
            thickness = draw(st.integers(1, 16)) / 8.0
        else:
            thickness = [draw(st.integers(1, 16)) / 8.0 for _ in range(ns)]
        kind = draw(st.sampled_from(["none", "int", "tuple"]))
        if kind == "none":
            ep = None
        elif kind == "int":
            ep = draw(st.integers(1, ns))
        else:
            ep = sorted(draw(st.lists(st.integers(-1, ns - 1), min_size=1, max_size=ns + 1, unique=True)))
        p = {"slice_thickness": thickness, "sampling": [draw(_sampling()), draw(_sampling())], "exit_planes": ep}
    md = draw(metadata if metadata is not None else simple_metadata())
    if typ != "Waves" and typ != "PotentialArray" and draw(st.booleans()):
        md = dict(md)
        md["energy"] = draw(gen.energies())
    if draw(st.integers(0, 3)) == 0:
        md = dict(md)
        md["base_tilt_x"] = draw(st.integers(-40, 40)) / 8.0
        if draw(st.booleans()):
            md["base_tilt_y"] = draw(st.integers(-40, 40)) / 8.0
    is_lazy = draw(st.booleans()) if lazy is None else lazy
    chunks = [draw(gen.partition(a["n"], 3)) for a in ens] if is_lazy else None
    return {
        "type": typ,
        "ens": ens,
        "base": base,
        "dtype": dtype,
        "seed": draw(gen.seeds()),
        "params": p,
        "metadata": md,
        "lazy": is_lazy,
        "chunks": chunks,
    }


def spec_shape(spec):
    return tuple(a["n"] for a in spec["ens"]) + tuple(spec["base"])


def make_array(spec):
    """The reference numpy array of a spec (pure function of shape, dtype and seed)."""
    shape = spec_shape(spec)
    dtype = np.dtype(spec["dtype"])
    rng = np.random.default_rng(spec["seed"])
    if dtype.kind == "c":
        return (rng.standard_normal(shape) + 1j * rng.standard_normal(shape)).astype(dtype)
    if dtype.kind == "i":
        return rng.integers(-1000, 1000, size=shape).astype(dtype)
    # offset keeps measurement-like arrays away from zero (division in arithmetic claims)
    return (rng.standard_normal(shape) + 3.0).astype(dtype)


def tuplify(x):
    if isinstance(x, list):
        return tuple(tuplify(v) for v in x)
    return x


def make_object(spec, array=None):
    """Build the abTEM object of a spec.  ``array`` overrides the generated contents."""
    import abtem
    import dask.array as da
    from abtem import measurements

    arr = make_array(spec) if array is None else array
    if spec["lazy"]:
        chunks = tuple(tuple(c) for c in spec["chunks"]) + (-1,) * len(spec["base"])
        arr = da.from_array(arr, chunks=chunks)
    axes = [make_axis(a) for a in spec["ens"]]
    md = _make_metadata(spec["metadata"])
    p = spec["params"]
    typ = spec["type"]
    if typ == "Waves":
        return abtem.Waves(arr, energy=p["energy"], sampling=tuple(p["sampling"]), reciprocal_space=p["reciprocal_space"], ensemble_axes_metadata=axes, metadata=md)
    if typ == "Images":
        return abtem.Images(arr, sampling=tuple(p["sampling"]), ensemble_axes_metadata=axes, metadata=md)
    if typ == "DiffractionPatterns":
        return abtem.DiffractionPatterns(arr, sampling=tuple(p["sampling"]), fftshift=p["fftshift"], ensemble_axes_metadata=axes, metadata=md)
    if typ == "PolarMeasurements":
        return abtem.PolarMeasurements(arr, ensemble_axes_metadata=axes, metadata=md, **p)
    if typ == "RealSpaceLineProfiles":
        return measurements.RealSpaceLineProfiles(arr, sampling=p["sampling"], ensemble_axes_metadata=axes, metadata=md)
    if typ == "ReciprocalSpaceLineProfiles":
        return measurements.ReciprocalSpaceLineProfiles(arr, sampling=p["sampling"], ensemble_axes_metadata=axes, metadata=md)
    if typ == "PotentialArray":
        ep = p["exit_planes"]
        return abtem.PotentialArray(
            arr,
            slice_thickness=p["slice_thickness"],
            sampling=tuple(p["sampling"]),
            exit_planes=tuple(ep) if isinstance(ep, list) else ep,
            ensemble_axes_metadata=axes,
            metadata=md,
        )
    raise ValueError(typ)


# ---- metadata specs: plain JSON with tagged non-JSON leaves ({"__t": "tuple"|"np", ...})
def _make_metadata(x):
    if isinstance(x, dict):
        if x.get("__t") == "tuple":
            return tuple(_make_metadata(v) for v in x["v"])
        if x.get("__t") == "np":
            return np.dtype(x["dtype"]).type(x["v"])
        return {k: _make_metadata(v) for k, v in x.items()}
    if isinstance(x, list):
        return [_make_metadata(v) for v in x]
    return x


def computed(obj):
    """numpy array of an (eager or lazy) array object / dask array / ndarray."""
    a = obj.array if hasattr(obj, "array") else obj
    if hasattr(a, "compute"):
        a = a.compute()
    return np.asarray(a)


def strict_equal(a, b):
    """Structural equality with container types distinguished (tuple != list) and numpy
    scalars mapped to Python scalars; int != float unless both numpy/Python spell the
    same kind."""
    if isinstance(a, np.generic):
        a = a.item()
    if isinstance(b, np.generic):
        b = b.item()
    if isinstance(a, dict) or isinstance(b, dict):
        return isinstance(a, dict) and isinstance(b, dict) and a.keys() == b.keys() and all(strict_equal(a[k], b[k]) for k in a)
    if isinstance(a, (list, tuple)) or isinstance(b, (list, tuple)):
        return type(a) is type(b) and len(a) == len(b) and all(strict_equal(x, y) for x, y in zip(a, b))
    return type(a) is type(b) and a == b


# ======================================================================= index expressions
@st.composite
def index_item(draw, n):
    """An index expression for a length-n sequence as a JSON spec (n >= 1 for ints)."""
    kinds = ["slice", "slice", "list", "nparray", "mask", "masklist"]
    if n >= 1:
        kinds += ["int", "int", "npint"]
    kind = draw(st.sampled_from(kinds))
    if kind in ("int", "npint"):
        return {"kind": kind, "i": draw(st.integers(-n, n - 1))}
    if kind == "slice":
        lim = st.one_of(st.none(), st.integers(-n - 2, n + 2))
        step = draw(st.one_of(st.none(), st.sampled_from([1, 2, 3, -1, -2])))
        return {"kind": "slice", "start": draw(lim), "stop": draw(lim), "step": step}
    if kind in ("list", "nparray"):
        if n == 0:
            return {"kind": kind, "idx": []}
        return {"kind": kind, "idx": draw(st.lists(st.integers(-n, n - 1), min_size=0 if kind == "nparray" else 1, max_size=6))}
    return {"kind": kind, "mask": [draw(st.booleans()) for _ in range(n)]}


def make_item(it):
    k = it["kind"]
    if k == "int":
        return it["i"]
    if k == "npint":
        return np.int64(it["i"])
    if k == "slice":
        return slice(it["start"], it["stop"], it["step"])
    if k == "list":
        return list(it["idx"])
    if k == "nparray":
        return np.array(it["idx"], dtype=np.int64)
    if k == "mask":
        return np.array(it["mask"], dtype=bool)
    if k == "masklist":
        return [bool(m) for m in it["mask"]]
    raise ValueError(k)


def select(seq, it):
    """Pure-Python reference of indexing a sequence with an item spec -> list."""
    k = it["kind"]
    seq = list(seq)
    if k in ("int", "npint"):
        return [seq[it["i"]]]
    if k == "slice":
        return seq[slice(it["start"], it["stop"], it["step"])]
    if k in ("list", "nparray"):
        return [seq[i] for i in it["idx"]]
    return [v for v, m in zip(seq, it["mask"]) if m]


def axis_with_values(aspec, values):
    """The axis of an ordinal spec, but describing ``values`` (plain Python data)."""
    return axis_class(aspec["cls"])(**aspec["fields"], values=tuple(values))
