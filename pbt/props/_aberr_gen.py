"""Generators of polar aberration coefficient sets (shared by C21, C22, C23, C05).

Magnitudes are scaled per order so that one term contributes at most ``max_rad`` radians
of phase at ``alpha0`` (default 20 rad at 30 mrad): with up to 14 terms this keeps the
float32 phase error of abTEM's evaluation around 1e-5 rad inside 40 mrad."""

from __future__ import annotations

import numpy as np
from hypothesis import strategies as st

from pbt import gen
from pbt.props import _chi_ref as ref

ALPHA0 = 0.03  # [rad] reference angle at which one term contributes at most MAX_RAD
MAX_RAD = 20.0
ORDERS = ref.all_orders()
SYMBOL_TO_ALIAS = {v: k for k, v in ref.ALIASES.items()}  # C10 is special: defocus = -C10


def coeff_cap(n: int, energy: float, max_rad: float = MAX_RAD, alpha0: float = ALPHA0) -> float:
    """|C_nm| [Angstrom] whose term is ``max_rad`` radians at ``alpha0``."""
    return max_rad * (n + 1) * ref.wavelength(energy) / (2 * np.pi * alpha0 ** (n + 1))


@st.composite
def coeff_set(draw, energy, min_size=1, max_size=14, max_rad=MAX_RAD, alpha0=ALPHA0, supported=None):
    """symbol -> value for a random subset of the polar expansion (magnitudes of both signs
    scaled per order, angles in (-pi, pi])."""
    orders = ORDERS if supported is None else supported
    chosen = draw(st.lists(st.sampled_from(orders), min_size=min_size, max_size=min(max_size, len(orders)), unique=True))
    coeffs = {}
    for n, m in sorted(chosen):
        cap = coeff_cap(n, energy, max_rad, alpha0)
        kind = draw(st.sampled_from(["any", "any", "any", "small", "zero"]))
        if kind == "any":
            c = draw(gen.floats(-cap, cap))
        elif kind == "small":
            c = draw(gen.floats(-cap * 1e-2, cap * 1e-2))
        else:
            c = 0.0
        coeffs[f"C{n}{m}"] = c
        if m > 0:
            akind = draw(st.sampled_from(["any", "any", "any", "zero", "pi"]))
            if akind == "any":
                coeffs[f"phi{n}{m}"] = draw(gen.floats(-np.pi, np.pi, exclude_min=True))
            elif akind == "pi":
                coeffs[f"phi{n}{m}"] = float(np.pi)
    return coeffs
