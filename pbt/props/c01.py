"""C01 Lazy and eager evaluation produce the same simulation results."""

from __future__ import annotations

import numpy as np
from hypothesis import strategies as st

from pbt import gen, pipeline as pl, tol
from pbt.core import Violation, claim

RTOL = 2e-4

SCHEDULERS = [["synchronous", 1], ["threads", 2], ["threads", 4]]


@st.composite
def variants(draw, n=2):
    out = []
    for _ in range(n):
        out.append({"max_batch": draw(st.sampled_from([1, 2, 3, 5, "auto"])), "scheduler": draw(st.sampled_from(SCHEDULERS))})
    return out


@st.composite
def pipeline_case(draw):
    spec = draw(pl.pipeline_spec(max_configs=3, max_slices=5, max_detectors=3, gpts=(8, 20), finite_fraction=0.06))
    # a small fraction of deliberately invalid pipelines, in ways abTEM documents:
    # a detector whose outer angle exceeds the simulated angular range
    if draw(st.integers(0, 11)) == 0:
        spec["detectors"].append({"kind": "annular", "inner": 0.1, "outer": round(draw(gen.floats(1.6, 3.0)), 2)})
        spec["invalid"] = "detector_beyond_range"
    else:
        spec["invalid"] = None
    spec["variants"] = draw(variants(draw(st.integers(1, 2))))
    spec["fft"] = draw(st.sampled_from(["fftw", "fftw", "numpy"]))
    return spec


def _outcome(fn):
    """Run fn; return ('ok', result) or ('raise', exception).  Used only to compare the
    outcome *class* of the eager and the lazy mode (the property says they succeed or
    fail together); the exception is re-raised by the caller when the modes disagree."""
    try:
        return "ok", fn()
    except (KeyboardInterrupt, SystemExit, MemoryError):
        raise
    except Exception as e:  # noqa: BLE001 - outcome class is the oracle here
        return "raise", e


def compare_outputs(eager, lazy, dets, tag, ctx):
    if len(eager) != len(lazy):
        raise Violation(f"{tag}: {len(lazy)} lazy outputs vs {len(eager)} eager", ("num_outputs",))
    for e, l, det in zip(eager, lazy, dets):
        de, dl = pl.describe(e), pl.describe(l)
        for key in ("type", "shape", "dtype"):
            if de[key] != dl[key]:
                raise Violation(f"{tag}: {key} differs for detector {det['kind']}: eager {de[key]} lazy {dl[key]}", (key, det["kind"]))
        if not gen.approx_equal_plain(de["axes"], dl["axes"], rtol=1e-9):
            raise Violation(f"{tag}: axes metadata differ for detector {det['kind']}: eager {de['axes']} lazy {dl['axes']}", ("axes_metadata", det["kind"]))
        if not gen.approx_equal_plain(de["metadata"], dl["metadata"], rtol=1e-9):
            raise Violation(f"{tag}: metadata differ for detector {det['kind']}: eager {de['metadata']} lazy {dl['metadata']}", ("metadata", det["kind"]))
        if not tol.close(l.array, e.array, rtol=RTOL):
            raise Violation(
                f"{tag}: values differ for detector {det['kind']}: rel err {tol.rel_err(l.array, e.array):.2e} (max|eager|={tol.scale(e.array):.3g})",
                ("values", det["kind"]),
            )


@claim(
    "C01",
    "multislice_lazy_equals_eager",
    pipeline_case,
    quick=220,
    thorough=5000,
    tol=f"pipeline rtol={RTOL}; type/shape/dtype/axes/metadata exact",
    rule="the lazy graph has >=2 blocks along some axis, or the potential has >=2 configurations or >=2 exit planes",
    nontrivial_floor=0.3,
    floors={"both_ok": 0.6},
)
def check_pipeline(case, ctx):
    import abtem

    pot = case["potential"]
    ctx.label(f"pot={pot['kind']}")
    ctx.label(f"builder={case['builder']['kind']}")
    ctx.label(f"scan={case['scan']['kind']}")
    ctx.label(f"fft={case['fft']}")
    for d in case["detectors"]:
        ctx.label(f"det={d['kind']}")
    with abtem.config.set({"fft": case["fft"]}):
        kind_e, res_e = _outcome(lambda: pl.run_pipeline(case, lazy=False))
        multi = False
        for v in case["variants"]:
            tag = f"lazy(max_batch={v['max_batch']}, scheduler={v['scheduler']})"
            ctx.label(f"sched={v['scheduler'][0]}{v['scheduler'][1]}")
            kind_l, res_l = _outcome(lambda: pl.run_pipeline(case, lazy=True, max_batch=v["max_batch"], scheduler=tuple(v["scheduler"])))
            if kind_e != kind_l:
                exc = res_e if kind_e == "raise" else res_l
                which = "eager" if kind_e == "raise" else "lazy"
                from pbt.core import exception_bucket

                b = exception_bucket(exc)
                if b[0] == "harness":
                    raise exc
                raise Violation(
                    f"{which} raises {type(exc).__name__}: {exc} while the other mode succeeds ({tag})",
                    ("outcome", which + "_raises", type(exc).__name__, b[-1]),
                ) from exc
            if kind_e == "raise":
                ctx.label("both_raise")
                ctx.label("both_raise_valid_input", case["invalid"] is None)
                if case["invalid"] is None:
                    # a sound pipeline that fails in both modes is not a C01 violation, but it
                    # must not be a harness bug either
                    from pbt.core import exception_bucket

                    if exception_bucket(res_e)[0] == "harness":
                        raise res_e
                continue
            (out_e, _), (out_l, blocks) = res_e, res_l
            if any(b is not None and any(n > 1 for n in b) for b in blocks):
                multi = True
            compare_outputs(out_e, out_l, case["detectors"], tag, ctx)
        if kind_e == "ok":
            ctx.label("both_ok")
        ncfg = pot.get("num_configs", 1) if pot["kind"] != "crystal" else (pot.get("num_frozen_phonons") or 1)
        if pot["kind"] == "array":
            ncfg = pot["array_configs"] or 1
        ep = pot.get("exit_planes")
        ctx.label("multi_block", multi)
        ctx.label("configs>=2", ncfg >= 2)
        ctx.label("exit_planes", ep is not None)
        ctx.nontrivial(kind_e == "ok" and (multi or ncfg >= 2 or ep is not None))


# ------------------------------------------------------------------------------ build + ctf
@st.composite
def build_case(draw):
    g = draw(gen.grid_spec(lo=8, hi=24))
    b = draw(pl.builder_spec(kinds=("probe", "probe", "planewave")))
    case = {"grid": g, "builder": b}
    if b["kind"] == "probe":
        case["scan"] = draw(pl.scan_spec(g["extent"] + [1.0]))
        case["defocus_ensemble"] = draw(st.sampled_from([None, None, [0.0, 30.0], [-20.0, 10.0, 50.0]]))
    else:
        case["scan"] = {"kind": "none"}
        case["defocus_ensemble"] = None
    case["post"] = draw(st.sampled_from(["none", "ctf", "ctf_ensemble", "intensity", "diffraction"]))
    case["variants"] = draw(variants(draw(st.integers(1, 2))))
    return case


def _build(case, lazy, v=None):
    import abtem
    import dask

    b, g = case["builder"], case["grid"]
    if b["kind"] == "probe":
        ab = dict(b["aberrations"])
        if case["defocus_ensemble"] is not None:
            ab["defocus"] = np.array(case["defocus_ensemble"])
        probe = abtem.Probe(semiangle_cutoff=1.0, energy=b["energy"], extent=tuple(g["extent"]), gpts=tuple(g["gpts"]))
        cut = min(probe.cutoff_angles)
        probe = abtem.Probe(
            semiangle_cutoff=b["semiangle"] * cut, energy=b["energy"], extent=tuple(g["extent"]), gpts=tuple(g["gpts"]), soft=b["soft"], tilt=tuple(b["tilt"]), **ab
        )
        w = probe.build(scan=pl.make_scan(case["scan"]), lazy=lazy, max_batch=(v or {}).get("max_batch", "auto"))
    else:
        pw = abtem.PlaneWave(energy=b["energy"], extent=tuple(g["extent"]), gpts=tuple(g["gpts"]), normalize=b["normalize"], tilt=tuple(b["tilt"]))
        w = pw.build(lazy=lazy)
    post = case["post"]
    if post == "ctf":
        w = w.apply_ctf(defocus=40.0, Cs=1e5)
    elif post == "ctf_ensemble":
        w = w.apply_ctf(defocus=np.array([0.0, 25.0, 60.0]), semiangle_cutoff=0.5 * min(w.cutoff_angles))
    elif post == "intensity":
        w = w.intensity()
    elif post == "diffraction":
        w = w.diffraction_patterns(max_angle="valid")
    blocks = getattr(w.array, "numblocks", None)
    if lazy:
        sch = tuple((v or {}).get("scheduler", ["synchronous", 1]))
        with dask.config.set(scheduler=sch[0], num_workers=sch[1]):
            w = w.compute()
    return w, blocks


@claim(
    "C01",
    "build_and_ctf_lazy_equals_eager",
    build_case,
    quick=300,
    thorough=6000,
    tol=f"rtol={RTOL}; metadata exact",
    rule="the lazy graph has >=2 blocks along some axis or an ensemble axis of size >=2",
    nontrivial_floor=0.3,
)
def check_build(case, ctx):
    ctx.label(f"builder={case['builder']['kind']}")
    ctx.label(f"post={case['post']}")
    ctx.label(f"scan={case['scan']['kind']}")
    ref, _ = _build(case, lazy=False)
    multi = False
    for v in case["variants"]:
        out, blocks = _build(case, lazy=True, v=v)
        if blocks is not None and any(n > 1 for n in blocks):
            multi = True
        compare_outputs([ref], [out], [{"kind": case["post"]}], f"lazy({v})", ctx)
    ctx.label("multi_block", multi)
    ctx.nontrivial(multi or any(n > 1 for n in ref.ensemble_shape))
