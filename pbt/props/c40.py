"""C40 Centre of mass and integrated gradients are exact on analytic inputs
(abtem/measurements.py: DiffractionPatterns.center_of_mass / _com / coordinates /
angular_coordinates; Images.integrate_gradient / _integrate_gradient_2d).

Claims
  com                 : center_of_mass(units) of directly constructed DiffractionPatterns
                        (sum of every pattern = 1) == sum_ij I_ij * (k_x,i + 1j * k_y,j), with k
                        from an independent float64 grid: numpy.fft.fftfreq ordering when
                        fftshift=False, centred ordering ((i - n//2) * dk) when fftshift=True;
                        'mrad' = k * wavelength * 1e3 with the wavelength from CODATA constants.
  integrate_gradient  : for a random real trigonometric polynomial f (harmonics strictly below
                        Nyquist) on an anisotropic periodic grid, integrate_gradient of the
                        analytic gradient (df/dx + 1j df/dy) equals f up to an additive
                        constant per image.
"""

from __future__ import annotations

import numpy as np
from hypothesis import strategies as st

from pbt import gen, tol
from pbt.core import Violation, claim

# CODATA 2018 (independent of abtem.core.energy / ase.units)
_H = 6.62607015e-34
_C = 299792458.0
_E = 1.602176634e-19
_M = 9.1093837015e-31


def wavelength_angstrom(energy_ev: float) -> float:
    ev = energy_ev * _E
    return _H * _C / np.sqrt(ev * (2 * _M * _C**2 + ev)) * 1e10


# ----------------------------------------------------------------------- generators
@st.composite
def scan_layout(draw, max_scan=2):
    n_scan = draw(st.integers(1, max_scan))
    scan_shape = [draw(st.integers(1, 3)) for _ in range(n_scan)]
    extra = draw(st.sampled_from([0, 0, 2]))
    lazy = draw(st.sampled_from([False, False, True]))
    chunks = [draw(gen.partition(n, 2)) for n in scan_shape] if lazy else None
    return {"scan_shape": scan_shape, "extra": extra, "lazy": lazy, "chunks": chunks}


@st.composite
def com_case(draw):
    return {
        "gpts": [draw(st.integers(3, 24)), draw(st.integers(3, 24))],
        "sampling": [round(draw(gen.floats(0.01, 0.25)), 4), round(draw(gen.floats(0.01, 0.25)), 4)],
        "energy": draw(gen.energies()),
        "fftshift": draw(st.booleans()),
        "units": draw(st.sampled_from(["1/Å", "mrad"])),
        "layout": draw(scan_layout()),
        "kind": draw(st.sampled_from(["random", "pixel"])),
        "pixel": [draw(st.integers(0, 23)), draw(st.integers(0, 23))],
        "seed": draw(gen.seeds()),
    }


def _ensemble_shape(layout):
    return tuple(([layout["extra"]] if layout["extra"] else []) + layout["scan_shape"])


def _ensemble_axes(layout):
    from abtem.core.axes import OrdinalAxis, ScanAxis

    axes = []
    if layout["extra"]:
        axes.append(OrdinalAxis(label="member", values=tuple(range(layout["extra"]))))
    axes += [ScanAxis(label="xy"[i % 2], sampling=0.2 + 0.1 * i, units="Å") for i in range(len(layout["scan_shape"]))]
    return axes


def _maybe_lazy(array, layout, base_ndim=2):
    if not layout["lazy"]:
        return array
    import dask.array as da

    ch = tuple(
        ([(layout["extra"],)] if layout["extra"] else [])
        + [tuple(c) for c in layout["chunks"]]
        + [(n,) for n in array.shape[-base_ndim:]]
    )
    bc = layout.get("base_chunks")
    if bc:
        # base axes split into two chunks (a measurement loaded from disk may be chunked anyhow)
        base = []
        for n, split in zip(array.shape[-base_ndim:], bc):
            base.append((n // 2, n - n // 2) if split and n >= 2 else (n,))
        ch = ch[:-base_ndim] + tuple(base)
    return da.from_array(array, chunks=ch)


def _patterns(case):
    n0, n1 = case["gpts"]
    ens = _ensemble_shape(case["layout"])
    npat = int(np.prod(ens))
    if case["kind"] == "random":
        rng = np.random.default_rng(case["seed"])
        a = rng.random((npat, n0, n1)) ** 3  # non-negative, a few dominant pixels
    else:
        a = np.zeros((npat, n0, n1))
        i, j = case["pixel"]
        for p in range(npat):
            a[p, (i + p) % n0, (j + 2 * p) % n1] = 1.0
    a /= a.sum((-2, -1), keepdims=True)
    return a.reshape(ens + (n0, n1)).astype(np.float32)


def _k_grid(n, dk, fftshift):
    k = np.fft.fftfreq(n, d=1.0 / (n * dk))  # numpy ordering: 0, dk, ..., -dk
    if fftshift:
        k = (np.arange(n) - n // 2) * dk  # zero frequency at index n // 2
    return k.astype(np.float64)


# ----------------------------------------------------------------------- claims
@claim(
    "C40",
    "com",
    com_case,
    quick=1200,
    thorough=24000,
    tol="1e-5 * max|k| absolute (float32 coordinates and products)",
    rule="|expected COM| > 1e-3 * max|k| (intensity not symmetric about the origin)",
    nontrivial_floor=0.5,
    floors={"unshifted": 0.25, "mrad": 0.25, "pixel": 0.25},
)
def check_com(case, ctx):
    from abtem.measurements import DiffractionPatterns, Images, RealSpaceLineProfiles

    layout = case["layout"]
    array = _patterns(case)
    dp = DiffractionPatterns(
        _maybe_lazy(array, layout),
        sampling=tuple(case["sampling"]),
        fftshift=case["fftshift"],
        ensemble_axes_metadata=_ensemble_axes(layout),
        metadata={"energy": case["energy"]},
    )
    unit_factor = wavelength_angstrom(case["energy"]) * 1e3 if case["units"] == "mrad" else 1.0
    kx = _k_grid(case["gpts"][0], case["sampling"][0], case["fftshift"]) * unit_factor
    ky = _k_grid(case["gpts"][1], case["sampling"][1], case["fftshift"]) * unit_factor
    a64 = array.astype(np.float64)
    total = a64.sum((-2, -1))
    ref = ((a64 * kx[:, None]).sum((-2, -1)) + 1j * (a64 * ky[None, :]).sum((-2, -1))) / total
    kmax = max(np.abs(kx).max(), np.abs(ky).max())

    ctx.label("shifted" if case["fftshift"] else "unshifted")
    ctx.label("mrad" if case["units"] == "mrad" else "1/A")
    ctx.label(case["kind"])
    ctx.label("lazy", layout["lazy"])
    ctx.label(f"scan{len(layout['scan_shape'])}")
    parity = ["odd" if n % 2 else "even" for n in case["gpts"]]
    ctx.label("has_odd_side", "odd" in parity)
    ctx.nontrivial(bool(np.abs(ref).max() > 1e-3 * kmax))

    com = dp.center_of_mass(units=case["units"])
    expected = Images if len(layout["scan_shape"]) == 2 else RealSpaceLineProfiles
    if type(com) is not expected:
        raise Violation(f"center_of_mass returned {type(com).__name__}, expected {expected.__name__}", ("com", "type"))
    got = np.asarray(com.compute().array if com.is_lazy else com.array)
    if got.shape != ref.shape:
        raise Violation(f"center_of_mass shape {got.shape} != ensemble shape {ref.shape}", ("com", "shape"))
    if not np.iscomplexobj(got):
        raise Violation(f"center_of_mass dtype {got.dtype} is not complex", ("com", "dtype"))
    atol = 1e-5 * kmax
    ex = np.abs(got.real - ref.real).max()
    ey = np.abs(got.imag - ref.imag).max()
    if ex > atol or ey > atol:
        comp = "x" if ex > atol else "y"
        par = parity[0] if ex > atol else parity[1]
        raise Violation(
            f"center_of_mass(units={case['units']!r}) of {case['gpts']} patterns, fftshift={case['fftshift']}, "
            f"sampling {case['sampling']}: {comp}-component off by {max(ex, ey):.3g} "
            f"(= {max(ex, ey) / kmax:.3g} * max|k|); got {got.ravel()[0]:.6g}, expected {ref.ravel()[0]:.6g}",
            bucket=("com", case["units"], "shifted" if case["fftshift"] else "unshifted", par),
        )


@st.composite
def gradient_case(draw):
    n0, n1 = draw(st.integers(3, 24)), draw(st.integers(3, 24))
    h0, h1 = min(4, (n0 - 1) // 2), min(4, (n1 - 1) // 2)
    nterms = draw(st.integers(1, 5))
    terms = []
    for _ in range(nterms):
        terms.append(
            {
                "hx": draw(st.integers(-h0, h0)),
                "hy": draw(st.integers(0, h1)),
                "amp": round(draw(gen.floats(0.1, 2.0)), 3),
                "phase": round(draw(gen.floats(0.0, 6.28)), 3),
            }
        )
    layout = draw(scan_layout())
    layout["scan_shape"] = []  # images: only the optional leading ensemble axis
    layout["chunks"] = [] if layout["lazy"] else None
    if layout["lazy"]:
        layout["base_chunks"] = draw(st.sampled_from([[False, False], [True, False], [False, True], [True, True]]))
    return {
        "gpts": [n0, n1],
        "sampling": [round(draw(gen.floats(0.05, 0.5)), 3), round(draw(gen.floats(0.05, 0.5)), 3)],
        "terms": terms,
        "layout": layout,
    }


def _field_and_gradient(case):
    """f and its analytic gradient on the grid, for every ensemble member m (amplitudes
    scaled by m + 1, phases advanced by m)."""
    n0, n1 = case["gpts"]
    d0, d1 = case["sampling"]
    lx, ly = n0 * d0, n1 * d1
    x = (np.arange(n0) * d0)[:, None]
    y = (np.arange(n1) * d1)[None, :]
    members = case["layout"]["extra"] or 1
    f = np.zeros((members, n0, n1))
    gx = np.zeros_like(f)
    gy = np.zeros_like(f)
    for m in range(members):
        for t in case["terms"]:
            wx, wy = 2 * np.pi * t["hx"] / lx, 2 * np.pi * t["hy"] / ly
            arg = wx * x + wy * y + t["phase"] + m
            amp = t["amp"] * (m + 1)
            f[m] += amp * np.cos(arg)
            gx[m] += -amp * wx * np.sin(arg)
            gy[m] += -amp * wy * np.sin(arg)
    if not case["layout"]["extra"]:
        f, gx, gy = f[0], gx[0], gy[0]
    return f, gx, gy


@claim(
    "C40",
    "integrate_gradient",
    gradient_case,
    quick=800,
    thorough=16000,
    tol="1e-5 * (max f - min f) absolute (observed <= 1e-7), per image, after removing the additive constant",
    rule="f is not constant (range > 1e-3)",
    nontrivial_floor=0.6,
)
def check_integrate_gradient(case, ctx):
    from abtem.measurements import Images

    layout = case["layout"]
    f, gx, gy = _field_and_gradient(case)
    grad = (gx + 1j * gy).astype(np.complex64)
    images = Images(
        _maybe_lazy(grad, layout),
        sampling=tuple(case["sampling"]),
        ensemble_axes_metadata=_ensemble_axes(layout),
    )
    rng_f = float(f.max() - f.min())
    ctx.nontrivial(rng_f > 1e-3)
    ctx.label("lazy", layout["lazy"])
    ctx.label("base_chunked", bool(layout.get("base_chunks")) and any(layout["base_chunks"]))
    ctx.label("ensemble", bool(layout["extra"]))
    ctx.label("anisotropic", case["sampling"][0] != case["sampling"][1])
    ctx.label("odd_side", any(n % 2 for n in case["gpts"]))

    out = images.integrate_gradient()
    if type(out) is not Images:
        raise Violation(f"integrate_gradient returned {type(out).__name__}", ("gradient", "type"))
    if tuple(out.sampling) != tuple(images.sampling):
        raise Violation(f"sampling changed {images.sampling} -> {out.sampling}", ("gradient", "sampling"))
    got = np.asarray(out.compute().array if out.is_lazy else out.array)
    if got.shape != f.shape:
        raise Violation(f"shape {got.shape} != {f.shape}", ("gradient", "shape"))
    if np.iscomplexobj(got):
        raise Violation(f"integrated gradient has complex dtype {got.dtype}", ("gradient", "dtype"))
    diff = got.astype(np.float64) - f
    diff = diff - diff.mean((-2, -1), keepdims=True)  # "up to a constant" (per image)
    err = float(np.abs(diff).max())
    ctx.note("err_over_range", err / rng_f if rng_f else 0.0)
    if err > 1e-5 * rng_f + 1e-7:
        raise Violation(
            f"integrate_gradient of the exact gradient of a {case['gpts']} field (sampling {case['sampling']}, "
            f"{len(case['terms'])} harmonics) differs from the field by {err:.3g} = {err / max(rng_f, 1e-30):.3g} * range "
            f"after removing the constant",
            bucket=("gradient", "values", "anisotropic" if case["sampling"][0] != case["sampling"][1] else "isotropic"),
        )
