"""C35 Axis metadata behaves like the value sequences it describes (abtem/core/axes.py).

Claims
  dict_roundtrip       axis -> dict -> axis gives an equal axis of the same class (both
                       ``axis_to_dict/axis_from_dict`` and ``to_dict/from_dict``), also
                       after the dict went through JSON with zarr's tuple tagging.
  ordinal_getitem      ``axis[item].values`` are the selected values (pure-Python
                       reference), other fields and class unchanged.
  ordinal_concatenate  ``a.concatenate(b).values == a.values + b.values``; RuntimeError
                       when another field or the axis family differs.
  linear_coordinates   ``coordinates(n)[i] == offset + i * sampling`` (float64).
"""

from __future__ import annotations

import copy
import json

import numpy as np
from hypothesis import strategies as st

from pbt import gen
from pbt.core import Violation, claim
from pbt.props import _arrayobjs as ao


# ======================================================================= dict round trip
@st.composite
def roundtrip_case(draw):
    # every AxisMetadata subclass abTEM defines, including the one outside core/axes.py
    return {"axis": draw(ao.axis_spec(classes=ao.ALL_AXES + list(ao.EXTRA_AXES)))}


def _leaf_types_ok(x):
    if isinstance(x, dict):
        return all(isinstance(k, str) and _leaf_types_ok(v) for k, v in x.items())
    if isinstance(x, (tuple, list)):
        return all(_leaf_types_ok(v) for v in x)
    return x is None or isinstance(x, (str, bool, int, float, np.integer, np.floating, np.bool_))


def _encode(obj):
    """Reference copy of the documented zarr attribute encoding: tuples are tagged,
    numpy scalars become Python scalars (ComputableList.to_zarr.encode_types)."""
    if isinstance(obj, tuple):
        return {"_type": "tuple", "_value": [_encode(v) for v in obj]}
    if isinstance(obj, list):
        return [_encode(v) for v in obj]
    if isinstance(obj, dict):
        return {k: _encode(v) for k, v in obj.items()}
    if isinstance(obj, np.generic):
        return obj.item()
    return obj


def _decode(obj):
    if isinstance(obj, dict):
        if obj.get("_type") == "tuple":
            return tuple(_decode(v) for v in obj["_value"])
        return {k: _decode(v) for k, v in obj.items()}
    if isinstance(obj, list):
        return [_decode(v) for v in obj]
    return obj


@claim(
    "C35",
    "dict_roundtrip",
    roundtrip_case,
    quick=2000,
    thorough=50000,
    tol="exact",
    rule="the axis has >=1 non-default field or >=1 ordinal value",
    nontrivial_floor=0.4,
)
def check_dict_roundtrip(case, ctx):
    from abtem.core.axes import AxisMetadata, axis_from_dict, axis_to_dict

    spec = case["axis"]
    a = ao.make_axis(spec)
    reference = ao.make_axis(spec)  # second, independent construction = the expected axis
    cls = spec["cls"]
    ctx.label("cls=" + cls)
    if "values" in spec:
        ctx.label("values=" + spec["values"]["kind"])
    ctx.nontrivial(bool(spec["fields"]) or spec.get("values", {}).get("data"))

    for name, to_d, from_d in (
        ("axis_to_dict", axis_to_dict, axis_from_dict),
        ("to_dict", lambda x: x.to_dict(), AxisMetadata.from_dict),
    ):
        d = to_d(a)
        if d.get("type") != cls:
            raise Violation(f"{name}: type entry {d.get('type')!r} for a {cls}", (name, "type_entry"))
        if not _leaf_types_ok(d):
            raise Violation(f"{name}: dict holds non-serialisable leaves: {d!r}", (name, "leaf_types"))
        try:
            b = from_d(d)
        except KeyError as e:
            raise Violation(f"{name}: cannot rebuild a {cls} from its own dict: KeyError {e}", ("unknown_class", cls))
        if type(b) is not type(a):
            raise Violation(f"{name}: class {type(b).__name__} came back for {cls}", (name, "class"))
        if not ao.axes_identical(b, reference):
            raise Violation(
                f"{name}: fields changed: {ao.describe_axis(reference)} -> {ao.describe_axis(b)}",
                (name, "fields", "ordinal" if "values" in spec else "plain"),
            )
        if not (b == a) or not (a == b):
            raise Violation(f"{name}: round-tripped axis does not compare equal (==) for {spec}", (name, "eq"))
        # the original is not disturbed by serialising it
        if not ao.axes_identical(a, reference):
            raise Violation(f"{name}: serialising changed the axis {spec}", (name, "mutates"))

        # through JSON, the way the zarr attributes store it
        try:
            text = json.dumps(_encode(d), allow_nan=False)
        except (TypeError, ValueError) as e:
            raise Violation(f"{name}: dict not JSON-serialisable ({e}): {d!r}", (name, "json"))
        c = from_d(_decode(json.loads(text)))
        if type(c) is not type(a) or not ao.axes_identical(c, reference):
            raise Violation(
                f"{name}: JSON round trip changed the axis: {ao.describe_axis(reference)} -> {ao.describe_axis(c)}",
                (name, "json_fields", "ordinal" if "values" in spec else "plain"),
            )
        if not (c == a):
            raise Violation(f"{name}: JSON round-tripped axis != original for {spec}", (name, "json_eq"))


# ======================================================================= ordinal __getitem__
index_item, make_item, select = ao.index_item, ao.make_item, ao.select


@st.composite
def getitem_case(draw):
    n = draw(st.integers(0, 6))
    spec = draw(ao.axis_spec(n=n, classes=ao.ORDINAL_AXES))
    item = draw(index_item(n))
    # a list of booleans of length 0 is an empty *integer* list for numpy: not a mask
    if item["kind"] == "masklist" and n == 0:
        item = {"kind": "mask", "mask": []}
    return {"axis": spec, "item": item}


@claim(
    "C35",
    "ordinal_getitem",
    getitem_case,
    quick=2000,
    thorough=50000,
    tol="exact",
    rule="axis has >=2 values and the selection differs from the whole sequence",
    nontrivial_floor=0.4,
)
def check_ordinal_getitem(case, ctx):
    spec, it = case["axis"], case["item"]
    a = ao.make_axis(spec)
    reference = ao.make_axis(spec)
    ctx.label("cls=" + spec["cls"])
    ctx.label("item=" + it["kind"])
    ctx.label("values=" + spec["values"]["kind"])
    expected = select(ao.plain_values(spec["values"]), it)
    ctx.nontrivial(spec["n"] >= 2 and expected != ao.plain_values(spec["values"]))

    b = a[make_item(it)]
    bucket_tail = (it["kind"], "vector" if spec["values"]["kind"] in ("pair", "triple") else "scalar")
    if type(b) is not type(a):
        raise Violation(f"class changed to {type(b).__name__} for {case}", ("class",) + bucket_tail)
    if not isinstance(b.values, tuple):
        raise Violation(f"values is a {type(b.values).__name__}, not a tuple, for {case}", ("values_type",) + bucket_tail)
    if not ao.same_value(b.values, expected):
        raise Violation(f"selected values {b.values!r} != expected {expected!r} for {case}", ("values",) + bucket_tail)
    if len(b) != len(expected):
        raise Violation(f"len {len(b)} != {len(expected)}", ("len",) + bucket_tail)
    if not ao.axes_identical(b, reference, exclude=("values",)):
        raise Violation(f"other fields changed: {ao.describe_axis(reference)} -> {ao.describe_axis(b)}", ("fields",) + bucket_tail)
    if not ao.axes_identical(a, reference):
        raise Violation(f"indexing changed the axis itself for {case}", ("mutates",) + bucket_tail)
    if not ao.same_value(b.coordinates(len(expected)), expected):
        raise Violation(f"coordinates {b.coordinates(len(expected))!r} != selected values {expected!r}", ("coordinates",) + bucket_tail)


# ======================================================================= ordinal concatenate
_DIFFER = ["label", "units", "tex_label", "tex_units", "_default_type", "_ensemble_mean", "_squeeze", "family"]


@st.composite
def concat_case(draw):
    na = draw(st.integers(0, 5))
    a = draw(ao.axis_spec(n=na, classes=ao.ORDINAL_AXES))
    # `_concatenate=False` on an ordinal axis is not used by abTEM and the property
    # statement does not say what it means there: not generated.
    a["fields"].pop("_concatenate", None)
    nparts = draw(st.integers(1, 3))
    others = []
    for _ in range(nparts):
        nb = draw(st.integers(0, 4))
        vals = draw(ao.ordinal_values(a["cls"], nb))
        others.append({"cls": a["cls"], "fields": dict(a["fields"]), "n": nb, "values": vals})
    mode = draw(st.sampled_from(["same", "same", "same"] + _DIFFER))
    return {"a": a, "others": others, "mode": mode, "which": draw(st.integers(0, nparts - 1))}


def _make_different(spec, field):
    """Change ``field`` of an axis spec to a value clearly different from the current one."""
    from abtem.core import axes

    cur = ao.axis_fields_of(ao.make_axis(spec))
    out = copy.deepcopy(spec)
    if field in ("_ensemble_mean", "_squeeze"):
        out["fields"][field] = not cur[field]
    elif field == "_default_type":
        out["fields"][field] = "overlay" if cur[field] != "overlay" else "range"
    else:  # label, units, tex_label, tex_units: strings / None
        out["fields"][field] = "other" if cur[field] != "other" else "another"
    return out


@claim(
    "C35",
    "ordinal_concatenate",
    concat_case,
    quick=1500,
    thorough=40000,
    tol="exact",
    rule=">=1 value on each side of at least one concatenation, or a refusal case",
    nontrivial_floor=0.4,
)
def check_ordinal_concatenate(case, ctx):
    from abtem.core.axes import LinearAxis, UnknownAxis

    aspec, mode, which = case["a"], case["mode"], case["which"]
    a = ao.make_axis(aspec)
    reference = ao.make_axis(aspec)
    ctx.label("cls=" + aspec["cls"])
    ctx.label("mode=" + ("same" if mode == "same" else "differ"))
    ctx.label("values=" + aspec["values"]["kind"])
    expected = ao.plain_values(aspec["values"])
    acc = a
    nontrivial = mode != "same"
    for k, ospec in enumerate(case["others"]):
        refuse = False
        if mode != "same" and k == which:
            refuse = True
            if mode == "family":
                b = UnknownAxis() if ospec["n"] % 2 else LinearAxis(label=aspec["fields"].get("label", ""))
            else:
                b = ao.make_axis(_make_different(ospec, mode))
        else:
            b = ao.make_axis(ospec)
        if refuse:
            ctx.nontrivial(True)
            try:
                out = acc.concatenate(b)
            except RuntimeError:
                ctx.label("refused")
                return
            raise Violation(
                f"concatenate accepted an axis differing in {mode}: {ao.describe_axis(acc)} + {ao.describe_axis(b)} -> {ao.describe_axis(out)}",
                ("accepts_different", mode),
            )
        before = len(expected)
        b_ref = ao.make_axis(ospec)
        out = acc.concatenate(b)
        expected = expected + ao.plain_values(ospec["values"])
        if before and ospec["n"]:
            nontrivial = True
        vk = "vector" if aspec["values"]["kind"] in ("pair", "triple") else "scalar"
        if type(out) is not type(a):
            raise Violation(f"class changed to {type(out).__name__}", ("class", vk))
        if not isinstance(out.values, tuple) or not ao.same_value(out.values, expected):
            raise Violation(
                f"concatenated values {out.values!r} != {expected!r} (a.values + b.values) for {case}",
                ("values", vk),
            )
        if not ao.axes_identical(out, reference, exclude=("values",)):
            raise Violation(f"other fields changed: {ao.describe_axis(reference)} -> {ao.describe_axis(out)}", ("fields", vk))
        if not ao.axes_identical(b, b_ref) or not ao.axes_identical(a, reference):
            raise Violation(f"concatenate changed an operand for {case}", ("mutates", vk))
        acc = out
    ctx.nontrivial(nontrivial)


# ======================================================================= linear coordinates
@st.composite
def linear_case(draw):
    cls = draw(st.sampled_from(ao.LINEAR_AXES))
    fields = draw(ao.axis_fields(cls))
    kind = draw(st.sampled_from(["default", "grid", "free", "free"]))
    if kind == "grid":
        fields["sampling"] = draw(st.integers(1, 4000)) / 400.0
        fields["offset"] = draw(st.integers(-4000, 4000)) / 40.0
    elif kind == "free":
        fields["sampling"] = draw(gen.floats(1e-4, 1e3))
        fields["offset"] = draw(st.one_of(st.just(0.0), gen.floats(-1e4, 1e4)))
    return {"cls": cls, "fields": fields, "n": draw(st.integers(1, 64)), "np_n": draw(st.booleans())}


@claim(
    "C35",
    "linear_coordinates",
    linear_case,
    quick=2000,
    thorough=50000,
    tol="f64 (1e-12 relative to |offset| + n*|sampling|)",
    rule="n >= 2 and (offset != 0 or sampling != 1)",
    nontrivial_floor=0.4,
)
def check_linear_coordinates(case, ctx):
    spec = {"cls": case["cls"], "fields": case["fields"], "n": case["n"]}
    a = ao.make_axis(spec)
    n = case["n"]
    sampling = float(case["fields"].get("sampling", 1.0))
    offset = float(case["fields"].get("offset", 0.0))
    ctx.label("cls=" + case["cls"])
    ctx.nontrivial(n >= 2 and (offset != 0.0 or sampling != 1.0))
    coords = a.coordinates(np.int64(n) if case["np_n"] else n)
    if len(coords) != n:
        raise Violation(f"{len(coords)} coordinates for n={n}", ("count", case["cls"]))
    got = np.array(coords, dtype=np.float64)
    ref = offset + np.arange(n, dtype=np.float64) * sampling
    scale = abs(offset) + n * abs(sampling)
    err = float(np.max(np.abs(got - ref)))
    if not err <= 1e-12 * scale:
        i = int(np.argmax(np.abs(got - ref)))
        raise Violation(
            f"coordinates({n})[{i}] = {got[i]!r}, expected offset + i*sampling = {ref[i]!r} (offset={offset}, sampling={sampling})",
            ("coordinates", case["cls"]),
        )
