"""C34 Temporary configuration changes are always undone (abtem/core/config.py).

Histories: a case is a list of operations interpreted with REAL ``with abtem.config.set(...)``
statements (recursion = nesting), so leaving "through an exception" is a genuine exception
propagating through ``__exit__``:

  enter(mapping, kwargs)   open a context (skipped when a key would path through a non-dict
                           value in the current configuration - abTEM, like dask, raises there)
  exit                     leave the innermost context normally
  exit_exc(levels)         raise inside the innermost context and catch it ``levels`` contexts
                           further out (the exception unwinds several contexts at once)

Oracle: a deep copy of ``abtem.config.config`` taken immediately before each ``enter`` must
equal (values *and* types, recursively) the live configuration immediately after the matching
context has been left; at the end of the history every open context is left and the
configuration must equal the snapshot taken at the start.  While inside, ``config.get`` of
the last key assigned by the call returns the value given.
"""

from __future__ import annotations

import copy

from hypothesis import strategies as st

from pbt.core import Violation, claim

# ----------------------------------------------------------------------- generators
EXISTING_LEAVES = [
    "fft",
    "precision",
    "device",
    "dask.lazy",
    "fftw.threads",
    "dask.chunk-size",
    "dask.chunk_size",  # underscore spelling of an existing hyphenated key
    "fftw.planning_effort",
    "fftw.planning-effort",  # hyphen spelling of an existing underscored key
    "diagnostics.progress_bar",
    "warnings.overspecified-grid",
    "visualize.cmap",
]
EXISTING_SECTIONS = ["fftw", "dask", "mkl", "antialias"]
NEW_FLAT = ["pbt_new", "pbt-new", "zz"]
NEW_NESTED = [
    "pbtsec.a",
    "pbtsec.a.b",
    "pbtsec.c",
    "pbtsec.a.b.c",
    "fftw.newkey",
    "fftw.new.deep",
    "dask.x_y",
    "dask.x-y",
    "mkl.sub.k",
    "other.deep.er.key",
]

scalars = st.one_of(
    st.sampled_from(["numpy", "fftw", "float64", "float32", "cpu", "64 MB", "FFTW_ESTIMATE", ""]),
    st.integers(-3, 64),
    st.booleans(),
    st.none(),
    st.sampled_from([0.5, 0.6666666, 1e-3]),
)


def values():
    return st.one_of(
        scalars,
        scalars,
        st.dictionaries(st.sampled_from(["a", "b", "threads", "x_y", "sub"]), scalars | st.dictionaries(st.sampled_from(["b", "k"]), scalars, max_size=2), max_size=3),
        st.lists(st.integers(0, 9), max_size=3),
    )


@st.composite
def key_strategy(draw):
    pool = draw(st.sampled_from(["leaf", "leaf", "section", "flat", "nested", "nested", "hot"]))
    if pool == "leaf":
        return draw(st.sampled_from(EXISTING_LEAVES))
    if pool == "section":
        return draw(st.sampled_from(EXISTING_SECTIONS))
    if pool == "flat":
        return draw(st.sampled_from(NEW_FLAT))
    if pool == "nested":
        return draw(st.sampled_from(NEW_NESTED))
    # a tiny pool so that the same key is touched again and again (also within one call)
    return draw(st.sampled_from(["fft", "fftw.threads", "pbtsec.a", "pbtsec.a.b", "pbt_new", "fftw"]))


@st.composite
def enter_op(draw):
    n_map = draw(st.integers(0, 3))
    mapping = [[draw(key_strategy()), draw(values())] for _ in range(n_map)]
    # a mapping cannot hold the same literal key twice
    seen, uniq = set(), []
    for k, v in mapping:
        if k not in seen:
            seen.add(k)
            uniq.append([k, v])
    n_kw = draw(st.integers(0 if uniq else 1, 2))
    kwargs, seen = [], set()
    for _ in range(n_kw):
        if uniq and draw(st.booleans()) and "-" not in uniq[-1][0]:
            k = uniq[draw(st.integers(0, len(uniq) - 1))][0]
            if "-" in k:
                k = draw(key_strategy())
        else:
            k = draw(key_strategy())
        k = k.replace("-", "_").replace(".", "__")
        if k not in seen:
            seen.add(k)
            kwargs.append([k, draw(values())])
    return {"op": "enter", "mapping": uniq, "kwargs": kwargs, "use_none_arg": draw(st.booleans()) and not uniq}


def exit_op():
    return st.sampled_from(
        [
            {"op": "exit"},
            {"op": "exit"},
            {"op": "exit_exc", "levels": 1},
            {"op": "exit_exc", "levels": 1},
            {"op": "exit_exc", "levels": 2},
            {"op": "exit_exc", "levels": 5},
        ]
    )


@st.composite
def history_case(draw, max_ops=12):
    ops = draw(st.lists(st.one_of(enter_op(), enter_op(), exit_op()), min_size=1, max_size=max_ops))
    return {"ops": ops}


def history_quick():
    return history_case(max_ops=12)


# ----------------------------------------------------------------------- model helpers
def _canon(k, d):
    """dask's documented rule: an existing hyphen/underscore spelling wins."""
    if k in d:
        return k
    alt = k.replace("_", "-") if "_" in k else k.replace("-", "_")
    return alt if alt in d else k


def _model_assign(cfg, dotted, value):
    """Reference nested assignment.  Returns (applicable, canonical path, inserted?)."""
    keys = dotted.split(".")
    d = cfg
    path = []
    inserted = False
    for k in keys[:-1]:
        if not isinstance(d, dict):
            return False, None, False
        k = _canon(k, d)
        path.append(k)
        if k not in d:
            d[k] = {}
            inserted = True
        d = d[k]
    if not isinstance(d, dict):
        return False, None, False
    k = _canon(keys[-1], d)
    path.append(k)
    if k not in d:
        inserted = True
    d[k] = copy.deepcopy(value)
    return True, tuple(path), inserted


def _exact_equal(a, b):
    """== including types, recursively (1 != True, 1 != 1.0)."""
    if type(a) is not type(b):
        return False
    if isinstance(a, dict):
        return a.keys() == b.keys() and all(_exact_equal(a[k], b[k]) for k in a)
    if isinstance(a, (list, tuple)):
        return len(a) == len(b) and all(_exact_equal(x, y) for x, y in zip(a, b))
    return a == b


def _diff(a, b, path=""):
    """first difference between two nested configs, for the message"""
    if isinstance(a, dict) and isinstance(b, dict):
        for k in a:
            if k not in b:
                return f"key {path + str(k)!r} is missing (was {a[k]!r})"
        for k in b:
            if k not in a:
                return f"extra key {path + str(k)!r} = {b[k]!r}"
        for k in a:
            if not _exact_equal(a[k], b[k]):
                return _diff(a[k], b[k], path + str(k) + ".")
        return "?"
    return f"{path[:-1]!r}: {a!r} -> {b!r}"


class _Leave(Exception):
    def __init__(self, levels):
        super().__init__(levels)
        self.levels = levels


# ----------------------------------------------------------------------- the check
def history_long():
    return history_case(max_ops=25)


def _register(fn):
    claim(
        "C34",
        "restore_history",
        history_quick,
        quick=2500,
        thorough=10000,
        tol="exact (values and types)",
        rule="nesting depth >= 2 with one key path touched by two open contexts, or a key inserted that did not exist",
        nontrivial_floor=0.4,
        floors={"exit_by_exception": 0.25, "depth>=2": 0.3, "same_key_twice_in_one_call": 0.1},
    )(fn)
    claim(
        "C34",
        "restore_history_long",
        history_long,
        quick=400,
        thorough=6000,
        tol="exact (values and types)",
        rule="nesting depth >= 2 with one key path touched by two open contexts, or a key inserted that did not exist (histories of up to 25 operations)",
        nontrivial_floor=0.5,
        floors={"exit_by_exception": 0.3, "depth>=3": 0.15},
    )(fn)
    return fn


@_register
def check_restore_history(case, ctx):
    import abtem

    cfgmod = abtem.config
    live = cfgmod.config
    ops = case["ops"]
    initial = copy.deepcopy(live)
    stats = {"max_depth": 0, "overlap": False, "inserted": False, "exc": False, "entered": 0, "skipped": 0, "dup": False}
    open_paths: list = []  # per open context: set of canonical paths

    def verify_restored(snapshot, how, features):
        if not _exact_equal(snapshot, live):
            raise Violation(
                f"configuration not restored after leaving a context ({how}): {_diff(snapshot, live)}; history {ops}",
                ("not_restored", how) + features,
            )

    def run_block(i, depth):
        """interpret ops[i:] inside `depth` open contexts; returns (next index, levels to unwind by exception)"""
        while i < len(ops):
            op = ops[i]
            if op["op"] == "enter":
                assigns = [(k, v) for k, v in op["mapping"]] + [(k.replace("__", "."), v) for k, v in op["kwargs"]]
                model = copy.deepcopy(live)
                paths, ins_any, ok = [], False, True
                for k, v in assigns:
                    applicable, p, ins = _model_assign(model, k, v)
                    if not applicable:
                        ok = False
                        break
                    paths.append(p)
                    ins_any |= ins
                if not ok:
                    stats["skipped"] += 1
                    i += 1
                    continue
                dup = any(p[: len(q)] == q or q[: len(p)] == p for a, p in enumerate(paths) for q in paths[a + 1 :])
                stats["dup"] |= dup
                overlap = any(p[: len(q)] == q or q[: len(p)] == p for p in paths for s in open_paths for q in s)
                features = ("inserted-key" if ins_any else "existing-keys",)
                snapshot = copy.deepcopy(live)
                mapping = {k: copy.deepcopy(v) for k, v in op["mapping"]}
                kwargs = {k: copy.deepcopy(v) for k, v in op["kwargs"]}
                arg = None if (op["use_none_arg"] and not mapping) else mapping
                stats["entered"] += 1
                stats["inserted"] |= ins_any
                stats["max_depth"] = max(stats["max_depth"], depth + 1)
                if depth + 1 >= 2 and overlap:
                    stats["overlap"] = True
                open_paths.append(set(paths))
                left_by_exc = False
                remaining = 0
                try:
                    with cfgmod.set(arg, **kwargs):
                        if assigns:
                            last_key, last_val = assigns[-1]
                            got = cfgmod.get(last_key)
                            if not _exact_equal(got, last_val):
                                raise Violation(
                                    f"inside set(...): get({last_key!r}) = {got!r}, set to {last_val!r}; history {ops}",
                                    ("get_inside",) + features,
                                )
                        i, levels = run_block(i + 1, depth + 1)
                        if levels > 0:
                            raise _Leave(levels)  # leaves this context through __exit__(exc_type, exc, tb)
                except _Leave as e:
                    left_by_exc = True
                    stats["exc"] = True
                    remaining = e.levels - 1
                finally:
                    open_paths.pop()
                verify_restored(snapshot, "exception" if left_by_exc else "normal", features)
                if remaining > 0 and depth > 0:
                    return i, remaining  # the exception is caught further out: keep unwinding
                continue
            # exit ops
            if depth == 0:
                stats["skipped"] += 1
                i += 1
                continue
            if op["op"] == "exit":
                return i + 1, 0
            return i + 1, int(op["levels"])
        return i, 0  # end of history: unwind normally

    run_block(0, 0)

    ctx.label("exit_by_exception", stats["exc"])
    ctx.label("depth>=2", stats["max_depth"] >= 2)
    ctx.label("depth>=3", stats["max_depth"] >= 3)
    ctx.label("inserted_key", stats["inserted"])
    ctx.label("same_key_twice_in_one_call", stats["dup"])
    ctx.label("skipped_ops", stats["skipped"] > 0)
    ctx.nontrivial((stats["max_depth"] >= 2 and stats["overlap"]) or stats["inserted"])
    if not _exact_equal(initial, live):
        raise Violation(f"configuration after the whole history differs from the start: {_diff(initial, live)}; history {ops}", ("not_restored", "final"))
