"""C36 Distributions have the values and weights they advertise (abtem/distributions.py).

Oracles are closed forms written without numpy.linspace / meshgrid / outer:
  uniform   v[i] = low + i*(high-low)/(n-1 | n), w[i] = 1
  gaussian  per axis: v[j] + v[n-1-j] = 2c, |v-c| <= limit*sigma, evenly spaced,
            w[j]/w[k] = exp(-((v[j]-c)^2 - (v[k]-c)^2)/(2 sigma^2)), sum w^2 = 1 | sum w = 1,
            N-D: values[idx] = (v_0[i_0], ...), weights[idx] = prod w_k[i_k], shape = (n_0, ...)
  -d        values negated, everything else equal
  divide    blocks concatenate back to values / weights, block sizes = the chunks
Everything is float64: rtol 1e-12 relative to the scale of the distribution.
"""

from __future__ import annotations

import itertools

import numpy as np
from hypothesis import strategies as st

from pbt.core import Violation, claim
from pbt import gen

RTOL = 1e-12


# ----------------------------------------------------------------------- generators
def magnitudes(lo=-3.0, hi=3.0):
    return gen.floats(lo, hi).map(lambda x: 10.0**x)


@st.composite
def signed_value(draw, lo=-3.0, hi=3.0):
    kind = draw(st.sampled_from(["zero", "pos", "neg", "int"]))
    if kind == "zero":
        return 0.0
    if kind == "int":
        return float(draw(st.integers(-50, 50)))
    m = draw(magnitudes(lo, hi))
    return m if kind == "pos" else -m


@st.composite
def uniform_spec(draw, max_n=40):
    low = draw(signed_value())
    width = draw(st.sampled_from([0.0]) | magnitudes() | st.integers(1, 100).map(float))
    return {
        "kind": "uniform",
        "low": low,
        "high": low + width,
        "num_samples": draw(st.integers(1, max_n)),
        "endpoint": draw(st.booleans()),
        "ensemble_mean": draw(st.booleans()),
    }


@st.composite
def gaussian_spec(draw, dims=(1, 3), max_n=25):
    dim = draw(st.integers(*dims))

    def per_axis(elem, always_tuple=False):
        if dim > 1 and (always_tuple or draw(st.booleans())):
            return [draw(elem) for _ in range(dim)]
        return draw(elem)

    n_elem = st.integers(2, max_n) if dim > 1 else st.integers(1, max_n)
    n_elem = st.integers(1, max_n) if draw(st.integers(0, 5)) == 0 else n_elem
    if dim == 3:
        n_elem = st.integers(1, 7)
    return {
        "kind": "gaussian",
        "dimension": dim,
        "standard_deviation": per_axis(magnitudes(-3.0, 3.0)),
        "num_samples": per_axis(n_elem),
        "center": per_axis(signed_value()),
        "sampling_limit": per_axis(gen.floats(0.25, 6.0) | st.sampled_from([1.0, 2.0, 3.0, 4.0])),
        "ensemble_mean": draw(st.booleans()),
        "normalize": draw(st.sampled_from(["intensity", "amplitude"])),
    }


@st.composite
def from_values_spec(draw, max_n=30):
    n = draw(st.integers(1, max_n))
    values = [draw(signed_value()) for _ in range(n)]
    if draw(st.booleans()):
        weights = None
    else:
        weights = [draw(magnitudes(-2.0, 2.0)) for _ in range(n)]
    return {"kind": "from_values", "values": values, "weights": weights, "ensemble_mean": draw(st.booleans()), "int_values": draw(st.booleans()) and all(float(v).is_integer() for v in values)}


def _tup(x):
    return tuple(x) if isinstance(x, list) else x


def make(spec):
    from abtem import distributions as D

    k = spec["kind"]
    if k == "uniform":
        return D.uniform(spec["low"], spec["high"], spec["num_samples"], endpoint=spec["endpoint"], ensemble_mean=spec["ensemble_mean"])
    if k == "gaussian":
        return D.gaussian(
            standard_deviation=_tup(spec["standard_deviation"]),
            num_samples=_tup(spec["num_samples"]),
            dimension=spec["dimension"],
            center=_tup(spec["center"]),
            ensemble_mean=spec["ensemble_mean"],
            sampling_limit=_tup(spec["sampling_limit"]),
            normalize=spec["normalize"],
        )
    if k == "from_values":
        values = [int(v) for v in spec["values"]] if spec["int_values"] else list(spec["values"])
        weights = None if spec["weights"] is None else np.array(spec["weights"], dtype=float)
        return D.from_values(values, weights=weights, ensemble_mean=spec["ensemble_mean"])
    if k == "combined":
        parts = [make(s) for s in spec["parts"]]
        if spec["how"] == "combine" and len(parts) == 2:
            return parts[0].combine(parts[1])
        return D.MultidimensionalDistribution(parts)
    raise AssertionError(k)


def _axis(x, i, dim):
    return x[i] if isinstance(x, (list, tuple)) else x


def _finite(a):
    return bool(np.all(np.isfinite(np.asarray(a, dtype=float))))


# ----------------------------------------------------------------------- uniform
@st.composite
def uniform_case(draw):
    return draw(uniform_spec())


@claim(
    "C36",
    "uniform",
    uniform_case,
    quick=2500,
    thorough=50000,
    tol="f64 rtol=1e-12 of max(|low|,|high|); weights exact",
    rule="num_samples >= 3 and high > low",
    nontrivial_floor=0.5,
)
def check_uniform(case, ctx):
    from abtem.distributions import BaseDistribution

    low, high, n, endpoint = case["low"], case["high"], case["num_samples"], case["endpoint"]
    ctx.label("endpoint" if endpoint else "no_endpoint")
    ctx.nontrivial(n >= 3 and high > low)
    d = make(case)
    if not isinstance(d, BaseDistribution):
        raise Violation(f"uniform returned {type(d).__name__}", ("uniform", "type"))
    v = np.asarray(d.values)
    w = np.asarray(d.weights)
    if v.shape != (n,) or w.shape != (n,) or tuple(d.shape) != (n,) or len(d) != n or d.dimensions != 1:
        raise Violation(f"shapes: values {v.shape} weights {w.shape} shape {d.shape} len {len(d)} for n={n}", ("uniform", "shape"))
    if not np.all(w == 1.0):
        raise Violation(f"weights are not all 1: {w}", ("uniform", "weights"))
    if d.ensemble_mean is not case["ensemble_mean"]:
        raise Violation(f"ensemble_mean {d.ensemble_mean} != {case['ensemble_mean']}", ("uniform", "ensemble_mean"))
    denom = (n - 1) if endpoint else n
    step = (high - low) / denom if denom > 0 else 0.0
    scale = max(abs(low), abs(high))
    tol_abs = RTOL * scale
    ref = [low + i * step for i in range(n)]
    err = max(abs(float(a) - b) for a, b in zip(v, ref))
    if err > tol_abs:
        raise Violation(f"values {v.tolist()} != low + i*step = {ref} (err {err:.2e}) for {case}", ("uniform", "values", "endpoint" if endpoint else "no_endpoint"))
    if abs(float(v[0]) - low) > tol_abs:
        raise Violation(f"first value {v[0]!r} != low {low!r}", ("uniform", "first"))
    if endpoint and n >= 2 and abs(float(v[-1]) - high) > tol_abs:
        raise Violation(f"last value {v[-1]!r} != high {high!r}", ("uniform", "last"))
    if not endpoint and high > low and not (v[-1] < high):
        raise Violation(f"endpoint=False but last value {v[-1]!r} reaches high {high!r}", ("uniform", "last_excluded"))
    if n >= 3:
        diffs = np.diff(v)
        if float(np.max(np.abs(diffs - step))) > 2 * tol_abs:
            raise Violation(f"values are not equally spaced: diffs {diffs.tolist()} step {step}", ("uniform", "spacing"))


# ----------------------------------------------------------------------- gaussian
@st.composite
def gaussian_case(draw):
    return draw(gaussian_spec())


@claim(
    "C36",
    "gaussian",
    gaussian_case,
    quick=2500,
    thorough=50000,
    tol="f64 rtol=1e-12 (values relative to |c|+limit*sigma; weights relative)",
    rule="some axis has >= 3 samples",
    nontrivial_floor=0.5,
)
def check_gaussian(case, ctx):
    from abtem.distributions import BaseDistribution

    dim = case["dimension"]
    ctx.label(f"dim{dim}")
    ctx.label(case["normalize"])
    d = make(case)
    if not isinstance(d, BaseDistribution):
        raise Violation(f"gaussian returned {type(d).__name__}", ("gaussian", "type"))
    ns = [int(_axis(case["num_samples"], i, dim)) for i in range(dim)]
    ctx.nontrivial(max(ns) >= 3)
    ctx.label("n=1 axis", min(ns) == 1)
    if d.dimensions != dim or tuple(d.shape) != tuple(ns):
        raise Violation(f"dimensions {d.dimensions} shape {d.shape}, expected {dim} {ns}", ("gaussian", "shape"))
    if d.ensemble_mean is not case["ensemble_mean"]:
        raise Violation(f"ensemble_mean {d.ensemble_mean}", ("gaussian", "ensemble_mean"))
    parts = list(d.distributions)
    if len(parts) != dim:
        raise Violation(f"{len(parts)} factor distributions for dimension {dim}", ("gaussian", "shape"))

    factors = []
    for i, p in enumerate(parts):
        n = ns[i]
        c = float(_axis(case["center"], i, dim))
        s = float(_axis(case["standard_deviation"], i, dim))
        lim = float(_axis(case["sampling_limit"], i, dim))
        v = np.asarray(p.values, dtype=float)
        w = np.asarray(p.weights, dtype=float)
        nb = "n=1" if n == 1 else "n>=2"
        if v.shape != (n,) or w.shape != (n,):
            raise Violation(f"axis {i}: values {v.shape} weights {w.shape} for n={n}", ("gaussian", "shape"))
        if not (_finite(v) and _finite(w)):
            raise Violation(f"axis {i}: non-finite values/weights {v} {w} for {case}", ("gaussian", "finite"))
        half = lim * s
        scale = abs(c) + half
        tol_abs = RTOL * scale
        # symmetric about the centre
        asym = float(np.max(np.abs(v + v[::-1] - 2 * c)))
        if asym > 2 * tol_abs:
            raise Violation(
                f"axis {i}: values {v.tolist()} are not symmetric about the center {c} (asymmetry {asym:.3g}); sigma={s} limit={lim} n={n}",
                ("gaussian", "symmetry", nb),
            )
        # within the sampling limit, reaching it at both ends
        if float(np.max(np.abs(v - c))) > half + tol_abs:
            raise Violation(f"axis {i}: values {v.tolist()} exceed center +- limit*sigma = {c} +- {half}", ("gaussian", "limit", nb))
        if n >= 2 and (abs(v[0] - (c - half)) > tol_abs or abs(v[-1] - (c + half)) > tol_abs):
            raise Violation(f"axis {i}: end values {v[0]!r}, {v[-1]!r} != {c - half!r}, {c + half!r}", ("gaussian", "ends"))
        if n >= 3:
            step = 2 * half / (n - 1)
            if float(np.max(np.abs(np.diff(v) - step))) > 2 * tol_abs:
                raise Violation(f"axis {i}: values not evenly spaced {v.tolist()}", ("gaussian", "spacing"))
        # gaussian profile: ratios to the largest weight
        if not np.all(w > 0):
            raise Violation(f"axis {i}: non-positive weights {w.tolist()}", ("gaussian", "weights_positive"))
        k = int(np.argmax(w))
        z2 = ((v - c) / s) ** 2
        ref_ratio = np.exp(-0.5 * (z2 - z2[k]))
        # v is abTEM's own output, so the only error is the rounding of exp's argument (<= 18 * few eps)
        bad = np.abs(w / w[k] - ref_ratio) > 1e-12 * ref_ratio
        if np.any(bad):
            j = int(np.argmax(bad))
            raise Violation(
                f"axis {i}: weight ratio w[{j}]/w[{k}] = {w[j] / w[k]!r}, gaussian profile gives {ref_ratio[j]!r} (sigma={s}, center={c})",
                ("gaussian", "profile"),
            )
        norm = float(np.sum(w**2)) if case["normalize"] == "intensity" else float(np.sum(w))
        if abs(norm - 1.0) > 1e-12 * n:
            raise Violation(f"axis {i}: {case['normalize']} norm = {norm!r} != 1", ("gaussian", "norm", case["normalize"]))
        factors.append((v, w))

    _check_product_structure(d, factors, "gaussian")
    # the product weights keep the unit norm / unit sum
    W = np.asarray(d.weights, dtype=float)
    total = float(np.sum(W**2)) if case["normalize"] == "intensity" else float(np.sum(W))
    if abs(total - 1.0) > 1e-12 * max(1, W.size):
        raise Violation(f"N-D {case['normalize']} norm = {total!r} != 1", ("gaussian", "norm_nd", case["normalize"]))


def _check_product_structure(d, factors, who):
    """values[idx] == (v_0[i_0], ..), weights[idx] == prod w_k[i_k], both with the distribution's shape."""
    dim = len(factors)
    shape = tuple(len(v) for v, _ in factors)
    V = np.asarray(d.values)
    W = np.asarray(d.weights)
    if dim == 1:
        if V.shape != shape or W.shape != shape:
            raise Violation(f"1-D: values {V.shape} weights {W.shape}, expected {shape}", (who, "nd_shape", "dim1"))
        if not (np.array_equal(V, factors[0][0]) and np.array_equal(W, factors[0][1])):
            raise Violation("1-D multidimensional distribution differs from its only factor", (who, "nd_values", "dim1"))
        return
    if V.shape != shape + (dim,):
        raise Violation(f"values shape {V.shape}, expected {shape + (dim,)}", (who, "nd_shape", "values", f"dim{dim}"))
    if W.shape != shape:
        raise Violation(
            f"weights shape {W.shape} differs from the distribution's shape {tuple(d.shape)} (= values.shape[:-1] {V.shape[:-1]})",
            (who, "nd_shape", "weights", f"dim{dim}"),
        )
    for idx in itertools.product(*(range(n) for n in shape)):
        ev = tuple(float(factors[k][0][i]) for k, i in enumerate(idx))
        if tuple(float(x) for x in V[idx]) != ev:
            raise Violation(f"values[{idx}] = {V[idx].tolist()} != {ev}", (who, "nd_values", f"dim{dim}"))
        ew = 1.0
        for k, i in enumerate(idx):
            ew *= float(factors[k][1][i])
        if abs(float(W[idx]) - ew) > 4 * np.finfo(float).eps * abs(ew):
            raise Violation(f"weights[{idx}] = {W[idx]!r} != product of factor weights {ew!r}", (who, "nd_weights", f"dim{dim}"))


# ----------------------------------------------------------------------- N-D from parts
@st.composite
def combined_spec(draw, max_parts=3):
    k = draw(st.integers(1, max_parts))
    max_n = {1: 20, 2: 10, 3: 6}[k]
    parts = [draw(from_values_spec(max_n=max_n) | uniform_spec(max_n=max_n)) for _ in range(k)]
    em = draw(st.booleans())
    for p in parts:
        p["ensemble_mean"] = em  # MultidimensionalDistribution requires a common flag
    return {"kind": "combined", "parts": parts, "how": draw(st.sampled_from(["combine", "constructor"]))}


@st.composite
def combined_case(draw):
    return draw(combined_spec())


@claim(
    "C36",
    "multidimensional",
    combined_case,
    quick=1500,
    thorough=30000,
    tol="values exact; weights 4 eps relative",
    rule=">= 2 dimensions with a non-uniform weight in some factor or >= 2 samples per axis",
    nontrivial_floor=0.3,
)
def check_multidimensional(case, ctx):
    d = make(case)
    parts = [make(p) for p in case["parts"]]
    dim = len(parts)
    ctx.label(f"dim{dim}")
    ctx.label(case["how"])
    factors = [(np.asarray(p.values, dtype=float), np.asarray(p.weights, dtype=float)) for p in parts]
    ctx.nontrivial(dim >= 2 and all(len(v) >= 2 for v, _ in factors))
    if d.dimensions != dim or tuple(d.shape) != tuple(len(v) for v, _ in factors):
        raise Violation(f"dimensions {d.dimensions} shape {d.shape} for parts {[len(v) for v, _ in factors]}", ("multidimensional", "shape"))
    if d.ensemble_mean is not case["parts"][0]["ensemble_mean"]:
        raise Violation("ensemble_mean not carried", ("multidimensional", "ensemble_mean"))
    _check_product_structure(d, factors, "multidimensional")


# ----------------------------------------------------------------------- negation
@st.composite
def any_spec(draw, one_d=False):
    if one_d:
        return draw(st.one_of(from_values_spec(), uniform_spec(), gaussian_spec(dims=(1, 1))))
    return draw(st.one_of(from_values_spec(), uniform_spec(), gaussian_spec(dims=(1, 2)), combined_spec(max_parts=2)))


@st.composite
def neg_case(draw):
    return {"dist": draw(any_spec())}


def _snapshot(d):
    return {
        "type": type(d).__name__,
        "values": np.array(d.values, copy=True),
        "weights": np.array(d.weights, copy=True),
        "ensemble_mean": d.ensemble_mean,
        "shape": tuple(d.shape),
        "dimensions": d.dimensions,
    }


@claim(
    "C36",
    "negation",
    neg_case,
    quick=2500,
    thorough=50000,
    tol="exact",
    rule="some value is non-zero and some weight differs from 1",
    nontrivial_floor=0.25,
)
def check_negation(case, ctx):
    d = make(case["dist"])
    ctx.label(case["dist"]["kind"])
    before = _snapshot(d)
    ctx.nontrivial(bool(np.any(before["values"] != 0)) and bool(np.any(before["weights"] != 1.0)))
    m = -d
    after = _snapshot(d)
    neg = _snapshot(m)
    if not (np.array_equal(before["values"], after["values"]) and np.array_equal(before["weights"], after["weights"])):
        raise Violation("negation modified the original distribution", ("negation", "mutates"))
    if neg["type"] != before["type"] or neg["shape"] != before["shape"] or neg["dimensions"] != before["dimensions"]:
        raise Violation(f"-d is {neg['type']} {neg['shape']}, d is {before['type']} {before['shape']}", ("negation", "type_shape"))
    if neg["values"].shape != before["values"].shape or not np.array_equal(neg["values"], -before["values"]):
        raise Violation(f"values of -d {neg['values'].tolist()} != -values {(-before['values']).tolist()}", ("negation", "values"))
    if neg["weights"].shape != before["weights"].shape or not np.array_equal(neg["weights"], before["weights"]):
        raise Violation(f"weights changed under negation: {before['weights'].tolist()} -> {neg['weights'].tolist()}", ("negation", "weights"))
    if neg["ensemble_mean"] is not before["ensemble_mean"]:
        raise Violation("ensemble_mean changed under negation", ("negation", "ensemble_mean"))
    mm = _snapshot(-m)
    if not (np.array_equal(mm["values"], before["values"]) and np.array_equal(mm["weights"], before["weights"])):
        raise Violation("-(-d) != d", ("negation", "involution"))


# ----------------------------------------------------------------------- divide
@st.composite
def divide_case(draw):
    if draw(st.integers(0, 9)) == 0:
        spec = draw(st.one_of(gaussian_spec(dims=(2, 2), max_n=6), combined_spec(max_parts=2)))
        if spec["kind"] == "combined" and len(spec["parts"]) < 2:
            spec = draw(gaussian_spec(dims=(2, 2), max_n=6))
        return {"dist": spec, "chunks": 1, "lazy": draw(st.booleans())}
    spec = draw(any_spec(one_d=True))
    n = len(spec["values"]) if spec["kind"] == "from_values" else int(spec["num_samples"])
    if draw(st.booleans()):
        chunks = draw(st.integers(1, n))
    else:
        chunks = draw(gen.partition(n, max_parts=6))
    return {"dist": spec, "chunks": chunks, "lazy": draw(st.booleans())}


@claim(
    "C36",
    "divide",
    divide_case,
    quick=2000,
    thorough=40000,
    tol="exact",
    rule=">= 2 blocks",
    nontrivial_floor=0.4,
)
def check_divide(case, ctx):
    d = make(case["dist"])
    chunks = case["chunks"]
    chunks = tuple(chunks) if isinstance(chunks, list) else chunks
    lazy = case["lazy"]
    ctx.label(case["dist"]["kind"])
    ctx.label("lazy" if lazy else "eager")
    ctx.label("int_chunks" if isinstance(chunks, int) else "tuple_chunks")
    if d.dimensions > 1:
        ctx.label("nd_rejected")
        try:
            d.divide(chunks, lazy=lazy)
        except NotImplementedError:
            return  # documented: dividing multidimensional distributions is not supported
        raise Violation("divide of a multidimensional distribution did not raise", ("divide", "nd_accepted"))
    before = _snapshot(d)
    n = len(before["values"])
    blocks = d.divide(chunks, lazy=lazy)
    if lazy:
        import dask.array as da

        if not isinstance(blocks, da.Array):
            raise Violation(f"lazy divide returned {type(blocks).__name__}", ("divide", "lazy_type"))
        if any(c != 1 for c in blocks.chunks[0]):
            raise Violation(f"lazy blocks are chunked as {blocks.chunks}", ("divide", "lazy_chunks"))
        blocks = blocks.compute()
    if not (isinstance(blocks, np.ndarray) and blocks.dtype == object and blocks.ndim == 1):
        raise Violation(f"blocks is {type(blocks).__name__} {getattr(blocks, 'shape', None)}", ("divide", "container"))
    sizes = [len(b) for b in blocks]
    ctx.nontrivial(len(blocks) >= 2)
    if isinstance(chunks, int):
        if len(sizes) != chunks or max(sizes) - min(sizes) > 1 or min(sizes) < 1:
            raise Violation(f"{chunks} chunks requested, block sizes {sizes}", ("divide", "sizes", "int"))
    elif tuple(sizes) != chunks:
        raise Violation(f"block sizes {sizes} != chunks {chunks}", ("divide", "sizes", "tuple"))
    if sum(sizes) != n:
        raise Violation(f"block sizes {sizes} do not sum to {n}", ("divide", "sum"))
    for b in blocks:
        if b.dimensions != 1 or b.ensemble_mean is not before["ensemble_mean"]:
            raise Violation("block lost ensemble_mean / dimensionality", ("divide", "block_fields"))
        if np.asarray(b.values).shape != (len(b),) or np.asarray(b.weights).shape != (len(b),):
            raise Violation("block values/weights have inconsistent shapes", ("divide", "block_shapes"))
    cat_v = np.concatenate([np.asarray(b.values) for b in blocks])
    cat_w = np.concatenate([np.asarray(b.weights) for b in blocks])
    if not np.array_equal(cat_v, before["values"]):
        raise Violation(f"concatenated block values {cat_v.tolist()} != values {before['values'].tolist()}", ("divide", "values"))
    if not np.array_equal(cat_w, before["weights"]):
        raise Violation(f"concatenated block weights {cat_w.tolist()} != weights {before['weights'].tolist()}", ("divide", "weights"))
    after = _snapshot(d)
    if not (np.array_equal(after["values"], before["values"]) and np.array_equal(after["weights"], before["weights"])):
        raise Violation("divide modified the distribution", ("divide", "mutates"))
