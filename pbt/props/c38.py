"""C38 Results do not depend on the FFT backend or precision setting
(abtem/core/fft.py, abtem/core/utils.py, abtem/multislice.py).

Configuration space: fft in {numpy, fftw} x fftw.planning_effort in {FFTW_ESTIMATE,
FFTW_MEASURE, FFTW_PATIENT} x precision in {float32, float64} ('mkl' is not installed in
this environment).  Claims:

* ``fft_primitives``   - the configurable FFT entry points (fft2/ifft2/fftn/ifftn/
  fft2_convolve, numpy and dask inputs) against numpy's FFT evaluated in complex128
  (independent oracle); input preserved unless overwrite_x.
* ``propagator_history`` - a history of ``FresnelPropagator.propagate`` calls on one
  propagator object (this is the only user of ``CachedFFTWConvolution``): every result
  equals the complex128 numpy convolution with the same kernel, ``in_place=False`` leaves
  the input untouched, earlier results are never modified by later calls.
* ``pipeline``         - simulations (plane wave / probe scan / S-matrix scan, lazy and
  eager, Fourier multislice of order 1 and 2, several detectors) under a drawn
  configuration against the numpy/float32 run (2e-4) and, for float64, against the
  numpy/float64 run (1e-9); float64 runs return float64/complex128.
* ``measurement_transforms`` - diffraction patterns, Fourier down-sampling of waves, Fourier interpolation of
  images, reciprocal-space round trip, gaussian filter under a drawn configuration against
  the numpy/float32 run and the numpy/same-precision run.

Single-configuration potentials only (Atoms / PotentialArray): the eager path through
FrozenPhonons with >= 2 configurations has its own defect on the pinned tree (C01/C02).
FFTW planning is slow for new shapes with FFTW_MEASURE / FFTW_PATIENT: all shapes come from
short lists and the (documented) ``fftw.planning_timelimit`` key is set to a few seconds.
"""

from __future__ import annotations

import numpy as np
from hypothesis import strategies as st

from pbt import gen, tol
from pbt.core import Violation, claim

EFFORTS = ["FFTW_ESTIMATE", "FFTW_MEASURE", "FFTW_PATIENT"]
GPTS = [[12, 12], [15, 16], [16, 20], [21, 15]]  # short list: bounds the number of FFTW plans
PLANNING_TIMELIMIT = 5.0


# ----------------------------------------------------------------------- configuration
@st.composite
def config_spec(draw):
    fft = draw(st.sampled_from(["numpy", "fftw", "fftw", "fftw"]))
    effort = draw(st.sampled_from(EFFORTS)) if fft == "fftw" else "FFTW_ESTIMATE"
    return {"fft": fft, "effort": effort, "precision": draw(st.sampled_from(["float32", "float64"]))}


def cfg(spec):
    return {
        "fft": spec["fft"],
        "fftw.planning_effort": spec["effort"],
        "fftw.planning_timelimit": PLANNING_TIMELIMIT,
        "precision": spec["precision"],
    }


def cfg_label(spec):
    return f"{spec['fft']}-{spec['effort'][5:] if spec['fft'] == 'fftw' else 'na'}-{spec['precision']}"


NUMPY32 = {"fft": "numpy", "effort": "FFTW_ESTIMATE", "precision": "float32"}
NUMPY64 = {"fft": "numpy", "effort": "FFTW_ESTIMATE", "precision": "float64"}


def cdtype(spec):
    return np.complex64 if spec["precision"] == "float32" else np.complex128


def rdtype(spec):
    return np.float32 if spec["precision"] == "float32" else np.float64


def non_pow2(shape):
    return any(n & (n - 1) for n in shape)


# ======================================================================= fft_primitives
PRIM_SHAPES = [[12, 12], [15, 16], [9, 15], [3, 15, 16], [2, 9, 15], [2, 2, 12, 12], [3, 1, 9, 15]]


@st.composite
def primitive_case(draw):
    func = draw(st.sampled_from(["fft2", "ifft2", "fftn", "ifftn", "fft2_convolve"]))
    shape = draw(st.sampled_from(PRIM_SHAPES))
    case = {
        "config": draw(config_spec()),
        "func": func,
        "shape": shape,
        "seed": draw(gen.seeds()),
        "overwrite_x": draw(st.booleans()),
        "layout": draw(st.sampled_from(["contiguous", "contiguous", "contiguous", "offset-view", "strided-view", "transposed"])),
        "dask": False,
    }
    if func in ("fftn", "ifftn"):
        kind = draw(st.sampled_from(["none", "last2", "last3", "all"]))
        if kind == "none":
            case["axes"] = None
        elif kind == "all":
            case["axes"] = list(range(len(shape)))
        else:
            k = min(len(shape), 2 if kind == "last2" else 3)
            case["axes"] = list(range(len(shape) - k, len(shape)))
    else:
        if len(shape) > 2 and case["layout"] == "contiguous":
            case["dask"] = draw(st.booleans())
    if func == "fft2_convolve":
        # (a dask input is convolved block-wise with a kernel that broadcasts against a block)
        case["kernel"] = draw(st.sampled_from(["real2d", "complex2d"] + ([] if case["dask"] else ["complex-batch"])))
    return case


def _make_input(shape, seed, dtype, layout):
    """Random complex array of ``shape`` in the requested memory layout.  Views are views
    of a larger owned array (the situation ``waves[i].array`` / ``array[..., ::2, :]``)."""
    rng = np.random.default_rng(seed)

    def rnd(s):
        return (rng.standard_normal(s) + 1j * rng.standard_normal(s)).astype(dtype)

    shape = tuple(shape)
    if layout == "contiguous":
        return rnd(shape)
    if layout == "offset-view":
        return rnd((3,) + shape)[1]
    if layout == "strided-view":
        return rnd(shape[:-2] + (2 * shape[-2], shape[-1]))[..., ::2, :]
    if layout == "transposed":
        return np.swapaxes(rnd(shape[:-2] + (shape[-1], shape[-2])), -1, -2)
    raise ValueError(layout)


@claim(
    "C38",
    "fft_primitives",
    primitive_case,
    quick=500,
    thorough=30000,
    tol="vs numpy complex128: 1e-5*max|ref| (float32, observed 2e-7), 1e-12 (float64); input preserved exactly",
    rule="fftw backend and a non-power-of-two shape",
    nontrivial_floor=0.3,
)
def check_fft_primitives(case, ctx):
    import abtem
    import dask.array as da

    from abtem.core import fft as afft

    spec = case["config"]
    func = case["func"]
    x = _make_input(case["shape"], case["seed"], cdtype(spec), case["layout"])
    x0 = x.copy()
    x128 = x0.astype(np.complex128)
    ctx.label(cfg_label(spec))
    ctx.label(func)
    ctx.label(case["layout"])
    ctx.nontrivial(spec["fft"] == "fftw" and non_pow2(case["shape"][-2:]))
    view = case["layout"] != "contiguous"

    kw = {}
    if func in ("fft2", "ifft2"):
        ref = getattr(np.fft, func)(x128, axes=(-2, -1))
    elif func in ("fftn", "ifftn"):
        if case["axes"] is not None:
            kw["axes"] = tuple(case["axes"])
        ref = getattr(np.fft, func)(x128, **kw)  # numpy semantics: all axes when not given
    else:
        krng = np.random.default_rng(case["seed"] + 1)
        ny, nx = case["shape"][-2:]
        if case["kernel"] == "real2d":
            kernel = krng.uniform(0, 1, (ny, nx)).astype(rdtype(spec))
        elif case["kernel"] == "complex2d":
            kernel = np.exp(2j * np.pi * krng.uniform(0, 1, (ny, nx))).astype(cdtype(spec))
        else:
            kernel = np.exp(2j * np.pi * krng.uniform(0, 1, tuple(case["shape"]))).astype(cdtype(spec))
        ref = np.fft.ifft2(np.fft.fft2(x128, axes=(-2, -1)) * kernel.astype(np.complex128), axes=(-2, -1))
        kernel0 = kernel.copy()

    arg = da.from_array(x, chunks=(1,) + tuple(case["shape"][1:])) if case["dask"] else x
    ctx.label("dask", case["dask"])
    with abtem.config.set(cfg(spec)):
        try:
            if func == "fft2_convolve":
                out = afft.fft2_convolve(arg, kernel, overwrite_x=case["overwrite_x"])
            else:
                out = getattr(afft, func)(arg, overwrite_x=case["overwrite_x"], **kw)
            if case["dask"]:
                out = out.compute()
        except ValueError as e:
            # pyfftw refuses the caller's array; re-bucketed by cause, never swallowed
            msg = str(e)
            if "alignment" in msg:
                raise Violation(f"{func} raises under fftw for a 8-byte-offset view: {msg[:120]}", ("fftw-rejects-view", "alignment")) from e
            if "striding" in msg:
                raise Violation(f"{func} raises under fftw for a strided view: {msg[:120]}", ("fftw-rejects-view", "striding")) from e
            raise
    out = np.asarray(out)

    which = (func, "view" if view else "contiguous")
    if out.shape != ref.shape:
        raise Violation(f"{func}: output shape {out.shape} != {ref.shape}", ("shape",) + which)
    if out.dtype != cdtype(spec):
        raise Violation(f"{func}: output dtype {out.dtype} for {cdtype(spec).__name__} input", ("dtype",) + which)
    rtol = 1e-5 if spec["precision"] == "float32" else 1e-12
    if not tol.close(out, ref, rtol=rtol):
        axes_kind = "" if func not in ("fftn", "ifftn") else ("axes-default" if case["axes"] is None else f"axes{len(case['axes'])}of{len(case['shape'])}")
        raise Violation(
            f"{func} under {cfg_label(spec)} differs from numpy by {tol.rel_err(out, ref):.2e} (shape={case['shape']}, axes={case.get('axes')}, layout={case['layout']}, overwrite_x={case['overwrite_x']})",
            ("value", func, spec["fft"], axes_kind),
        )
    if not case["overwrite_x"] and not np.array_equal(x, x0):
        raise Violation(f"{func}(overwrite_x=False) modified its input under {cfg_label(spec)}", ("input-modified",) + which)
    if func == "fft2_convolve" and not np.array_equal(kernel, kernel0):
        raise Violation(f"fft2_convolve modified the kernel under {cfg_label(spec)}", ("kernel-modified",))


# ======================================================================= propagator_history
@st.composite
def history_case(draw):
    shapes = [GPTS[i] for i in draw(st.lists(st.integers(0, len(GPTS) - 1), min_size=1, max_size=2, unique=True))]
    steps = []
    for _ in range(draw(st.integers(1, 5))):
        steps.append(
            {
                "gpts": draw(st.sampled_from(shapes)),
                "n_waves": draw(st.sampled_from([0, 0, 1, 2, 3])),  # 0: a single 2-D wave
                "in_place": draw(st.booleans()),
                "thickness": draw(st.sampled_from([0.5, 1.0, 2.0, 7.5])),
                "seed": draw(gen.seeds()),
                "member": draw(st.sampled_from([None, None, None, 0, 1])),  # waves[i] of a 3-stack
            }
        )
    return {"config": draw(config_spec()), "energy": draw(gen.energies()), "sampling": round(draw(gen.floats(0.1, 0.4)), 3), "steps": steps}


@claim(
    "C38",
    "propagator_history",
    history_case,
    quick=150,
    thorough=8000,
    tol="vs complex128 numpy convolution with the same kernel: 1e-5 (float32, observed 3e-7), 1e-12 (float64); aliasing exact",
    rule="fftw backend and >=2 propagate calls",
    nontrivial_floor=0.25,
)
def check_propagator_history(case, ctx):
    import abtem
    from abtem.multislice import FresnelPropagator

    spec = case["config"]
    ctx.label(cfg_label(spec))
    ctx.nontrivial(spec["fft"] == "fftw" and len(case["steps"]) >= 2)
    rtol = 1e-5 if spec["precision"] == "float32" else 1e-12
    d = case["sampling"]
    kept = []  # (result array object, bit copy) of every earlier call
    with abtem.config.set(cfg(spec)):
        propagator = FresnelPropagator()
        for i, step in enumerate(case["steps"]):
            gpts = tuple(step["gpts"])
            member = step["member"]
            n = step["n_waves"]
            if member is not None:
                stack = gen.rand_complex((3,) + gpts, step["seed"], cdtype(spec))
                waves = abtem.Waves(stack, energy=case["energy"], sampling=(d, d), ensemble_axes_metadata=[abtem.core.axes.UnknownAxis()])[member]
                ctx.label("member-view")
            elif n == 0:
                waves = abtem.Waves(gen.rand_complex(gpts, step["seed"], cdtype(spec)), energy=case["energy"], sampling=(d, d))
            else:
                waves = abtem.Waves(
                    gen.rand_complex((n,) + gpts, step["seed"], cdtype(spec)),
                    energy=case["energy"],
                    sampling=(d, d),
                    ensemble_axes_metadata=[abtem.core.axes.UnknownAxis()],
                )
            in_arr = waves.array
            x0 = in_arr.copy()
            kernel = np.asarray(propagator.get_array(waves, step["thickness"])).copy()
            ref = np.fft.ifft2(np.fft.fft2(x0.astype(np.complex128), axes=(-2, -1)) * kernel.astype(np.complex128), axes=(-2, -1))
            try:
                out = propagator.propagate(waves, thickness=step["thickness"], in_place=step["in_place"])
            except ValueError as e:
                if "alignment" in str(e):
                    raise Violation(
                        f"FresnelPropagator.propagate raises under fftw for waves[{member}] (8-byte-offset view, gpts={gpts}): {str(e)[:100]}",
                        ("fftw-rejects-view", "alignment"),
                    ) from e
                raise
            res = out.array
            which = ("in_place" if step["in_place"] else "copy",)
            if res.shape != ref.shape or res.dtype != cdtype(spec):
                raise Violation(f"step {i}: result {res.shape}/{res.dtype}, expected {ref.shape}/{cdtype(spec).__name__}", ("shape-dtype",) + which)
            if not tol.close(res, ref, rtol=rtol):
                raise Violation(
                    f"step {i}: propagate under {cfg_label(spec)} differs from the numpy convolution by {tol.rel_err(res, ref):.2e} (step={step})",
                    ("value", spec["fft"]) + which,
                )
            if not step["in_place"]:
                if not np.array_equal(in_arr, x0):
                    raise Violation(f"step {i}: propagate(in_place=False) modified the input waves under {cfg_label(spec)}", ("input-modified",))
                if np.shares_memory(res, in_arr):
                    raise Violation(f"step {i}: propagate(in_place=False) returned memory of the input", ("result-aliases-input",))
            elif out is not waves:
                raise Violation("propagate(in_place=True) returned a different object", ("in_place-object",))
            if not np.array_equal(np.asarray(propagator.get_array(waves, step["thickness"])), kernel):
                raise Violation(f"step {i}: the cached propagator kernel was modified by propagate", ("kernel-modified",))
            for j, (arr, snap) in enumerate(kept):
                if not np.array_equal(arr, snap):
                    raise Violation(f"result of step {j} was modified by step {i} under {cfg_label(spec)}", ("earlier-result-modified",))
            kept.append((res, res.copy()))


# ======================================================================= pipeline
@st.composite
def pipeline_case(draw):
    builder = draw(st.sampled_from(["planewave", "probe", "probe", "smatrix"]))
    potential = draw(st.sampled_from(["atoms", "atoms", "array"]))
    case = {
        "config": draw(config_spec()),
        "gpts": draw(st.sampled_from(GPTS)),
        "atoms": draw(gen.atoms_spec(min_atoms=1, max_atoms=4, cell_xy=(3.0, 6.0), cell_z=(2.0, 5.0), boundary=False)),
        "potential": potential,
        "projection": draw(st.sampled_from(["infinite", "infinite", "finite"])),
        "slice_thickness": draw(st.sampled_from([0.5, 1.0, 2.0])),
        "energy": draw(gen.energies()),
        "builder": builder,
        "order": draw(st.sampled_from([1, 1, 2])),
        "lazy": draw(st.booleans()),
        "seed": draw(gen.seeds()),
    }
    if builder != "planewave":
        case["scan"] = draw(st.sampled_from([[1, 2], [2, 2], [2, 3]]))
        case["aperture"] = round(draw(gen.floats(0.4, 0.9)), 3)
        # (no FlexibleAnnularDetector: its radial step defaults to the angular sampling, so pixels
        # sit exactly on bin edges and the truncating bin index flips with float32/float64
        # rounding of the frequencies - an ill-conditioned observable, see C12/C13)
        choices = ["annular", "pixelated"] + (["waves"] if builder == "probe" else [])
        case["detectors"] = draw(st.lists(st.sampled_from(choices), min_size=1, max_size=3, unique=True))
    if builder == "smatrix":
        # abTEM warns when the interpolation factor does not divide gpts: only dividing factors
        even = all(n % 2 == 0 for n in case["gpts"])
        case["interpolation"] = draw(st.sampled_from([1, 1, 2])) if even else 1
    return case


def _run_pipeline(case, spec):
    """Run the drawn simulation under configuration ``spec``; returns [(name, ndarray)]."""
    import abtem
    from abtem.core.energy import energy2wavelength
    from abtem.multislice import FourierMultislice

    gpts = tuple(case["gpts"])
    atoms = gen.make_atoms(case["atoms"])
    extent = (case["atoms"]["cell"][0], case["atoms"]["cell"][1])
    sampling = (extent[0] / gpts[0], extent[1] / gpts[1])
    energy = case["energy"]
    wl = energy2wavelength(energy)
    amax = 0.3 / max(sampling) * wl * 1e3  # [mrad] inside the antialias aperture
    algorithm = FourierMultislice(order=case["order"])
    lazy = case["lazy"]
    out = []
    with abtem.config.set(cfg(spec)):
        if case["potential"] == "atoms":
            potential = abtem.Potential(atoms, gpts=gpts, slice_thickness=case["slice_thickness"], projection=case["projection"])
        else:
            n_slices = max(1, int(np.ceil(case["atoms"]["cell"][2] / case["slice_thickness"])))
            rng = np.random.default_rng(case["seed"])
            v = rng.uniform(-1, 1, (n_slices,) + gpts)
            v = sum(np.roll(v, (a, b), axis=(-2, -1)) for a in (-1, 0, 1) for b in (-1, 0, 1)) / 9.0
            v = (300.0 * v).astype(rdtype(spec))  # up to ~0.3 rad per slice
            potential = abtem.PotentialArray(v, slice_thickness=case["slice_thickness"], sampling=sampling)

        if case["builder"] == "planewave":
            res = abtem.PlaneWave(energy=energy).multislice(potential, algorithm=algorithm, lazy=lazy)
            res = [res]
            names = ["exit_waves"]
        else:
            dets, names = [], []
            for name in case["detectors"]:
                names.append(name)
                if name == "annular":
                    # edges at incommensurate fractions: no pixel radius within rounding of an edge
                    dets.append(abtem.AnnularDetector(inner=0.2537 * amax, outer=0.8931 * amax))
                elif name == "pixelated":
                    dets.append(abtem.PixelatedDetector(max_angle="valid"))
                else:
                    dets.append(abtem.WavesDetector())
            # positions off the pixel / half-pixel lattice: window cropping and sub-pixel shifts
            # round positions to pixels, a tie would make the result depend on float rounding
            scan = abtem.GridScan(
                start=(0.0137 * extent[0], 0.0213 * extent[1]),
                end=(0.9137 * extent[0], 0.8713 * extent[1]),
                gpts=tuple(case["scan"]),
                endpoint=False,
            )
            if case["builder"] == "probe":
                probe = abtem.Probe(energy=energy, semiangle_cutoff=case["aperture"] * amax)
                res = probe.scan(potential, scan=scan, detectors=dets, algorithm=algorithm, lazy=lazy)
            else:
                smatrix = abtem.SMatrix(
                    potential=potential,
                    energy=energy,
                    semiangle_cutoff=case["aperture"] * amax,
                    interpolation=case["interpolation"],
                    downsample=False,
                )
                res = smatrix.scan(scan=scan, detectors=dets, lazy=lazy)
            if not isinstance(res, (list, tuple)):
                res = [res]
        for name, r in zip(names, res):
            if lazy:
                if not r.is_lazy:
                    raise Violation(f"lazy=True returned an eager {type(r).__name__}", ("lazy-flag", case["builder"]))
                r = r.compute()
            out.append((name, np.asarray(r.array)))
    return out


@claim(
    "C38",
    "pipeline",
    pipeline_case,
    quick=50,
    thorough=2500,
    tol="vs numpy/float32 run: 2e-4*max|ref| (observed 3e-6); float64 vs numpy/float64 run: 1e-9; float64 runs return float64/complex128",
    rule=">=2 slices, a non-power-of-two grid and a configuration other than numpy/float32",
    nontrivial_floor=0.4,
)
def check_pipeline(case, ctx):
    spec = case["config"]
    ctx.label(cfg_label(spec))
    ctx.label(f"{case['builder']}-{case['potential']}-{'lazy' if case['lazy'] else 'eager'}")
    n_slices = int(np.ceil(case["atoms"]["cell"][2] / case["slice_thickness"]))
    ctx.nontrivial(n_slices >= 2 and non_pow2(case["gpts"]) and spec != NUMPY32)

    ref = _run_pipeline(case, NUMPY32)
    got = _run_pipeline(case, spec)
    if [n for n, _ in ref] != [n for n, _ in got]:
        raise Violation("different outputs", ("outputs",))
    for (name, r), (_, g) in zip(ref, got):
        which = (case["builder"], name)
        if g.shape != r.shape:
            raise Violation(f"{name}: shape {g.shape} under {cfg_label(spec)} vs {r.shape} under numpy/float32", ("shape",) + which)
        want = (cdtype(spec) if np.iscomplexobj(r) else rdtype(spec))
        if g.dtype != want:
            raise Violation(f"{name}: dtype {g.dtype} under precision={spec['precision']} (expected {np.dtype(want)})", ("dtype", spec["precision"]) + which)
        if not np.all(np.isfinite(g)):
            raise Violation(f"{name}: non-finite values under {cfg_label(spec)}", ("nonfinite",) + which)
        if not tol.close(g, r, rtol=2e-4):
            raise Violation(
                f"{name}: {cfg_label(spec)} differs from numpy/float32 by {tol.rel_err(g, r):.2e} ({case})",
                ("value-vs-numpy32", spec["fft"], spec["precision"]) + which,
            )
    if spec["precision"] == "float64" and spec["fft"] != "numpy":
        ref64 = _run_pipeline(case, NUMPY64)
        for (name, r), (_, g) in zip(ref64, got):
            if not tol.close(g, r, rtol=1e-9):
                raise Violation(
                    f"{name}: {cfg_label(spec)} differs from numpy/float64 by {tol.rel_err(g, r):.2e} ({case})",
                    ("value-vs-numpy64", case["builder"], name),
                )


# ======================================================================= measurement_transforms
@st.composite
def transform_case(draw):
    op = draw(st.sampled_from(["diffraction_patterns", "waves_downsample", "images_interpolate", "reciprocal_roundtrip", "gaussian_filter", "apply_ctf"]))
    case = {
        "config": draw(config_spec()),
        "op": op,
        "gpts": draw(st.sampled_from(GPTS)),
        "extent": [round(draw(gen.floats(4.0, 9.0)), 3), round(draw(gen.floats(4.0, 9.0)), 3)],
        "energy": draw(gen.energies()),
        "n": draw(st.sampled_from([0, 2, 3])),  # ensemble size (0: none)
        "lazy": draw(st.booleans()),
        "seed": draw(gen.seeds()),
    }
    if op == "diffraction_patterns":
        case["max_angle"] = draw(st.sampled_from(["cutoff", "valid", "full"]))
        case["block_direct"] = draw(st.booleans())
        case["fftshift"] = draw(st.booleans())
    elif op == "images_interpolate":
        case["new_gpts"] = draw(st.sampled_from([[9, 10], [16, 16], [20, 25], [24, 18]]))
    elif op == "waves_downsample":
        case["shrink"] = [draw(st.integers(0, 5)), draw(st.integers(1, 5))]
    elif op == "gaussian_filter":
        case["sigma"] = round(draw(gen.floats(0.1, 1.0)), 3)
    elif op == "apply_ctf":
        case["defocus"] = round(draw(gen.floats(-200.0, 200.0)), 1)
        case["Cs"] = draw(st.sampled_from([0.0, 1e5, -2e4]))
    return case


def _run_transform(case, spec):
    import abtem
    import dask.array as da

    gpts = tuple(case["gpts"])
    n = case["n"]
    shape = ((n,) if n else ()) + gpts
    md = [abtem.core.axes.UnknownAxis()] if n else []
    data = gen.bandlimited_complex(shape, case["seed"], frac=0.5, dtype=np.complex128)
    data = data / np.abs(data).max()
    op = case["op"]
    with abtem.config.set(cfg(spec)):
        if op in ("images_interpolate", "gaussian_filter"):
            arr = (np.abs(data) ** 2).astype(rdtype(spec))
            if case["lazy"]:
                arr = da.from_array(arr, chunks=((1,) if n else ()) + gpts)
            obj = abtem.Images(arr, sampling=(case["extent"][0] / gpts[0], case["extent"][1] / gpts[1]), ensemble_axes_metadata=md)
            if op == "images_interpolate":
                res = obj.interpolate(gpts=tuple(case["new_gpts"]), method="fft")
            else:
                res = obj.gaussian_filter(case["sigma"])
        else:
            arr = data.astype(cdtype(spec))
            if case["lazy"]:
                arr = da.from_array(arr, chunks=((1,) if n else ()) + gpts)
            obj = abtem.Waves(arr, energy=case["energy"], extent=tuple(case["extent"]), ensemble_axes_metadata=md)
            if op == "diffraction_patterns":
                res = obj.diffraction_patterns(max_angle=case["max_angle"], block_direct=case["block_direct"], fftshift=case["fftshift"])
            elif op == "waves_downsample":
                res = obj.downsample(gpts=(gpts[0] - case["shrink"][0], gpts[1] - case["shrink"][1]))
            elif op == "reciprocal_roundtrip":
                res = obj.ensure_reciprocal_space().ensure_real_space()
            else:
                res = obj.apply_ctf(abtem.CTF(defocus=case["defocus"], Cs=case["Cs"], semiangle_cutoff=15.0))
        if case["lazy"]:
            if not res.is_lazy:
                raise Violation(f"{op} of a lazy object returned an eager one", ("lazy-flag", op))
            res = res.compute()
        return np.asarray(res.array)


@claim(
    "C38",
    "measurement_transforms",
    transform_case,
    quick=200,
    thorough=10000,
    tol="vs numpy/float32 run: 2e-5*max|ref| (observed 1e-6); float64 vs numpy/float64 run: 1e-10",
    rule="fftw backend or float64 precision, non-power-of-two grid",
    nontrivial_floor=0.4,
)
def check_measurement_transforms(case, ctx):
    spec = case["config"]
    op = case["op"]
    ctx.label(cfg_label(spec))
    ctx.label(op + ("-lazy" if case["lazy"] else ""))
    ctx.nontrivial(spec != NUMPY32 and non_pow2(case["gpts"]))
    ref = _run_transform(case, NUMPY32)
    got = _run_transform(case, spec)
    if got.shape != ref.shape:
        raise Violation(f"{op}: shape {got.shape} under {cfg_label(spec)} vs {ref.shape} under numpy/float32", ("shape", op))
    if op == "reciprocal_roundtrip":
        # independent anchor for the pair fft2/ifft2: the round trip is the identity
        data = gen.bandlimited_complex(ref.shape, case["seed"], frac=0.5, dtype=np.complex128)
        data = data / np.abs(data).max()
        if not tol.close(got, data, rtol=2e-5):
            raise Violation(f"reciprocal-space round trip under {cfg_label(spec)} off by {tol.rel_err(got, data):.2e}", ("roundtrip", spec["fft"]))
    if not np.all(np.isfinite(got)):
        raise Violation(f"{op}: non-finite values under {cfg_label(spec)}", ("nonfinite", op))
    if not tol.close(got, ref, rtol=2e-5):
        raise Violation(
            f"{op}: {cfg_label(spec)} differs from numpy/float32 by {tol.rel_err(got, ref):.2e} ({case})",
            ("value-vs-numpy32", op, spec["fft"], spec["precision"]),
        )
    if spec["precision"] == "float64" and spec["fft"] != "numpy":
        ref64 = _run_transform(case, NUMPY64)
        if not tol.close(got, ref64, rtol=1e-10):
            raise Violation(
                f"{op}: {cfg_label(spec)} differs from numpy/float64 by {tol.rel_err(got, ref64):.2e} ({case})",
                ("value-vs-numpy64", op),
            )
