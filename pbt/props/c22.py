"""C22 Cartesian and polar aberration conversions describe the same aberration
(abtem/transfer.py: polar2cartesian / cartesian2polar).

Oracle (metamorphic, float64): chi evaluated by the independent reference
(pbt/props/_chi_ref.py) from the original polar coefficients p and from
cartesian2polar(polar2cartesian(p)).  chi is a polynomial in alpha whose coefficient of
alpha^(n+1) is a Fourier series in phi, so "chi identical for every angle" is equivalent
to "every (n, m) harmonic  C_nm cos(m (phi - phi_nm))  identical": the harmonics are
compared one by one on a 64-point phi grid (tolerance 1e-12 * |C_nm|), which is not hidden
by a much larger neighbouring term, and additionally the full chi at three radii.
The angles themselves are not compared: they are only defined modulo the symmetry of the
term (and the sign of the magnitude).
"""

from __future__ import annotations

import math

import numpy as np
from hypothesis import strategies as st

from pbt import gen
from pbt.core import Violation, claim
from pbt.props import _chi_ref as ref
from pbt.props._aberr_gen import coeff_set

# the coefficients the conversion supports (property statement)
SUPPORTED_ORDERS = [(1, 0), (1, 2), (2, 1), (2, 3), (3, 0), (3, 2), (3, 4)]
SUPPORTED = [f"C{n}{m}" for n, m in SUPPORTED_ORDERS] + [f"phi{n}{m}" for n, m in SUPPORTED_ORDERS if m > 0]
RTOL = 1e-12
PHI = np.linspace(-np.pi, np.pi, 64, endpoint=False) + 0.01  # generic grid, no special angles
RADII = [0.005, 0.02, 0.04]  # rad


# ----------------------------------------------------------------------- generators
def _snap(x: float) -> float:
    """Magnitudes are lengths in Angstrom: 0, or at least 1e-12 in modulus.  Below 1e-154
    the squares in cartesian2polar's sqrt(a**2 + b**2) underflow; that is the float64
    range, not the conversion, so such values are not generated (stated domain decision)."""
    return 0.0 if abs(x) < 1e-12 else x


def magnitudes():
    return st.one_of(
        gen.floats(-100.0, 100.0).map(_snap),
        gen.floats(-1e7, 1e7).map(_snap),
        st.sampled_from([0.0, 0.0, 1.0, -1.0, 1e-9, -1e-9, 1e9, -1e-12]),
        st.integers(-5, 5),  # ints are values too
    )


def angles():
    special = [0.0, math.pi, math.pi / 2, -math.pi / 2, math.pi / 4, -math.pi / 4, math.pi / 3, math.pi / 8, -3 * math.pi / 4]
    return st.one_of(gen.floats(-math.pi, math.pi, exclude_min=True), gen.floats(-math.pi, math.pi, exclude_min=True), st.sampled_from(special))


@st.composite
def polar_case(draw):
    mode = draw(st.sampled_from(["all", "all", "subset"]))
    if mode == "all":
        present = list(SUPPORTED)
    else:
        present = draw(st.lists(st.sampled_from(SUPPORTED), min_size=0, max_size=len(SUPPORTED), unique=True))
    polar = {}
    for s in sorted(present):
        polar[s] = draw(angles() if s.startswith("phi") else magnitudes())
    return {"polar": polar}


def _roundtrip(polar):
    from abtem.transfer import cartesian2polar, polar2cartesian

    cart = polar2cartesian(dict(polar))
    back = cartesian2polar(cart)
    return cart, back


def _check_back_dict(back):
    if set(back) != set(SUPPORTED):
        raise Violation(f"cartesian2polar returned keys {sorted(back)}; expected the twelve supported symbols", ("keys",))
    for s, v in back.items():
        if not (isinstance(v, (int, float, np.floating, np.integer)) and math.isfinite(float(v))):
            raise Violation(f"round-tripped coefficient {s} = {v!r} is not a finite number", ("nonfinite", s))


def _label(ctx, polar):
    ts = ref.terms({k: float(v) for k, v in polar.items()})
    azim = [(n, m) for n, m, c, a in ts if m > 0]
    ctx.label(f"azimuthal_terms={len(azim)}")
    ctx.label("zero_magnitude_with_angle", any(float(polar.get(f"C{n}{m}", 0.0)) == 0.0 and float(polar.get(f"phi{n}{m}", 0.0)) != 0.0 for n, m in SUPPORTED_ORDERS if m > 0))
    ctx.label("negative_magnitude", any(c < 0 and m > 0 for n, m, c, a in ts))
    ctx.nontrivial(len(azim) >= 1)


# ----------------------------------------------------------------------- claim 1: chi by reference
@claim(
    "C22",
    "roundtrip_chi",
    polar_case,
    quick=3000,
    thorough=60000,
    tol="f64: per harmonic |dchi_nm| <= 1e-12*|C_nm|; full chi at 3 radii <= 1e-12*sum|terms|",
    rule="at least one azimuthal term (m>0) has non-zero magnitude",
    nontrivial_floor=0.4,
)
def check_roundtrip_chi(case, ctx):
    polar = case["polar"]
    _label(ctx, polar)
    cart, back = _roundtrip(polar)
    _check_back_dict(back)
    p0 = {k: float(v) for k, v in polar.items()}
    p1 = {k: float(v) for k, v in back.items()}
    worst = 0.0
    for n, m in SUPPORTED_ORDERS:
        keys = [f"C{n}{m}"] + ([f"phi{n}{m}"] if m > 0 else [])
        a = ref.chi_over_wavelength_factor({k: p0[k] for k in keys if k in p0}, 1.0, PHI)
        b = ref.chi_over_wavelength_factor({k: p1[k] for k in keys if k in p1}, 1.0, PHI)
        scale = abs(p0.get(f"C{n}{m}", 0.0)) / (n + 1)
        err = float(np.max(np.abs(a - b)))
        if err > RTOL * scale:
            i = int(np.argmax(np.abs(a - b)))
            raise Violation(
                f"harmonic (n={n}, m={m}) changes in the round trip: original {({k: p0.get(k) for k in keys})} -> cartesian "
                f"{({k: v for k, v in cart.items() if k.startswith(f'C{n}{m}')})} -> {({k: p1.get(k) for k in keys})}; "
                f"C cos(m(phi-phi_nm))/(n+1) at phi={PHI[i]:.4f}: {a[i]!r} vs {b[i]!r}",
                ("harmonic", f"C{n}{m}"),
            )
        if scale > 0:
            worst = max(worst, err / scale)
    # the statement literally: chi(alpha, phi) from both sets, three radii x 64 azimuths
    alpha = np.array(RADII)[:, None]
    c0 = ref.chi_over_wavelength_factor(p0, alpha, PHI[None, :])
    c1 = ref.chi_over_wavelength_factor(p1, alpha, PHI[None, :])
    bound = ref.chi_abs_bound(p0, np.array(RADII), 100e3)[:, None] * ref.wavelength(100e3) / (2 * np.pi)
    if np.any(np.abs(c0 - c1) > RTOL * bound):
        raise Violation(f"chi differs after the round trip by {np.max(np.abs(c0 - c1)):.3e} (scale {bound.max():.3e})", ("chi",))
    ctx.note("worst_rel", worst)


# ----------------------------------------------------------------------- claim 2: through abTEM's own kernel
@st.composite
def kernel_case(draw):
    energy = draw(gen.energies())
    coeffs = draw(coeff_set(energy, supported=SUPPORTED_ORDERS, max_size=len(SUPPORTED_ORDERS)))
    k = draw(st.integers(2, 12))
    return {
        "energy": energy,
        "polar": coeffs,
        "alpha": [draw(gen.floats(0.0, 0.04)) for _ in range(k)],
        "phi": [draw(gen.floats(-math.pi, math.pi, exclude_min=True)) for _ in range(k)],
    }


@claim(
    "C22",
    "roundtrip_kernel",
    kernel_case,
    quick=1000,
    thorough=20000,
    tol="ulp32: |K(p) - K(roundtrip(p))| <= 2*(1e-4 + 1e-5*sum|terms|) through Aberrations._evaluate_from_angular_grid",
    rule="at least one azimuthal term (m>0) has non-zero magnitude",
    nontrivial_floor=0.4,
)
def check_roundtrip_kernel(case, ctx):
    from abtem.transfer import Aberrations

    polar, energy = case["polar"], case["energy"]
    _label(ctx, polar)
    cart, back = _roundtrip(polar)
    _check_back_dict(back)
    alpha = np.array(case["alpha"], dtype=np.float64)
    phi = np.array(case["phi"], dtype=np.float64)
    k0 = Aberrations(aberration_coefficients=dict(polar), energy=energy)._evaluate_from_angular_grid(alpha, phi)
    # the converted dictionary is handed to abTEM as it comes out of cartesian2polar
    k1 = Aberrations(aberration_coefficients=back, energy=energy)._evaluate_from_angular_grid(alpha, phi)
    p0 = {k: float(v) for k, v in polar.items()}
    tolerance = 2 * (1e-4 + 1e-5 * ref.chi_abs_bound(p0, alpha, energy))
    err = np.abs(np.asarray(k0) - np.asarray(k1))
    if np.any(err > tolerance):
        i = int(np.argmax(err / tolerance))
        raise Violation(
            f"kernel of the round-tripped coefficients differs: {k0[i]} vs {k1[i]} at alpha={alpha[i]}, phi={phi[i]} (|diff|={err[i]:.3e}, tol={tolerance[i]:.3e}); {polar} -> {back}",
            ("kernel",),
        )
    # and the round-tripped kernel is the reference kernel of the ORIGINAL coefficients
    expected = np.exp(-1j * ref.chi(p0, alpha, phi, energy))
    err = np.abs(np.asarray(k1) - expected)
    if np.any(err > tolerance):
        i = int(np.argmax(err / tolerance))
        raise Violation(f"kernel of the round-tripped coefficients {k1[i]} != exp(-i chi_ref(original)) {expected[i]} at alpha={alpha[i]}, phi={phi[i]}", ("kernel_ref",))
