"""C18 Chunk computations partition arrays exactly (abtem/core/chunks.py)."""

from __future__ import annotations

import itertools
from functools import reduce
from operator import mul

import numpy as np
from hypothesis import strategies as st

from pbt.core import Violation, claim


# ----------------------------------------------------------------------- generators
@st.composite
def explicit_chunks(draw, n):
    """A tuple of positive ints summing to n (n >= 1)."""
    k = draw(st.integers(1, min(n, 5)))
    if k == 1:
        return [n]
    cuts = sorted(draw(st.lists(st.integers(1, n - 1), min_size=k - 1, max_size=k - 1, unique=True)))
    edges = [0] + cuts + [n]
    return [b - a for a, b in zip(edges[:-1], edges[1:])]


@st.composite
def validate_case(draw):
    ndim = draw(st.integers(0, 4))
    shape = [draw(st.integers(1, 40)) for _ in range(ndim)]
    spelling = draw(st.sampled_from(["minus1", "int", "tuple", "tuple", "tuple"]))
    if spelling == "minus1":
        chunks = -1
    elif spelling == "int":
        chunks = draw(st.integers(1, 3000))
    else:
        chunks = []
        for n in shape:
            kind = draw(st.sampled_from(["auto", "auto", "-1", "int", "explicit"]))
            if kind == "auto":
                chunks.append("auto")
            elif kind == "-1":
                chunks.append(-1)
            elif kind == "int":
                chunks.append(draw(st.integers(1, n + 3)))
            else:
                chunks.append(draw(explicit_chunks(n)))
    limit_kind = draw(st.sampled_from(["int", "int", "bytes"]))
    if limit_kind == "int":
        max_elements = draw(st.integers(1, 2000))
        dtype = None
    else:
        dtype = draw(st.sampled_from(["float32", "complex64", "float64", "complex128", "int8"]))
        max_elements = f"{draw(st.integers(1, 4000))} B"
        # a byte limit below one element is a zero element limit; exclude (no caller does that)
        if int(max_elements.split()[0]) < np.dtype(dtype).itemsize:
            max_elements = f"{np.dtype(dtype).itemsize * draw(st.integers(1, 500))} B"
    return {"shape": shape, "chunks": chunks, "max_elements": max_elements, "dtype": dtype}


def _to_spec(chunks):
    if isinstance(chunks, list):
        return tuple(tuple(c) if isinstance(c, list) else c for c in chunks)
    return chunks


# ----------------------------------------------------------------------- claims
@claim(
    "C18",
    "validate_chunks",
    validate_case,
    quick=3000,
    thorough=60000,
    tol="exact",
    rule="at least one dimension is split into >=2 chunks",
    nontrivial_floor=0.3,
)
def check_validate_chunks(case, ctx):
    from dask.utils import parse_bytes

    from abtem.core.chunks import validate_chunks

    shape = tuple(case["shape"])
    spec = _to_spec(case["chunks"])
    max_elements = case["max_elements"]
    dtype = np.dtype(case["dtype"]) if case["dtype"] else None
    if isinstance(max_elements, str):
        limit = int(np.floor(parse_bytes(max_elements) / dtype.itemsize))
    else:
        limit = max_elements
    if isinstance(spec, int) and spec != -1:
        limit = spec  # a bare int is the element limit
        auto_dims = list(range(len(shape)))
        fixed_max = [1] * len(shape)
    elif spec == -1:
        auto_dims = []
        fixed_max = list(shape)
    else:
        auto_dims = [i for i, c in enumerate(spec) if c == "auto"]
        fixed_max = []
        for n, c in zip(shape, spec):
            if c == "auto":
                fixed_max.append(1)
            elif c == -1:
                fixed_max.append(n)
            elif isinstance(c, int):
                fixed_max.append(min(c, n))
            else:
                fixed_max.append(max(c))
    feasible = reduce(mul, fixed_max, 1) <= limit
    # abTEM budgets an int chunk larger than its dimension at face value; refusing to chunk
    # then is conservative (nothing that exceeds the limit is returned), which the statement
    # allows - success is demanded only when the budget at face value also fits
    if isinstance(spec, tuple):
        face = [c if isinstance(c, int) and c > 0 else f for c, f in zip(spec, fixed_max)]
    else:
        face = fixed_max
    feasible_at_face_value = reduce(mul, face, 1) <= limit
    ctx.label("auto_dims>0", bool(auto_dims))
    ctx.label("feasible", feasible)

    try:
        out = validate_chunks(shape, spec, max_elements=max_elements, dtype=dtype)
    except RuntimeError:
        if feasible_at_face_value or not auto_dims:
            raise
        ctx.label("rejected_oversized_int_chunk", feasible)
        # documented: "Object cannot be automatically chunked" when no valid chunking exists
        ctx.label("rejected_infeasible")
        return

    if not (isinstance(out, tuple) and len(out) == len(shape)):
        raise Violation(f"result {out!r} has wrong length for shape {shape}", ("shape_len",))
    for n, c in zip(shape, out):
        if not (isinstance(c, tuple) and all(isinstance(x, (int, np.integer)) and x > 0 for x in c)):
            raise Violation(f"invalid chunk entry {c!r}", ("entry_type",))
        if sum(c) != n:
            raise Violation(f"chunks {out} do not sum to shape {shape}", ("sum",))
    if isinstance(spec, tuple):
        for n, c, o in zip(shape, spec, out):
            if isinstance(c, tuple) and tuple(o) != tuple(c):
                raise Violation(f"explicit chunks {c} changed to {o}", ("explicit_changed",))
            if c == -1 and tuple(o) != (n,):
                raise Violation(f"-1 gave {o} for size {n}", ("minus1",))
            if isinstance(c, int) and c > 0:
                exp = (c,) * (n // c) + ((n % c,) if n % c else ())
                if tuple(o) != exp:
                    raise Violation(f"int chunk {c} on {n} gave {o}", ("int_chunks",))
    if spec == -1 and out != tuple((n,) for n in shape):
        raise Violation(f"-1 gave {out}", ("minus1",))
    if auto_dims and feasible:
        biggest = reduce(mul, [max(c) for c in out], 1)
        if biggest > limit:
            raise Violation(
                f"largest block has {biggest} elements > limit {limit}: shape={shape} chunks={spec} -> {out}",
                ("limit_exceeded",),
            )
    ctx.nontrivial(any(len(c) >= 2 for c in out))


@st.composite
def equal_case(draw):
    n = draw(st.integers(0, 200))
    mode = draw(st.sampled_from(["num_chunks", "chunk_size"]))
    if mode == "num_chunks":
        m = draw(st.integers(1, max(1, n)) if draw(st.booleans()) else st.integers(1, 220))
    else:
        m = draw(st.integers(1, 220))
    return {"n": n, "mode": mode, "m": m, "start": draw(st.integers(0, 50))}


@claim(
    "C18",
    "equal_sized_chunks",
    equal_case,
    quick=3000,
    thorough=60000,
    tol="exact",
    rule=">=2 chunks are returned",
    nontrivial_floor=0.3,
)
def check_equal_sized(case, ctx):
    from abtem.core.chunks import equal_sized_chunks, generate_chunks

    n, m, mode = case["n"], case["m"], case["mode"]
    kw = {mode: m}
    if mode == "num_chunks" and 0 < n < m:
        # documented rejection: more chunks than items
        try:
            equal_sized_chunks(n, **kw)
        except RuntimeError:
            ctx.label("rejected")
            return
        raise Violation(f"num_chunks={m} > num_items={n} accepted", ("accepts_too_many",))
    out = equal_sized_chunks(n, **kw)
    if n == 0:
        if tuple(out) != ():
            raise Violation(f"n=0 gave {out}", ("zero",))
        return
    if sum(out) != n:
        raise Violation(f"{out} does not sum to {n}", ("sum",))
    if any(c <= 0 for c in out):
        raise Violation(f"non-positive chunk in {out}", ("nonpositive",))
    if max(out) - min(out) > 1:
        raise Violation(f"sizes differ by more than one: {out}", ("unequal",))
    if mode == "num_chunks":
        if len(out) != m:
            raise Violation(f"asked {m} chunks got {len(out)}", ("count",))
    else:
        if max(out) > m:
            raise Violation(f"chunk larger than chunk_size={m}: {out}", ("chunk_size",))
        if len(out) != -(-n // m):
            raise Violation(f"chunk_size={m} n={n} gave {len(out)} chunks", ("count",))
    # generate_chunks enumerates the same partition as contiguous ranges from start
    start = case["start"]
    gen_kw = {"num_chunks": m} if mode == "num_chunks" else {"chunks": m}
    ranges = list(generate_chunks(n, start=start, **gen_kw))
    pos = start
    for (a, b), size in zip(ranges, out):
        if a != pos or b - a != size:
            raise Violation(f"generate_chunks {ranges} vs sizes {out}", ("generate_chunks",))
        pos = b
    if len(ranges) != len(out) or pos != start + n:
        raise Violation(f"generate_chunks {ranges} does not cover {n}", ("generate_chunks",))
    ctx.nontrivial(len(out) >= 2)


@st.composite
def ranges_case(draw):
    ndim = draw(st.integers(0, 4))
    return {"chunks": [draw(explicit_chunks(draw(st.integers(1, 30)))) for _ in range(ndim)]}


@claim(
    "C18",
    "chunk_ranges",
    ranges_case,
    quick=1500,
    thorough=30000,
    tol="exact",
    rule=">=2 chunks along some dimension",
    nontrivial_floor=0.3,
)
def check_chunk_ranges(case, ctx):
    from abtem.core.chunks import chunk_ranges, iterate_chunk_ranges

    chunks = tuple(tuple(c) for c in case["chunks"])
    rng = chunk_ranges(chunks)
    if len(rng) != len(chunks):
        raise Violation("wrong number of dims", ("ndim",))
    for c, r in zip(chunks, rng):
        pos = 0
        if len(r) != len(c):
            raise Violation(f"{len(r)} ranges for {len(c)} chunks", ("count",))
        for size, (a, b) in zip(c, r):
            if a != pos or b != a + size:
                raise Violation(f"ranges {r} not contiguous for chunks {c}", ("contiguous",))
            pos = b
        if pos != sum(c):
            raise Violation("ranges do not end at the size", ("cover",))
    got = list(iterate_chunk_ranges(chunks))
    exp_idx = list(itertools.product(*(range(len(c)) for c in chunks)))
    exp_slices = list(itertools.product(*(tuple(slice(a, b) for a, b in r) for r in rng)))
    if [g[0] for g in got] != exp_idx or [g[1] for g in got] != exp_slices:
        raise Violation("iterate_chunk_ranges does not enumerate the ranges in C order", ("iterate",))
    # the slices tile the array exactly once
    shape = tuple(sum(c) for c in chunks)
    cover = np.zeros(shape, dtype=int)
    for _, sl in got:
        cover[sl] += 1
    if not (cover == 1).all():
        raise Violation("blocks do not tile the array exactly once", ("tile",))
    ctx.nontrivial(any(len(c) >= 2 for c in chunks))
