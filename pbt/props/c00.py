"""Self-test pseudo-property (not in properties.jsonl, never registered in MANIFEST):
exercises the VIOLATION / KNOWN-FINDING / exit-code paths of the core.
    VERIF_SELFTEST=violate|harness ./run.sh C00 quick
"""
import os

from hypothesis import strategies as st

from pbt.core import Violation, claim

MODE = os.environ.get("VERIF_SELFTEST", "pass")


@claim("C00", "dummy", lambda: st.fixed_dictionaries({"x": st.integers(0, 1000), "y": st.integers(0, 1000)}), quick=300, thorough=1000, rule="x>10", nontrivial_floor=0.2)
def check_dummy(case, ctx):
    import abtem  # noqa: F401

    ctx.nontrivial(case["x"] > 10)
    if MODE == "violate" and case["x"] > 500 and case["y"] > 3:
        raise Violation(f"x={case['x']} too big", ("x_big",))
    if MODE == "violate" and case["y"] == 777:
        raise Violation("y is 777", ("y777",))
    if MODE == "harness" and case["x"] > 900:
        raise KeyError("harness bug")
