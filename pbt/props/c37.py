"""C37 Real-space multislice is a faithful discretization
(abtem/finite_difference.py, abtem/multislice.py).

Three clauses, three claims:

* ``stencil_eigen``   - the finite-difference Laplacian of any tabulated accuracy applied to
  a discrete periodic plane wave returns the wave times the stencil's analytic eigenvalue.
  Oracle: closed-form (rational) central-difference coefficients, eigenvalue evaluated in
  float64.  For anisotropic sampling only the eigen-*relation* (L[e]/e constant over the
  grid) is asserted, not the value of the constant (DESIGN.md section 5).
* ``vacuum_intensity`` - real-space propagation through vacuum preserves the intensity of
  band-limited waves (all orders / expansion scopes / accuracies).
* ``lazy_eager``      - real-space multislice gives the same result lazily and eagerly.

Cost note: every ``_laplace_operator_stencil`` call compiles a fresh numba closure
(~0.5-0.8 s), so every example costs about one compilation per multislice run; the example
counts are small and every example is made to carry several plane waves / waves.
"""

from __future__ import annotations

from fractions import Fraction
from math import factorial

import numpy as np
from hypothesis import strategies as st

from pbt import gen, tol
from pbt.core import Violation, claim

ACCURACIES = [2, 4, 6, 8, 10, 12, 14, 16, 18]  # > 18 needs sympy (not installed here)

# the antialias aperture applied after every real-space step passes |k| <= (cutoff/2 -
# taper)/max(sampling) = 0.3233/max(sampling) unchanged (abtem/antialias.py); waves
# band-limited to BAND/max(sampling) are inside with a margin.
BAND = 0.30


# ----------------------------------------------------------------------- reference
def central_second_derivative_coefficients(accuracy: int) -> np.ndarray:
    """Closed form of the centred stencil of the second derivative of order ``accuracy``:
    c_k = 2 (-1)^(k+1) (n!)^2 / (k^2 (n-k)! (n+k)!),  c_0 = -2 sum_k 1/k^2,  n = accuracy/2."""
    n = accuracy // 2
    c = [Fraction(0)] * (2 * n + 1)
    for k in range(1, n + 1):
        v = Fraction(2 * (-1) ** (k + 1) * factorial(n) ** 2, k * k * factorial(n - k) * factorial(n + k))
        c[n + k] = v
        c[n - k] = v
    c[n] = -2 * sum(Fraction(1, k * k) for k in range(1, n + 1))
    return np.array([float(x) for x in c])


def stencil_eigenvalue(accuracy, p, q, nx, ny, prefactor):
    c = central_second_derivative_coefficients(accuracy)
    n = accuracy // 2
    k = np.arange(-n, n + 1)
    return prefactor * float(np.sum(c * (np.cos(2 * np.pi * p * k / nx) + np.cos(2 * np.pi * q * k / ny))))


def operator_norm(accuracy, prefactor):
    """inf-norm (= 1-norm) of the 2-D stencil operator."""
    return 2.0 * float(np.abs(central_second_derivative_coefficients(accuracy)).sum()) * prefactor


def plane_waves(nx, ny, pqs):
    i = np.arange(nx)[:, None]
    j = np.arange(ny)[None, :]
    return np.stack([np.exp(2j * np.pi * (p * i / nx + q * j / ny)) for p, q in pqs])


def bandlimited_waves(n, gpts, sampling, seed):
    """n random complex64 waves whose spectrum vanishes for |k| >= BAND/max(sampling)
    (physical frequencies); returns (array, number of non-DC frequencies kept)."""
    rng = np.random.default_rng(seed)
    kx = np.fft.fftfreq(gpts[0], sampling[0])[:, None]
    ky = np.fft.fftfreq(gpts[1], sampling[1])[None, :]
    mask = np.sqrt(kx**2 + ky**2) < BAND / max(sampling)
    spec = (rng.standard_normal((n,) + tuple(gpts)) + 1j * rng.standard_normal((n,) + tuple(gpts))) * mask
    arr = np.fft.ifft2(spec)
    arr = arr / np.sqrt((np.abs(arr) ** 2).mean(axis=(-2, -1), keepdims=True))
    return arr.astype(np.complex64), int(mask.sum()) - 1


# ----------------------------------------------------------------------- generators
@st.composite
def sampling2(draw, lo=0.05, hi=0.3):
    d = round(draw(gen.floats(lo, hi)), 4)
    if draw(st.booleans()):
        return [d, d]
    return [d, round(min(max(d * draw(gen.floats(0.6, 1.6)), 0.03), 0.45), 4)]


@st.composite
def eigen_case(draw):
    nx = draw(st.integers(3, 32))
    ny = draw(st.integers(3, 32))
    npw = draw(st.integers(1, 5))
    pqs = []
    for _ in range(npw):
        kind = draw(st.sampled_from(["any", "any", "any", "nyquist", "zero"]))
        if kind == "any":
            pqs.append([draw(st.integers(-(nx // 2), (nx - 1) // 2)), draw(st.integers(-(ny // 2), (ny - 1) // 2))])
        elif kind == "nyquist":
            pqs.append([nx // 2, ny // 2])
        else:
            pqs.append([0, 0])
    via = draw(st.sampled_from(["stencil", "stencil", "operator"]))
    case = {
        "gpts": [nx, ny],
        "accuracy": draw(st.sampled_from(ACCURACIES)),
        "pq": pqs,
        "via": via,
        "batch_ndim": draw(st.sampled_from([0, 1, 1, 2])),  # 2-D, 3-D, 4-D input arrays
        "amplitude_seed": draw(gen.seeds()),
    }
    if via == "stencil":
        case["prefactor"] = round(draw(gen.floats(0.5, 400.0)), 4)
    else:
        case["sampling"] = draw(sampling2())
        case["energy"] = draw(gen.energies())
        # history: the same accuracy used on a differently sampled grid just before
        # (a result must not depend on which grids an operator of that accuracy saw)
        d0 = round(draw(gen.floats(0.05, 0.3)), 4)
        case["prior_sampling"] = [d0, d0] if draw(st.booleans()) else None
    return case


@st.composite
def vacuum_case(draw):
    return {
        "gpts": [draw(st.integers(8, 32)), draw(st.integers(8, 32))],
        "sampling": draw(sampling2()),
        "energy": draw(gen.energies()),
        "accuracy": draw(st.sampled_from(ACCURACIES)),
        "order": draw(st.integers(1, 3)),
        "scope": draw(st.sampled_from(["propagator", "full"])),
        "n_slices": draw(st.integers(1, 6)),
        # dz * ||L||/(4 pi K0): inside the convergence region of the exponential series
        "x": round(draw(gen.floats(0.05, 0.5)), 3),
        "n_waves": draw(st.integers(1, 3)),
        "seed": draw(gen.seeds()),
    }


@st.composite
def lazy_case(draw):
    nx, ny = draw(st.integers(8, 24)), draw(st.integers(8, 24))
    builder = draw(st.sampled_from(["planewave", "probe", "waves"]))
    potential = draw(st.sampled_from(["array", "array", "atoms"]))
    n_slices = draw(st.integers(1, 5))
    case = {
        "gpts": [nx, ny],
        "sampling": draw(sampling2(0.08, 0.3)) if potential == "array" else draw(sampling2(0.15, 0.3)),
        "energy": draw(gen.energies()),
        "accuracy": draw(st.sampled_from(ACCURACIES)),
        "order": draw(st.integers(1, 3)),
        "scope": draw(st.sampled_from(["propagator", "full"])),
        "n_slices": n_slices,
        "x": round(draw(gen.floats(0.05, 0.4)), 3),
        "builder": builder,
        "potential": potential,
        "exit_planes": draw(st.sampled_from([None, None, 1, 2])),
        "seed": draw(gen.seeds()),
    }
    if potential == "array":
        case["phase"] = round(draw(gen.floats(0.0, 0.35)), 3)  # max |sigma V| per slice [rad]
    else:
        n_atoms = draw(st.integers(1, 4))
        case["numbers"] = [draw(st.sampled_from([1, 6, 8])) for _ in range(n_atoms)]
        case["scaled_positions"] = [[round(draw(gen.floats(0, 1)), 3) for _ in range(3)] for _ in range(n_atoms)]
    if builder == "probe":
        case["positions"] = [[round(draw(gen.floats(0, 1)), 3), round(draw(gen.floats(0, 1)), 3)] for _ in range(draw(st.integers(1, 3)))]
        case["max_batch"] = draw(st.integers(1, 3))
        case["aperture"] = round(draw(gen.floats(0.3, 0.9)), 3)
    elif builder == "waves":
        case["n_waves"] = draw(st.integers(1, 3))
        case["chunk"] = draw(st.integers(1, 3))
    return case


# ----------------------------------------------------------------------- claims
@claim(
    "C37",
    "stencil_eigen",
    eigen_case,
    quick=60,
    thorough=500,
    tol="|L[e] - lambda e| <= 1e-5 * ||L||_inf (float32 stencil; observed <= 6e-7); coefficients 1e-14",
    rule="at least one plane wave with (p,q) != (0,0)",
    nontrivial_floor=0.5,
    max_shrink_calls=12,  # every evaluation compiles a numba stencil (~1 s)
)
def check_stencil_eigen(case, ctx):
    import abtem
    from abtem.finite_difference import LaplaceOperator, _laplace_operator_stencil, finite_difference_coefficients

    nx, ny = case["gpts"]
    acc = case["accuracy"]
    pqs = [tuple(pq) for pq in case["pq"]]
    ctx.label(f"acc{acc}")
    ctx.label("odd" if (nx % 2 or ny % 2) else "even")
    ctx.label("stencil>grid", acc // 2 >= min(nx, ny))
    ctx.nontrivial(any(pq != (0, 0) for pq in pqs))

    # tabulated coefficients against the closed form
    ref_c = central_second_derivative_coefficients(acc)
    got_c = np.asarray(finite_difference_coefficients(2, acc), dtype=float)
    if got_c.shape != ref_c.shape or not np.allclose(got_c, ref_c, rtol=0, atol=1e-14):
        raise Violation(f"finite_difference_coefficients(2,{acc}) differ from the closed form by {np.abs(got_c - ref_c).max():.2e}", ("coefficients", acc))

    rng = np.random.default_rng(case["amplitude_seed"])
    amps = (rng.uniform(0.5, 2.0, len(pqs)) * np.exp(2j * np.pi * rng.uniform(0, 1, len(pqs))))[:, None, None]
    e = plane_waves(nx, ny, pqs)
    arr = (amps * e).astype(np.complex64)
    # batch layouts: (nx,ny) [first wave only], (M,nx,ny), (M,1,nx,ny)
    bnd = case["batch_ndim"]
    if bnd == 0:
        arr, e, pqs = arr[0], e[:1], pqs[:1]
    elif bnd == 2:
        arr = arr[:, None]
    inp = arr.copy()

    if case["via"] == "stencil":
        ctx.label("via-stencil")
        prefactor = case["prefactor"]
        out = _laplace_operator_stencil(acc, prefactor, mode="wrap")(arr)
        iso = True
    else:
        dx, dy = case["sampling"]
        iso = dx == dy
        ctx.label("via-operator-iso" if iso else "via-operator-aniso")
        md = [abtem.core.axes.UnknownAxis() for _ in range(arr.ndim - 2)]
        prior = case.get("prior_sampling")
        if prior is not None and tuple(prior) != (dx, dy):
            ctx.label("after-prior-grid")
            w0 = abtem.Waves(arr.copy(), energy=case["energy"], sampling=tuple(prior), ensemble_axes_metadata=md)
            out0 = np.asarray(LaplaceOperator(acc).apply(w0).array).reshape((-1, nx, ny))
            pre0 = 1.0 / prior[0] ** 2
            scale0 = operator_norm(acc, pre0)
            for m, (p, q) in enumerate(pqs):
                lam0 = stencil_eigenvalue(acc, p, q, nx, ny, pre0)
                ref0 = lam0 * arr.reshape((-1, nx, ny))[m].astype(np.complex128)
                if not np.abs(out0[m] - ref0).max() <= 1e-5 * scale0 * np.abs(arr).max():
                    raise Violation(f"L[e] != lambda*e on the first grid (sampling {prior}, accuracy {acc})", ("eigenvalue", "operator", "first-grid"))
        waves = abtem.Waves(arr, energy=case["energy"], sampling=(dx, dy), ensemble_axes_metadata=md)
        out = LaplaceOperator(acc).apply(waves).array
        prefactor = 1.0 / dx**2 if iso else None

    if out.shape != inp.shape:
        raise Violation(f"stencil output shape {out.shape} != input shape {inp.shape}", ("shape",))
    out = np.asarray(out).reshape((-1, nx, ny))
    inp = inp.reshape((-1, nx, ny))

    if iso:
        scale = operator_norm(acc, prefactor)
        for m, (p, q) in enumerate(pqs):
            lam = stencil_eigenvalue(acc, p, q, nx, ny, prefactor)
            err = np.abs(out[m] - lam * inp[m].astype(np.complex128)).max() / (scale * np.abs(inp[m]).max())
            if not err <= 1e-5:
                raise Violation(
                    f"L[e] != lambda*e: err {err:.2e} of ||L|| (lambda={lam:.6g}, (p,q)={(p, q)}, gpts={nx, ny}, accuracy={acc}, via={case['via']})",
                    ("eigenvalue", case["via"]),
                )
    else:
        dx, dy = case["sampling"]
        # scale only: an upper bound of ||L|| for any of the plausible prefactors
        scale = operator_norm(acc, 1.0 / min(dx, dy) ** 2)
        for m in range(len(pqs)):
            ratio = out[m] / inp[m].astype(np.complex128)  # |e| = amplitude >= 0.5
            mu = ratio.mean()
            err = np.abs(ratio - mu).max() / scale
            if not err <= 1e-5:
                raise Violation(
                    f"L[e]/e not constant over the grid: spread {err:.2e} of ||L|| ((p,q)={pqs[m]}, gpts={nx, ny}, accuracy={acc}, sampling={dx, dy})",
                    ("eigenrelation", "aniso"),
                )


def _vacuum_dz(case):
    from abtem.core.energy import energy2wavelength

    dx, dy = case["sampling"]
    norm = operator_norm(case["accuracy"], 1.0 / min(dx, dy) ** 2)  # >= ||L|| for abTEM's 1/(dx dy) prefactor
    k0 = 1.0 / energy2wavelength(case["energy"])
    return case["x"] * 4 * np.pi * k0 / norm


@claim(
    "C37",
    "vacuum_intensity",
    vacuum_case,
    quick=30,
    thorough=250,
    tol="sum|psi|^2 preserved to 1e-4 relative per wave (observed <= 1e-6)",
    rule=">=2 slices and the wave changed by > 1e-3 of its maximum",
    nontrivial_floor=0.4,
    max_shrink_calls=12,
)
def check_vacuum_intensity(case, ctx):
    import abtem
    from abtem.multislice import RealSpaceMultislice

    gpts = tuple(case["gpts"])
    sampling = tuple(case["sampling"])
    dz = _vacuum_dz(case)
    arr, n_modes = bandlimited_waves(case["n_waves"], gpts, sampling, case["seed"])
    ctx.label(f"order{case['order']}-{case['scope']}")
    ctx.label("iso" if sampling[0] == sampling[1] else "aniso")

    waves = abtem.Waves(arr.copy(), energy=case["energy"], sampling=sampling, ensemble_axes_metadata=[abtem.core.axes.UnknownAxis()])
    potential = abtem.PotentialArray(np.zeros((case["n_slices"],) + gpts, dtype=np.float32), slice_thickness=dz, sampling=sampling)
    algorithm = RealSpaceMultislice(order=case["order"], expansion_scope=case["scope"], derivative_accuracy=case["accuracy"])
    out = waves.multislice(potential, algorithm=algorithm)
    out = np.asarray(out.array)
    if out.shape != arr.shape:
        raise Violation(f"exit wave shape {out.shape} != {arr.shape}", ("shape",))

    changed = float(np.abs(out - arr).max() / np.abs(arr).max())
    ctx.nontrivial(case["n_slices"] >= 2 and changed > 1e-3 and n_modes >= 1)
    i0 = (np.abs(arr.astype(np.complex128)) ** 2).sum(axis=(-2, -1))
    i1 = (np.abs(out.astype(np.complex128)) ** 2).sum(axis=(-2, -1))
    rel = np.abs(i1 - i0) / i0
    if not np.all(rel <= 1e-4):
        raise Violation(
            f"vacuum propagation changed the intensity by {rel.max():.2e} (dz={dz:.4g}, case={case})",
            ("intensity", case["scope"]),
        )


def _lazy_setup(case):
    """Build (potential, dz) for the lazy/eager claim; potential strength is bounded by
    construction for arrays and measured for atoms."""
    import abtem
    from ase import Atoms

    from abtem.core.energy import energy2sigma

    gpts = tuple(case["gpts"])
    sampling = tuple(case["sampling"])
    dz = _vacuum_dz(case)
    sigma = energy2sigma(case["energy"])
    n_slices = case["n_slices"]
    ep = case["exit_planes"]
    kw = {} if ep is None else {"exit_planes": ep}
    if case["potential"] == "array":
        rng = np.random.default_rng(case["seed"])
        v = rng.uniform(-1, 1, (n_slices,) + gpts)
        # smooth a little (periodic 3x3 box) so that it is a potential-like field; keeps |v| <= 1
        v = sum(np.roll(v, (a, b), axis=(-2, -1)) for a in (-1, 0, 1) for b in (-1, 0, 1)) / 9.0
        v = (v * case["phase"] / sigma).astype(np.float32)
        potential = abtem.PotentialArray(v, slice_thickness=dz, sampling=sampling, **kw)
        strength = case["phase"]
    else:
        cell = [gpts[0] * sampling[0], gpts[1] * sampling[1], n_slices * dz]
        pos = np.array(case["scaled_positions"], dtype=float).reshape(-1, 3) * np.array(cell)
        atoms = Atoms(numbers=case["numbers"], positions=pos, cell=cell, pbc=True)
        potential = abtem.Potential(atoms, gpts=gpts, slice_thickness=dz, projection="infinite", **kw)
        strength = float(np.abs(potential.build(lazy=False).array).max() * sigma)
    return potential, dz, strength


@claim(
    "C37",
    "lazy_eager",
    lazy_case,
    quick=22,
    thorough=150,
    tol="max|lazy - eager| <= 1e-6 * max|eager| (observed 0)",
    rule=">=2 slices",
    nontrivial_floor=0.4,
    max_shrink_calls=12,
)
def check_lazy_eager(case, ctx):
    import abtem
    import dask.array as da

    from abtem.core.energy import energy2wavelength
    from abtem.multislice import RealSpaceMultislice

    gpts = tuple(case["gpts"])
    sampling = tuple(case["sampling"])
    potential, dz, strength = _lazy_setup(case)
    ctx.label(f"{case['builder']}-{case['potential']}")
    ctx.label(f"order{case['order']}-{case['scope']}")
    ctx.label("exit_planes", case["exit_planes"] is not None)
    # ||i dz (L/(4 pi K0) + sigma V/dz)||_1 <= x + strength must stay inside the region where
    # the exponential series converges (DivergedError is the documented answer outside)
    if case["x"] + strength > 0.8:
        ctx.label("outside-convergence-domain")
        ctx.skip()
        return
    algorithm = RealSpaceMultislice(order=case["order"], expansion_scope=case["scope"], derivative_accuracy=case["accuracy"])
    energy = case["energy"]

    if case["builder"] == "planewave":
        eager = abtem.PlaneWave(energy=energy).multislice(potential, algorithm=algorithm, lazy=False)
        lazy = abtem.PlaneWave(energy=energy).multislice(potential, algorithm=algorithm, lazy=True)
    elif case["builder"] == "probe":
        extent = (gpts[0] * sampling[0], gpts[1] * sampling[1])
        alpha = case["aperture"] * BAND / max(sampling) * energy2wavelength(energy) * 1e3
        positions = [[p[0] * extent[0], p[1] * extent[1]] for p in case["positions"]]

        def run(lazy):
            probe = abtem.Probe(energy=energy, semiangle_cutoff=alpha)
            return probe.multislice(potential, scan=abtem.CustomScan(positions), algorithm=algorithm, lazy=lazy, max_batch=case["max_batch"])

        eager, lazy = run(False), run(True)
    else:
        arr, _ = bandlimited_waves(case["n_waves"], gpts, sampling, case["seed"] + 1)
        md = [abtem.core.axes.UnknownAxis()]
        eager = abtem.Waves(arr.copy(), energy=energy, sampling=sampling, ensemble_axes_metadata=md).multislice(potential, algorithm=algorithm)
        lazy_in = da.from_array(arr.copy(), chunks=(case["chunk"],) + gpts)
        lazy = abtem.Waves(lazy_in, energy=energy, sampling=sampling, ensemble_axes_metadata=md).multislice(potential, algorithm=algorithm)

    if eager.is_lazy:
        raise Violation("eager run returned a lazy object", ("eager-is-lazy", case["builder"]))
    if not lazy.is_lazy:
        raise Violation("lazy run returned an eager object", ("lazy-is-eager", case["builder"]))
    lazy_shape = tuple(lazy.shape)
    lazy = lazy.compute()
    ctx.nontrivial(case["n_slices"] >= 2)
    a, b = np.asarray(eager.array), np.asarray(lazy.array)
    if a.shape != b.shape or lazy_shape != a.shape:
        raise Violation(f"shapes differ: eager {a.shape}, lazy {lazy_shape} -> computed {b.shape}", ("shape", case["builder"]))
    if not np.all(np.isfinite(a)):
        raise Violation(f"eager exit wave is not finite inside the convergence domain ({case})", ("nonfinite",))
    if not tol.close(b, a, rtol=1e-6):
        raise Violation(
            f"lazy != eager real-space multislice: rel err {tol.rel_err(b, a):.2e} ({case})",
            ("lazy_eager", case["builder"]),
        )
    if gen.axes_to_plain(eager.axes_metadata) != gen.axes_to_plain(lazy.axes_metadata):
        raise Violation("axes metadata differ between lazy and eager", ("axes_metadata", case["builder"]))
