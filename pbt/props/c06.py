"""C06 PRISM reduction reproduces conventional multislice probes."""

from __future__ import annotations

import numpy as np
from hypothesis import strategies as st

from pbt import gen, pipeline as pl, tol
from pbt.core import Violation, claim

RTOL = 2e-4


@st.composite
def aberrations(draw):
    ab = {}
    if draw(st.integers(0, 4)) > 0:
        ab["defocus"] = float(draw(st.integers(-150, 150)))
    if draw(st.integers(0, 2)) == 0:
        ab["Cs"] = float(draw(st.integers(-30, 30)) * 1e4)
    if draw(st.integers(0, 2)) == 0:
        ab["astigmatism"] = float(draw(st.integers(0, 60)))
        ab["astigmatism_angle"] = round(draw(gen.floats(0, 3.1)), 2)
    if draw(st.integers(0, 3)) == 0:
        ab["coma"] = float(draw(st.integers(0, 2000)))
        ab["coma_angle"] = round(draw(gen.floats(0, 3.1)), 2)
    if draw(st.integers(0, 5)) == 0:
        ab["C23"] = float(draw(st.integers(0, 800)))
        ab["phi23"] = round(draw(gen.floats(0, 2.0)), 2)
    return ab


@st.composite
def reduce_case(draw):
    pot = draw(
        pl.potential_spec(kinds=("none", "atoms", "atoms", "fp", "fp_mean"), max_slices=4, max_configs=3, finite_fraction=0.0, exit_planes=False)
    )
    case = {
        "potential": pot,
        "gpts": [draw(st.integers(10, 22)), draw(st.integers(10, 22))],
        "energy": draw(st.sampled_from([60e3, 80e3, 100e3, 200e3, 300e3])),
        "semiangle": round(draw(gen.floats(0.3, 0.8)), 3),
        "soft": draw(st.booleans()),
        "aberrations": draw(aberrations()),
        "ctf_as": "object",
        "scan": draw(pl.scan_spec(pot["atoms"]["cell"])),
        "detectors": [draw(pl.detector_spec()) for _ in range(draw(st.integers(1, 2)))],
        "lazy": draw(st.booleans()),
        "call": draw(st.sampled_from(["reduce", "scan"])),
    }
    if case["scan"]["kind"] == "none":
        case["scan"] = {"kind": "custom", "positions": [[0.0, 0.0]]}
    case["gpts"] = pl.sound_gpts(case["gpts"], pot)
    return case


def _off_pixel(semi, energy, extent, gpts):
    """Move the cutoff off reciprocal-space pixels: whether a pixel lying *exactly* on a
    hard cutoff is inside is a floating-point tie that PRISM's wave-vector selection and
    the aperture may break differently; such ties are not what C06 is about."""
    from abtem.core.energy import energy2wavelength

    lam = energy2wavelength(energy)
    i = np.arange(-(gpts[0] // 2) - 1, gpts[0] // 2 + 2)
    j = np.arange(-(gpts[1] // 2) - 1, gpts[1] // 2 + 2)
    alpha = lam * 1e3 * np.sqrt((i[:, None] / extent[0]) ** 2 + (j[None, :] / extent[1]) ** 2)
    for _ in range(50):
        if np.all(np.abs(alpha - semi) > 3e-3 * semi):
            break
        semi *= 1.004
    return float(semi)


def _potential(case):
    import abtem

    pot = case["potential"]
    if pot["kind"] == "none":
        return None
    return pl.make_potential(pot, case["gpts"])


@claim(
    "C06",
    "reduce_equals_multislice_probe",
    reduce_case,
    quick=140,
    thorough=3000,
    tol=f"rtol={RTOL} relative to max|ref|; norm ratio 1e-4",
    rule="the CTF has at least one non-zero aberration coefficient",
    nontrivial_floor=0.4,
)
def check_reduce(case, ctx):
    import abtem

    potential = _potential(case)
    cell = case["potential"]["atoms"]["cell"]
    E = case["energy"]
    ab = case["aberrations"]
    ctx.label(f"pot={case['potential']['kind']}")
    ctx.label("lazy" if case["lazy"] else "eager")
    ctx.label(f"scan={case['scan']['kind']}")
    for d in case["detectors"]:
        ctx.label(f"det={d['kind']}")
    ctx.nontrivial(any(v != 0 for k, v in ab.items() if not k.endswith("angle") and not k.startswith("phi")))

    grid_kw = dict(gpts=tuple(case["gpts"]), extent=(cell[0], cell[1])) if potential is None else {}
    tmp = abtem.Probe(semiangle_cutoff=1.0, energy=E, gpts=tuple(case["gpts"]), extent=(cell[0], cell[1]))
    cut = min(tmp.cutoff_angles)
    semi = _off_pixel(case["semiangle"] * cut, E, (cell[0], cell[1]), case["gpts"])

    S = abtem.SMatrix(potential=potential, semiangle_cutoff=semi, energy=E, interpolation=1, downsample=False, **grid_kw)
    if case["ctf_as"] == "dict":
        ctf = dict(ab, soft=case["soft"])
    else:
        ctf = abtem.CTF(semiangle_cutoff=semi, energy=E, soft=case["soft"], **ab)
    scan = pl.make_scan(case["scan"])
    dets = pl.make_detectors(case["detectors"], cut)
    fn = S.reduce if case["call"] == "reduce" else S.scan
    out = fn(scan=scan, detectors=dets, ctf=ctf, lazy=case["lazy"])
    out = list(out) if isinstance(out, (list, tuple)) else [out]
    if case["lazy"]:
        out = [o.compute() for o in out]

    probe = abtem.Probe(semiangle_cutoff=semi, energy=E, soft=case["soft"], gpts=tuple(case["gpts"]), extent=(cell[0], cell[1]), **ab)
    scan2 = pl.make_scan(case["scan"])
    dets2 = pl.make_detectors(case["detectors"], cut)
    if potential is None:
        w = probe.build(scan=scan2, lazy=False)
        ref = [d.detect(w) for d in dets2]
    else:
        ref = probe.multislice(_potential(case), scan=scan2, detectors=dets2, lazy=False)
        ref = list(ref) if isinstance(ref, (list, tuple)) else [ref]

    for o, r, d in zip(out, ref, case["detectors"]):
        got, exp = o.array, r.array
        if got.shape != exp.shape and np.squeeze(got).shape == np.squeeze(exp).shape:
            got, exp = np.squeeze(got), np.squeeze(exp)
        if got.shape != exp.shape:
            raise Violation(f"shape {got.shape} vs multislice {exp.shape} for detector {d['kind']}", ("shape", d["kind"]))
        if d["kind"] == "waves":
            n_got = (np.abs(got) ** 2).sum((-2, -1))
            n_exp = (np.abs(exp) ** 2).sum((-2, -1))
            ratio = n_got / n_exp
            if not np.allclose(ratio, 1.0, rtol=1e-4, atol=1e-4):
                raise Violation(
                    f"reduced waves have norm ratio {float(ratio.max()):.4f} relative to the equivalent multislice probe (aberrations {ab})",
                    ("norm_ratio", "aberrations" if ab else "no_aberrations"),
                )
        # probes are normalised to unit intensity: intensities below 1e-6 of it are noise
        atol = 0.0 if d["kind"] == "waves" else 1e-6
        if not tol.close(got, exp, rtol=RTOL, atol=atol):
            raise Violation(
                f"PRISM {case['call']} differs from the equivalent probe multislice for detector {d['kind']}: rel err {tol.rel_err(got, exp):.2e} (aberrations {ab})",
                ("values", d["kind"], "aberrations" if ab else "no_aberrations"),
            )


# ------------------------------------------------------------------------------ interpolation
@st.composite
def interp_case(draw):
    interp = draw(st.sampled_from([[2, 2], [1, 2], [2, 1], [3, 3], [2, 3]]))
    win = [draw(st.integers(8, 14)), draw(st.integers(8, 14))]
    ext_win = [round(draw(gen.floats(3.0, 6.0)), 2), round(draw(gen.floats(3.0, 6.0)), 2)]
    return {
        "interpolation": interp,
        "window_gpts": win,
        "window_extent": ext_win,
        "energy": draw(st.sampled_from([80e3, 100e3, 200e3, 300e3])),
        "semiangle": round(draw(gen.floats(0.35, 0.8)), 3),
        "aberrations": draw(aberrations()),
        "position": [round(draw(gen.floats(0, 1)), 3), round(draw(gen.floats(0, 1)), 3)],
        "shift_px": [draw(st.integers(-5, 5)), draw(st.integers(-5, 5))],
        "lazy": draw(st.booleans()),
    }


@claim(
    "C06",
    "interpolated_reduce_equals_window_probe",
    interp_case,
    quick=200,
    thorough=4000,
    tol=f"|FFT| pixel-wise rtol={RTOL}; roll relation rtol={RTOL}",
    rule="the CTF has a non-zero aberration coefficient or the pixel shift is non-zero",
    nontrivial_floor=0.4,
)
def check_interp(case, ctx):
    import abtem

    ix, iy = case["interpolation"]
    gpts = (case["window_gpts"][0] * ix, case["window_gpts"][1] * iy)
    extent = (case["window_extent"][0] * ix, case["window_extent"][1] * iy)
    E = case["energy"]
    ab = case["aberrations"]
    tmp = abtem.Probe(semiangle_cutoff=1.0, energy=E, gpts=tuple(case["window_gpts"]), extent=tuple(case["window_extent"]))
    semi = _off_pixel(case["semiangle"] * min(tmp.cutoff_angles), E, extent, gpts)
    ctx.label(f"interp={ix}x{iy}")
    ctx.label("lazy" if case["lazy"] else "eager")
    ctx.nontrivial(bool(ab) or any(case["shift_px"]))

    S = abtem.SMatrix(potential=None, gpts=gpts, extent=extent, semiangle_cutoff=semi, energy=E, interpolation=(ix, iy), downsample=False)
    if tuple(S.window_gpts) != tuple(case["window_gpts"]):
        raise Violation(f"window_gpts {S.window_gpts} != gpts/interpolation {case['window_gpts']}", ("window_gpts",))
    ctf = abtem.CTF(semiangle_cutoff=semi, energy=E, **ab)
    dx, dy = extent[0] / gpts[0], extent[1] / gpts[1]
    r0 = np.array([case["position"][0] * extent[0], case["position"][1] * extent[1]])
    r1 = r0 + np.array([case["shift_px"][0] * dx, case["shift_px"][1] * dy])
    # probe positions are kept inside the cell (scans over a potential cover [0, extent));
    # a whole-pixel shift modulo the cell is still a whole-pixel shift of the periodic probe
    r1 = np.array([r1[0] % extent[0], r1[1] % extent[1]])
    red = S.reduce(scan=abtem.CustomScan(np.array([r0, r1])), ctf=ctf, lazy=case["lazy"])
    if case["lazy"]:
        red = red.compute()
    if tuple(red.shape[-2:]) != tuple(case["window_gpts"]):
        raise Violation(f"reduced window shape {red.shape[-2:]} != {case['window_gpts']}", ("window_shape",))
    # equivalent cropped-window probe: an ordinary probe on the window grid
    probe = abtem.Probe(semiangle_cutoff=semi, energy=E, gpts=tuple(case["window_gpts"]), extent=tuple(case["window_extent"]), **ab)
    w = probe.build(scan=abtem.CustomScan(np.array([r0])), lazy=False).array[0]
    f_red = np.abs(np.fft.fft2(red.array[0]))
    f_ref = np.abs(np.fft.fft2(w))
    if not tol.close(f_red, f_ref, rtol=RTOL):
        raise Violation(
            f"|FFT| of the interpolated reduced probe differs from the window probe: rel err {tol.rel_err(f_red, f_ref):.2e} (aberrations {ab})",
            ("window_spectrum", "aberrations" if ab else "no_aberrations"),
        )
    n_red = (np.abs(red.array[0]) ** 2).sum()
    n_ref = (np.abs(w) ** 2).sum()
    if abs(n_red / n_ref - 1) > 1e-4:
        raise Violation(f"interpolated reduced probe norm ratio {n_red / n_ref:.4f}", ("window_norm", "aberrations" if ab else "no_aberrations"))
    # position dependence: moving the probe by whole pixels rolls the periodic window
    # (the window itself is re-centred on the probe, so compare shift-invariantly + by roll of
    # the *full-grid* embedding): both windows describe the same periodic function
    a, b = red.array[0], red.array[1]
    fa, fb = np.abs(np.fft.fft2(a)), np.abs(np.fft.fft2(b))
    if not tol.close(fb, fa, rtol=RTOL):
        raise Violation("reduced probes at positions differing by whole pixels have different spectra", ("shift_spectrum",))
    # and b must be a cyclic shift of a: the cross-correlation peak equals the norm
    cc = np.abs(np.fft.ifft2(np.fft.fft2(a) * np.conj(np.fft.fft2(b))))
    if abs(cc.max() / (np.abs(a) ** 2).sum() - 1) > 1e-3:
        raise Violation("reduced probe at a pixel-shifted position is not a cyclic shift of the original window", ("shift_roll",))
