"""C08 Potentials are covariant under translations and supercell repetition
(abtem/potentials/iam.py, abtem/integrals.py, abtem/slicing.py).

Claims
  pixel_shift    Potential(atoms shifted by whole pixels)[s] == roll(Potential(atoms)[s]) with
                 periodic wrap; infinite and finite projection
  repetition     Potential(unit*(rx,ry,rz), gpts*r, same thicknesses) == PotentialArray.tile
                 == CrystalPotential(unit, reps).build(); arrays, thicknesses, extent
  subpixel_mean  infinite projection: an arbitrary (sub-pixel) xy translation leaves the
                 mean of every slice unchanged

Generator notes: orthogonal cells only (the statement's quantifier).  z positions include
atoms exactly on slice edges, at z = 0, at z = cell_z and outside the cell, but no atoms
within 1e-10 *below* an edge or the top of the cell: there abTEM's documented tolerances
(edge nudge 1e-12, top snap 1e-10) decide the slice, and a supercell legitimately differs
from the tiled unit cell.
"""

from __future__ import annotations

import numpy as np
from hypothesis import strategies as st

from pbt import gen, tol
from pbt.core import Violation, claim
from pbt.props.c09 import PARAMETRIZATIONS, _edge, make_atoms, slicing_and_height, spelled, xy_position


# ----------------------------------------------------------------------- generators
@st.composite
def z_clean(draw, cz, th):
    kind = draw(st.sampled_from(["in", "in", "in", "edge", "zero", "top", "out"]))
    if kind == "edge" and len(th) > 1:
        k = draw(st.integers(1, len(th) - 1))
        return _edge(th, k, draw(st.sampled_from(["cumsum", "accumulate", "fsum", "mul"])))
    if kind in ("zero", "edge"):
        return 0.0
    if kind == "top":
        return cz
    z = round(draw(gen.floats(0.02, 0.98)) * cz, 4)
    if kind == "out":
        z += draw(st.sampled_from([-1, 1, 2])) * cz
    return z


@st.composite
def structure(draw, max_atoms, max_slices, gpts_lo, gpts_hi, cell_hi=9.0):
    a = round(draw(gen.floats(3.0, cell_hi)), 3)
    b = round(draw(gen.floats(3.0, cell_hi)), 3)
    cz, slicing, th = draw(slicing_and_height(max_slices))
    gpts = draw(gen.gpts2d(gpts_lo, gpts_hi))
    n = draw(st.integers(1, max_atoms))
    species = draw(st.lists(st.sampled_from(gen.ELEMENTS), min_size=1, max_size=3, unique=True))
    numbers, positions = [], []
    for _ in range(n):
        numbers.append(draw(st.sampled_from(species)))
        xy = draw(xy_position(a, b, gpts, positions))
        positions.append([xy[0], xy[1], draw(z_clean(cz, th))])
    return {"cell": [a, b, cz], "numbers": numbers, "positions": positions, "slicing": slicing, "gpts": gpts}


def _potential(abtem, atoms, case, gpts, slice_thickness):
    return abtem.Potential(
        atoms,
        gpts=tuple(gpts),
        slice_thickness=slice_thickness,
        projection=case["projection"],
        parametrization=case["parametrization"],
    )


# ----------------------------------------------------------------------- pixel shift
@st.composite
def pixel_shift_case(draw):
    projection = draw(st.sampled_from(["infinite", "infinite", "finite"]))
    fin = projection == "finite"
    s = draw(structure(max_atoms=4 if fin else 6, max_slices=3 if fin else 5, gpts_lo=6, gpts_hi=16 if fin else 32))
    gx, gy = s["gpts"]
    big = st.integers(-3 * max(gx, gy), 3 * max(gx, gy))
    small = st.integers(-3, 3)
    s["shift"] = [draw(st.one_of(small, big)), draw(st.one_of(small, big))]
    s["projection"] = projection
    s["parametrization"] = draw(st.sampled_from(PARAMETRIZATIONS))
    return s


@claim(
    "C08",
    "pixel_shift",
    pixel_shift_case,
    quick=800,
    thorough=8000,
    tol="ulp32: max|P(shifted)-roll(P)| <= 5e-5*max|P| (float32 pixel coordinates; observed <= 2e-6)",
    rule="shift != 0 modulo gpts along some axis",
    nontrivial_floor=0.5,
    floors={"finite": 0.15, "shift>gpts": 0.15, "negative": 0.2},
)
def check_pixel_shift(case, ctx):
    import abtem

    cell, gpts = case["cell"], case["gpts"]
    sx, sy = case["shift"]
    dx, dy = cell[0] / gpts[0], cell[1] / gpts[1]
    atoms = make_atoms(cell, case["numbers"], case["positions"])
    shifted = atoms.copy()
    shifted.positions[:, 0] += sx * dx
    shifted.positions[:, 1] += sy * dy
    ctx.label(case["projection"])
    ctx.label("shift>gpts", abs(sx) >= gpts[0] or abs(sy) >= gpts[1])
    ctx.label("negative", sx < 0 or sy < 0)
    ctx.nontrivial(sx % gpts[0] != 0 or sy % gpts[1] != 0)
    th = spelled(case["slicing"])
    ref = _potential(abtem, atoms, case, gpts, th).build(lazy=False)
    got = _potential(abtem, shifted, case, gpts, th).build(lazy=False)
    if got.array.shape != ref.array.shape or got.slice_thickness != ref.slice_thickness:
        raise Violation("shape or thicknesses changed by a translation", ("pixel_shift", "shape"))
    expect = np.roll(ref.array.astype(np.float64), (sx, sy), axis=(-2, -1))
    scale = tol.scale(expect)
    err = tol.max_err(got.array.astype(np.float64), expect)
    ctx.note("rel_err", err / scale if scale else 0.0)
    if err > 5e-5 * scale:
        per_slice = np.abs(got.array - expect).reshape(len(expect), -1).max(axis=1)
        raise Violation(
            f"translation by {case['shift']} px is not a periodic roll: max error {err:.3e} (scale {scale:.3e}), " f"per slice {per_slice.tolist()}; {case}",
            ("pixel_shift", case["projection"]),
        )


# ----------------------------------------------------------------------- repetition
@st.composite
def repetition_case(draw):
    projection = draw(st.sampled_from(["infinite", "infinite", "infinite", "finite"]))
    fin = projection == "finite"
    s = draw(structure(max_atoms=3 if fin else 5, max_slices=3 if fin else 4, gpts_lo=5, gpts_hi=10 if fin else 16, cell_hi=6.0 if fin else 9.0))
    if fin:
        reps = draw(st.sampled_from([[1, 1, 1], [2, 1, 1], [1, 2, 1], [1, 1, 2], [2, 1, 2], [1, 2, 2], [2, 2, 1], [3, 1, 1], [1, 1, 3]]))
    else:
        reps = [draw(st.integers(1, 3)), draw(st.integers(1, 3)), draw(st.integers(1, 3))]
    s["reps"] = reps
    s["projection"] = projection
    s["parametrization"] = draw(st.sampled_from(PARAMETRIZATIONS))
    s["unit_kind"] = draw(st.sampled_from(["Potential", "PotentialArray"]))
    return s


@claim(
    "C08",
    "repetition",
    repetition_case,
    quick=600,
    thorough=6000,
    tol="ulp32: arrays within 5e-5*max|P| (observed <= 2e-6); thicknesses/extent f64 1e-12",
    rule="some repetition > 1",
    nontrivial_floor=0.5,
    floors={"finite": 0.1, "rx!=ry": 0.3, "rz>1": 0.3},
)
def check_repetition(case, ctx):
    import abtem

    cell, gpts, reps = case["cell"], case["gpts"], case["reps"]
    rx, ry, rz = reps
    ctx.label(case["projection"])
    ctx.label("rx!=ry", rx != ry)
    ctx.label("rz>1", rz > 1)
    ctx.label(case["unit_kind"])
    ctx.nontrivial(max(reps) > 1)
    unit_atoms = make_atoms(cell, case["numbers"], case["positions"])
    unit_builder = _potential(abtem, unit_atoms, case, gpts, spelled(case["slicing"]))
    unit = unit_builder.build(lazy=False)
    th_unit = tuple(unit.slice_thickness)
    big_gpts = (gpts[0] * rx, gpts[1] * ry)
    # the supercell potential, built directly, with identical slice thicknesses
    sup = _potential(abtem, unit_atoms * (rx, ry, rz), case, big_gpts, th_unit * rz).build(lazy=False)
    expect = np.tile(unit.array.astype(np.float64), (rz, rx, ry))
    scale = tol.scale(expect)

    def compare(name, pot):
        if tuple(pot.array.shape) != expect.shape:
            raise Violation(f"{name}: shape {pot.array.shape} != {expect.shape}", ("repetition", name, "shape"))
        th = tuple(pot.slice_thickness)
        if len(th) != len(th_unit) * rz or any(abs(x - y) > 1e-12 * max(th_unit) for x, y in zip(th, th_unit * rz)):
            raise Violation(f"{name}: slice thicknesses {th} != {th_unit} x {rz}", ("repetition", name, "thickness"))
        ext = tuple(pot.extent)
        if abs(ext[0] - cell[0] * rx) > 1e-9 * cell[0] * rx or abs(ext[1] - cell[1] * ry) > 1e-9 * cell[1] * ry:
            raise Violation(f"{name}: extent {ext} != cell x reps", ("repetition", name, "extent"))
        err = tol.max_err(pot.array.astype(np.float64), expect)
        ctx.note("rel_err_" + name, err / scale if scale else 0.0)
        if err > 5e-5 * scale:
            raise Violation(
                f"{name}: differs from the tiled unit-cell potential by {err:.3e} (scale {scale:.3e}); {case}",
                ("repetition", name, case["projection"]),
            )

    compare("supercell", sup)
    compare("tile", unit.tile((rx, ry, rz)))
    if rz == 1:
        compare("tile2", unit.tile((rx, ry)))
    crystal = abtem.CrystalPotential(unit if case["unit_kind"] == "PotentialArray" else unit_builder, (rx, ry, rz))
    if tuple(crystal.gpts) != big_gpts or crystal.num_slices != len(th_unit) * rz:
        raise Violation(f"CrystalPotential gpts {crystal.gpts} / num_slices {crystal.num_slices}", ("repetition", "crystal", "grid"))
    compare("crystal", crystal.build(lazy=False))


# ----------------------------------------------------------------------- sub-pixel mean
@st.composite
def subpixel_case(draw):
    s = draw(structure(max_atoms=6, max_slices=5, gpts_lo=6, gpts_hi=32))
    s["shift"] = [draw(gen.floats(-2.0, 2.0)), draw(gen.floats(-2.0, 2.0))]  # in pixels
    s["projection"] = "infinite"
    s["parametrization"] = draw(st.sampled_from(PARAMETRIZATIONS))
    return s


@claim(
    "C08",
    "subpixel_mean",
    subpixel_case,
    quick=1000,
    thorough=10000,
    tol="ulp32: |mean_k(shifted) - mean_k| <= 2e-5 * max_k mean_k (observed <= 1e-6)",
    rule="the shift is not a whole number of pixels",
    nontrivial_floor=0.6,
)
def check_subpixel_mean(case, ctx):
    import abtem

    cell, gpts = case["cell"], case["gpts"]
    dx, dy = cell[0] / gpts[0], cell[1] / gpts[1]
    sx, sy = case["shift"]
    atoms = make_atoms(cell, case["numbers"], case["positions"])
    shifted = atoms.copy()
    shifted.positions[:, 0] += sx * dx
    shifted.positions[:, 1] += sy * dy
    ctx.nontrivial(abs(sx - round(sx)) > 1e-3 or abs(sy - round(sy)) > 1e-3)
    th = spelled(case["slicing"])
    ref = _potential(abtem, atoms, case, gpts, th).build(lazy=False).array.astype(np.float64)
    got = _potential(abtem, shifted, case, gpts, th).build(lazy=False).array.astype(np.float64)
    if ref.shape != got.shape:
        raise Violation("shape changed by a translation", ("subpixel_mean", "shape"))
    m_ref = ref.reshape(len(ref), -1).mean(axis=1)
    m_got = got.reshape(len(got), -1).mean(axis=1)
    scale = float(np.abs(m_ref).max())
    err = float(np.abs(m_got - m_ref).max())
    ctx.note("rel_err", err / scale if scale else 0.0)
    ctx.label("empty_slice", bool((m_ref == 0).any()))
    if err > 2e-5 * scale:
        raise Violation(
            f"slice means changed under a sub-pixel translation {case['shift']} px: {m_ref.tolist()} -> {m_got.tolist()}; {case}",
            ("subpixel_mean", "tiny_shift" if max(abs(sx), abs(sy)) < 1e-6 else "shift"),
        )
