"""C05 Built probes and plane waves are normalized
(abtem/waves.py: Probe._calculate_array, _WavesNormalization, PlaneWave._calculate_array;
abtem/transfer.py apertures/aberrations; abtem/tilt.py).

Oracle: for every member psi of the built ensemble, sum |FFT2 psi|^2 = 1 where FFT2 is the
unnormalised forward transform (numpy convention, computed by the check in complex128 -
it does not call abTEM's fft); PlaneWave(normalize=False): |psi| = 1 at every pixel.
Tolerance 1e-5 relative (float32 sums over <= 32x32 pixels; observed 2e-7).
"""

from __future__ import annotations

import numpy as np
from hypothesis import strategies as st

from pbt import gen
from pbt.core import Violation, claim
from pbt.props import _chi_ref as ref
from pbt.props._aberr_gen import SYMBOL_TO_ALIAS, coeff_set

RTOL = 1e-5


# ----------------------------------------------------------------------- generators
@st.composite
def grid_energy(draw, lo=6, hi=28):
    gpts = draw(gen.gpts2d(lo, hi))
    sampling = [round(draw(gen.floats(0.05, 0.4)), 4) for _ in range(2)]
    return {"energy": draw(gen.energies()), "gpts": gpts, "sampling": sampling}


@st.composite
def tilt_spec(draw):
    """Small-angle beam tilt [mrad] in the documented forms: two floats, two 1-D value
    lists / a float and a list, or an N x 2 array."""
    t = lambda: round(draw(gen.floats(-15.0, 15.0)), 3)  # noqa: E731
    kind = draw(st.sampled_from(["zero", "scalar", "scalar", "x_list", "y_list", "xy_lists", "array"]))
    if kind == "zero":
        return {"kind": kind, "value": [0.0, 0.0]}
    if kind == "scalar":
        return {"kind": kind, "value": [t(), t()]}
    if kind == "x_list":
        return {"kind": kind, "value": [[t() for _ in range(draw(st.integers(1, 3)))], t()]}
    if kind == "y_list":
        return {"kind": kind, "value": [t(), [t() for _ in range(draw(st.integers(1, 3)))]]}
    if kind == "xy_lists":
        return {"kind": kind, "value": [[t() for _ in range(draw(st.integers(1, 3)))], [t() for _ in range(draw(st.integers(1, 2)))]]}
    return {"kind": kind, "value": [[t(), t()] for _ in range(draw(st.integers(1, 3)))]}


def make_tilt(spec):
    v = spec["value"]
    if spec["kind"] == "array":
        return np.array(v, dtype=float)
    return tuple(v)


def tilt_members(spec):
    v = spec["value"]
    if spec["kind"] == "array":
        return len(v)
    return int(np.prod([len(x) for x in v if isinstance(x, list)]))


def tilt_nonzero(spec):
    return bool(np.any(np.array([x for part in spec["value"] for x in (part if isinstance(part, list) else [part])], dtype=float) != 0.0))


@st.composite
def aperture_spec(draw, g):
    kind = draw(st.sampled_from(["default", "default", "default", "cutoff_list", "vortex", "annular"]))
    if kind == "default":
        return {"kind": kind, "cutoff": draw(gen.floats(1.0, 40.0)), "soft": draw(st.booleans())}
    if kind == "cutoff_list":
        return {"kind": kind, "cutoff": [draw(gen.floats(1.0, 40.0)) for _ in range(draw(st.integers(1, 3)))], "soft": draw(st.booleans())}
    if kind == "vortex":
        return {"kind": kind, "cutoff": draw(gen.floats(1.0, 40.0)), "soft": draw(st.booleans()), "quantum_number": draw(st.integers(-2, 2))}
    # annular: the ring is built around one non-zero pixel of the grid so that it transmits something
    alpha, _ = ref.angular_grid(g["gpts"], g["sampling"], g["energy"])
    i = draw(st.integers(0, g["gpts"][0] - 1))
    j = draw(st.integers(0 if i else 1, g["gpts"][1] - 1))
    a = float(alpha[i, j]) * 1e3
    return {"kind": kind, "inner": a * draw(gen.floats(0.3, 0.95)), "cutoff": a * draw(gen.floats(1.05, 2.0))}


def max_cutoff(ap):
    c = ap["cutoff"]
    return max(c) if isinstance(c, list) else c


@st.composite
def probe_case(draw):
    g = draw(grid_energy())
    ap = draw(aperture_spec(g))
    # aberrations scaled so that one term is at most 20 rad at the (largest) cutoff
    coeffs = draw(coeff_set(g["energy"], min_size=0, max_size=6, alpha0=max(max_cutoff(ap), 1.0) * 1e-3))
    dist = None
    if coeffs and draw(st.integers(0, 3)) == 0:
        s = draw(st.sampled_from(sorted(coeffs)))
        base = coeffs[s]
        scale = abs(base) if base else 1.0
        values = [base] + [base + scale * draw(gen.floats(-1.0, 1.0)) for _ in range(draw(st.integers(0, 2)))]
        # a plain list (weights 1) or a weighted distribution (abtem.distributions.from_values):
        # with weights != 1 the aberration kernel does not have unit modulus
        weights = [round(draw(gen.floats(0.1, 1.0)), 3) for _ in values] if draw(st.booleans()) else None
        dist = {"symbol": s, "values": values, "weights": weights}
    extent = [n * d for n, d in zip(g["gpts"], g["sampling"])]
    pkind = draw(st.sampled_from(["origin", "single", "list", "list", "list"]))
    pos = lambda: [round(draw(gen.floats(-0.5, 1.5)) * extent[0], 3), round(draw(gen.floats(-0.5, 1.5)) * extent[1], 3)]  # noqa: E731
    if pkind == "origin":
        positions = [[0.0, 0.0]]
    elif pkind == "single":
        positions = pos()
    else:
        positions = [pos() for _ in range(draw(st.integers(1, 5)))]
    return {
        **g,
        "aperture": ap,
        "coeffs": coeffs,
        "alias": [s for s in sorted(coeffs) if draw(st.booleans())],
        "aberrations_as": draw(st.sampled_from(["kwargs", "dict"])),
        "dist": dist,
        "tilt": draw(tilt_spec()),
        "positions": positions,
        "pkind": pkind,
        "lazy": draw(st.booleans()),
        "max_batch": draw(st.sampled_from(["auto", "auto", 1, 3, 1000])),
    }


def _named(coeffs, alias, dist):
    out = {}
    for s in sorted(coeffs):
        v = coeffs[s]
        if dist is not None and dist["symbol"] == s:
            v = list(dist["values"])
            if dist.get("weights") is not None:
                from abtem.distributions import from_values

                v = from_values(v, weights=np.array(dist["weights"], dtype=float))
        if s in alias:
            if s == "C10":
                out["defocus"] = [-x for x in v] if isinstance(v, list) else -v
            else:
                out[SYMBOL_TO_ALIAS[s]] = v
        else:
            out[s] = v
    return out


def _members_norm(array):
    a = np.asarray(array).astype(np.complex128)
    return (np.abs(np.fft.fft2(a, axes=(-2, -1))) ** 2).sum(axis=(-2, -1))


def _computed(waves, lazy):
    arr = waves.array
    if lazy:
        if not hasattr(arr, "compute"):
            raise Violation("build(lazy=True) returned an eager array", ("lazy_flag",))
        arr = arr.compute()
    elif hasattr(arr, "compute"):
        raise Violation("build(lazy=False) returned a lazy array", ("lazy_flag",))
    return np.asarray(arr)


# ----------------------------------------------------------------------- claim 1: probes
@claim(
    "C05",
    "probe_normalized",
    probe_case,
    quick=800,
    thorough=15000,
    tol="|sum|FFT2 psi|^2 - 1| <= 1e-5 per member",
    rule="at least one non-zero aberration, or a non-zero tilt, or an off-origin position",
    nontrivial_floor=0.5,
)
def check_probe_normalized(case, ctx):
    import abtem
    from abtem.transfer import AnnularAperture, Vortex

    gpts = tuple(case["gpts"])
    extent = tuple(n * d for n, d in zip(case["gpts"], case["sampling"]))
    ap = case["aperture"]
    kw = {"energy": case["energy"], "gpts": gpts, "extent": extent, "tilt": make_tilt(case["tilt"])}
    members = tilt_members(case["tilt"])
    if ap["kind"] in ("default", "cutoff_list"):
        kw.update(semiangle_cutoff=ap["cutoff"], soft=ap["soft"])
        if isinstance(ap["cutoff"], list):
            members *= len(ap["cutoff"])
    elif ap["kind"] == "vortex":
        kw.update(aperture=Vortex(ap["quantum_number"], ap["cutoff"], soft=ap["soft"]))
    else:
        kw.update(aperture=AnnularAperture(ap["inner"], ap["cutoff"]))
    named = _named(case["coeffs"], case["alias"], case["dist"])
    if case["aberrations_as"] == "dict":
        kw["aberrations"] = named
    else:
        kw.update(named)
    if case["dist"] is not None:
        members *= len(case["dist"]["values"])
    positions = case["positions"]
    if case["pkind"] != "single":
        members *= len(positions)
    off_origin = bool(np.any(np.array(positions, dtype=float) != 0.0))
    has_aberration = bool(ref.terms(case["coeffs"])) or (case["dist"] is not None and any(v != 0 for v in case["dist"]["values"]) and case["dist"]["symbol"].startswith("C"))
    ctx.label("aperture=" + ap["kind"] + ("" if "soft" not in ap else (":soft" if ap["soft"] else ":hard")))
    ctx.label("tilt=" + case["tilt"]["kind"])
    ctx.label("lazy" if case["lazy"] else "eager")
    ctx.label("aberration_ensemble", case["dist"] is not None)
    ctx.label("weighted_aberration_ensemble", case["dist"] is not None and case["dist"].get("weights") is not None)
    ctx.label("tilt_and_aberration_ensembles", case["dist"] is not None and len(case["dist"]["values"]) > 1 and tilt_members(case["tilt"]) > 1)
    ctx.label("members>1", members > 1)
    ctx.nontrivial(has_aberration or tilt_nonzero(case["tilt"]) or off_origin)

    probe = abtem.Probe(**kw)
    scan = positions if case["pkind"] == "single" else [list(p) for p in positions]
    waves = probe.build(scan=tuple(scan) if case["pkind"] == "single" else scan, lazy=case["lazy"], max_batch=case["max_batch"])
    arr = _computed(waves, case["lazy"])
    if arr.shape[-2:] != gpts or tuple(waves.shape) != arr.shape:
        raise Violation(f"built probe array has shape {arr.shape} (declared {waves.shape}), grid {gpts}", ("probe", "shape"))
    if int(np.prod(arr.shape[:-2])) != members:
        raise Violation(f"built probe ensemble has shape {arr.shape[:-2]}: {int(np.prod(arr.shape[:-2]))} members, expected {members}", ("probe", "members"))
    norms = _members_norm(arr)
    if not np.all(np.isfinite(norms)) or np.any(np.abs(norms - 1.0) > RTOL):
        bad = np.argwhere(~(np.abs(norms - 1.0) <= RTOL))
        i = tuple(bad[0]) if bad.size else ()
        raise Violation(
            f"probe member {i} of ensemble {arr.shape[:-2]} has reciprocal-space intensity {np.asarray(norms)[i] if norms.shape else norms!r}, expected 1 (aperture {ap}, tilt {case['tilt']}, aberrations {named})",
            ("probe", "norm", ap["kind"], "lazy" if case["lazy"] else "eager"),
        )


# ----------------------------------------------------------------------- claim 2: plane waves
@st.composite
def planewave_case(draw):
    g = draw(grid_energy(lo=2, hi=28))
    return {**g, "normalize": draw(st.booleans()), "tilt": draw(tilt_spec()), "lazy": draw(st.booleans()), "grid_by": draw(st.sampled_from(["extent", "sampling"]))}


@claim(
    "C05",
    "planewave",
    planewave_case,
    quick=800,
    thorough=15000,
    tol="normalize=True: |sum|FFT2 psi|^2 - 1| <= 1e-5; normalize=False: ||psi| - 1| <= 1e-6 per pixel",
    rule="non-square grid or a non-zero tilt / tilt ensemble",
    nontrivial_floor=0.5,
)
def check_planewave(case, ctx):
    import abtem

    gpts = tuple(case["gpts"])
    kw = {"energy": case["energy"], "gpts": gpts, "normalize": case["normalize"], "tilt": make_tilt(case["tilt"])}
    if case["grid_by"] == "extent":
        kw["extent"] = tuple(n * d for n, d in zip(case["gpts"], case["sampling"]))
    else:
        kw["sampling"] = tuple(case["sampling"])
    members = tilt_members(case["tilt"])
    ctx.label("normalize" if case["normalize"] else "unit_modulus")
    ctx.label("tilt=" + case["tilt"]["kind"])
    ctx.label("lazy" if case["lazy"] else "eager")
    ctx.nontrivial(gpts[0] != gpts[1] or tilt_nonzero(case["tilt"]) or members > 1)
    waves = abtem.PlaneWave(**kw).build(lazy=case["lazy"])
    arr = _computed(waves, case["lazy"])
    if arr.shape[-2:] != gpts or int(np.prod(arr.shape[:-2])) != members:
        raise Violation(f"plane wave array has shape {arr.shape}; expected {members} member(s) on grid {gpts}", ("planewave", "shape"))
    if case["normalize"]:
        norms = _members_norm(arr)
        if not np.all(np.abs(norms - 1.0) <= RTOL):
            raise Violation(f"PlaneWave(normalize=True) on {gpts}: reciprocal-space intensity {norms!r}, expected 1", ("planewave", "norm"))
    else:
        mod = np.abs(arr)
        if not np.all(np.abs(mod - 1.0) <= 1e-6):
            raise Violation(f"PlaneWave(normalize=False) on {gpts}: |psi| ranges {mod.min()!r}..{mod.max()!r}, expected 1 everywhere", ("planewave", "modulus"))
