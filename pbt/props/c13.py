"""C13 PolarMeasurements.integrate sums exactly the bins inside the requested limits
(abtem/measurements.py: PolarMeasurements.integrate).

Bin (k, l) of a PolarMeasurements covers the radial range
[radial_offset + k*radial_sampling, radial_offset + (k+1)*radial_sampling) and the azimuthal
range [azimuthal_offset + l*azimuthal_sampling, azimuthal_offset + (l+1)*azimuthal_sampling)
(this is how DiffractionPatterns.polar_binning / _polar_detector_bins fill them and what
base_axes_metadata advertises).  All limits generated here are bin edges, spelled the
way a user computes them (offset + k*sampling in floats, offset + k*(2*pi)/n, or the decimal
literal such as 0.3).

Oracle: float64 NumPy sum over the index block [k0:k1, l0:l1] of the input array.  Half of
the cases carry small-integer-valued float32 data, for which every float32 partial sum is
exact, so the comparison is bit-exact; the rest carry non-negative float32 data and are
compared with the worst-case float32 summation bound n*eps32 (n <= 144 bins).
"""

from __future__ import annotations


import numpy as np
from hypothesis import strategies as st

from pbt import gen, tol
from pbt.core import Violation, claim

RADIAL_SAMPLINGS = [0.1, 0.25, 0.3, 1.0 / 3.0, 0.5, 1.0, 2.5]
AZIMUTHAL_OFFSETS = [0.0, 0.3, -0.2]
MAX_BINS = 12


# ----------------------------------------------------------------------- generators
@st.composite
def measurement_spec(draw):
    n_scan = draw(st.sampled_from([0, 1, 1, 2, 2, 2]))
    scan_shape = [draw(st.integers(1, 4)) for _ in range(n_scan)]
    scan_sampling = [draw(st.sampled_from([0.1, 0.25, 0.5])) for _ in range(n_scan)]
    extra = draw(st.sampled_from([0, 0, 0, 2, 3]))  # a non-scan ensemble axis in front
    nr = draw(st.integers(1, MAX_BINS))
    na = draw(st.integers(1, MAX_BINS))
    rs = draw(st.sampled_from(RADIAL_SAMPLINGS))
    okind = draw(st.sampled_from(["zero", "zero", "multiple", "arbitrary"]))
    if okind == "zero":
        ro = 0.0
    elif okind == "multiple":
        ro = draw(st.integers(1, 60)) * rs
    else:
        ro = round(draw(gen.floats(0.0, 80.0)), 3)
    lazy = draw(st.sampled_from([False, False, True]))
    chunks = None
    if lazy and n_scan:
        chunks = [draw(gen.partition(n, 3)) for n in scan_shape]
    return {
        "scan_shape": scan_shape,
        "scan_sampling": scan_sampling,
        "extra": extra,
        "nr": nr,
        "na": na,
        "radial_sampling": rs,
        "radial_offset": ro,
        "radial_offset_kind": okind,
        "azimuthal_offset": draw(st.sampled_from(AZIMUTHAL_OFFSETS)),
        "data": draw(st.sampled_from(["int", "float"])),
        "seed": draw(gen.seeds()),
        "lazy": lazy,
        "chunks": chunks,
    }


def _index_pair(draw, n):
    k0 = draw(st.integers(0, n - 1))
    k1 = draw(st.integers(k0 + 1, n))
    return [k0, k1]


@st.composite
def limits_case(draw):
    m = draw(measurement_spec())
    which = draw(st.sampled_from(["radial", "azimuthal", "both", "both"]))
    case = {"m": m, "radial": None, "azimuthal": None}
    if which in ("radial", "both"):
        spell = "float" if m["radial_sampling"] == 1.0 / 3.0 else draw(st.sampled_from(["float", "literal"]))
        case["radial"] = {"k": _index_pair(draw, m["nr"]), "spell": spell}
    if which in ("azimuthal", "both"):
        case["azimuthal"] = {"l": _index_pair(draw, m["na"]), "spell": draw(st.sampled_from(["sampling", "fraction"]))}
    return case


@st.composite
def partition_case(draw):
    m = draw(measurement_spec())
    axis = draw(st.sampled_from(["radial", "azimuthal"]))
    n = m["nr"] if axis == "radial" else m["na"]
    pts = draw(st.lists(st.integers(0, n), min_size=min(3, n + 1), max_size=min(5, n + 1), unique=True))
    if draw(st.booleans()):  # cover the full range
        pts = set(pts) | {0, n}
    edges = sorted(pts)
    other = None
    if draw(st.booleans()):
        other = _index_pair(draw, m["na"] if axis == "radial" else m["nr"])
    return {"m": m, "axis": axis, "edges": edges, "other": other,
            "spell": draw(st.sampled_from(["float", "literal"]))}


# ----------------------------------------------------------------------- builders
def _data(m):
    shape = tuple(([m["extra"]] if m["extra"] else []) + m["scan_shape"] + [m["nr"], m["na"]])
    rng = np.random.default_rng(m["seed"])
    if m["data"] == "int":
        # every partial sum of <= 144 values < 1000 is an integer < 2**24: float32 sums are exact
        return rng.integers(0, 1000, size=shape).astype(np.float32)
    return (rng.random(shape) * 10.0 ** rng.integers(-3, 4)).astype(np.float32)


def _measurement(m, array):
    import dask.array as da

    from abtem.core.axes import OrdinalAxis, ScanAxis
    from abtem.measurements import PolarMeasurements

    axes = []
    if m["extra"]:
        axes.append(OrdinalAxis(label="member", values=tuple(range(m["extra"]))))
    axes += [ScanAxis(label="xy"[i % 2], sampling=s, units="Å") for i, s in enumerate(m["scan_sampling"])]
    a = array
    if m["lazy"]:
        if m["chunks"]:
            ch = tuple(([(m["extra"],)] if m["extra"] else []) + [tuple(c) for c in m["chunks"]] + [(m["nr"],), (m["na"],)])
        else:
            ch = array.shape
        a = da.from_array(array, chunks=ch)
    return PolarMeasurements(
        a,
        radial_sampling=m["radial_sampling"],
        azimuthal_sampling=2 * np.pi / m["na"],
        radial_offset=m["radial_offset"],
        azimuthal_offset=m["azimuthal_offset"],
        ensemble_axes_metadata=axes,
    )


def _radial_edge(m, k, spell):
    v = m["radial_offset"] + k * m["radial_sampling"]
    if spell == "literal":
        # the decimal literal a user types for this edge (0.3, not 0.30000000000000004)
        v = round(v, 9)
    return float(v)


def _azimuthal_edge(m, l, spell):
    if spell == "sampling":
        return float(m["azimuthal_offset"] + l * (2 * np.pi / m["na"]))
    return float(m["azimuthal_offset"] + 2 * np.pi * l / m["na"])


def _reference(array, kr=None, la=None):
    k0, k1 = kr if kr is not None else (0, array.shape[-2])
    l0, l1 = la if la is not None else (0, array.shape[-1])
    return array[..., k0:k1, l0:l1].astype(np.float64).sum((-2, -1))


def _rtol(m):
    return 0.0 if m["data"] == "int" else m["nr"] * m["na"] * tol.EPS32


def _result_array(res, m, ctx):
    """Computed array of the returned measurement + type check of the container."""
    from abtem.measurements import Images, MeasurementsEnsemble, RealSpaceLineProfiles

    expected = {0: MeasurementsEnsemble, 1: RealSpaceLineProfiles, 2: Images}[len(m["scan_shape"])]
    if type(res) is not expected:
        raise Violation(f"integrate returned {type(res).__name__}, expected {expected.__name__}",
                        ("result_type", len(m["scan_shape"])))
    if m["lazy"] != res.is_lazy:
        raise Violation(f"lazy={m['lazy']} input gave is_lazy={res.is_lazy}", ("laziness",))
    return np.asarray(res.compute().array if res.is_lazy else res.array)


def _labels(m, ctx):
    ctx.label(f"scan{len(m['scan_shape'])}")
    ctx.label("lazy", m["lazy"])
    ctx.label("extra_axis", bool(m["extra"]))
    ctx.label(f"data_{m['data']}")
    ctx.label(f"roffset_{m['radial_offset_kind']}")
    ctx.label("az_offset!=0", m["azimuthal_offset"] != 0.0)


# ----------------------------------------------------------------------- claims
@claim(
    "C13",
    "limits",
    limits_case,
    quick=2500,
    thorough=50000,
    tol="exact for integer-valued data; n_bins*eps32 relative (worst-case float32 summation) otherwise",
    rule="the limits select at least one bin but not all bins",
    nontrivial_floor=0.4,
    floors={"radial_limits": 0.3, "azimuthal_limits": 0.3, "az_offset!=0": 0.2},
)
def check_limits(case, ctx):
    m = case["m"]
    array = _data(m)
    pm = _measurement(m, array)
    _labels(m, ctx)
    kr = la = None
    kwargs = {}
    if case["radial"]:
        kr = case["radial"]["k"]
        kwargs["radial_limits"] = tuple(_radial_edge(m, k, case["radial"]["spell"]) for k in kr)
        ctx.label("radial_limits")
        ctx.label(f"radial_{case['radial']['spell']}")
    if case["azimuthal"]:
        la = case["azimuthal"]["l"]
        kwargs["azimuthal_limits"] = tuple(_azimuthal_edge(m, l, case["azimuthal"]["spell"]) for l in la)
        ctx.label("azimuthal_limits")
    n_sel = ((kr[1] - kr[0]) if kr else m["nr"]) * ((la[1] - la[0]) if la else m["na"])
    ctx.nontrivial(0 < n_sel < m["nr"] * m["na"])
    ctx.label("outer_is_last_edge", bool(kr) and kr[1] == m["nr"])

    ref = _reference(array, kr, la)
    got = _result_array(pm.integrate(**kwargs), m, ctx)
    if got.shape != ref.shape or not tol.close(got, ref, rtol=_rtol(m)):
        bad = "radial" if (kr and not la) else "azimuthal" if (la and not kr) else "both"
        # which clause broke: compare against the reference of each axis alone
        if bad == "both":
            r_only = _result_array(pm.integrate(radial_limits=kwargs["radial_limits"]), m, ctx)
            a_only = _result_array(pm.integrate(azimuthal_limits=kwargs["azimuthal_limits"]), m, ctx)
            r_ok = tol.close(r_only, _reference(array, kr, None), rtol=_rtol(m))
            a_ok = tol.close(a_only, _reference(array, None, la), rtol=_rtol(m))
            bad = "radial" if not r_ok and a_ok else "azimuthal" if not a_ok and r_ok else "both"
        raise Violation(
            f"integrate({kwargs}) of {m['nr']}x{m['na']} bins (radial offset {m['radial_offset']}, sampling "
            f"{m['radial_sampling']}; azimuthal offset {m['azimuthal_offset']}) differs from the sum of bins "
            f"[{kr}, {la}] by {tol.rel_err(got, ref):.3g} (relative)",
            bucket=("limits", bad) + (("az_offset=0" if m["azimuthal_offset"] == 0.0 else "az_offset!=0",) if bad != "radial" else ()),
        )

    # the same block addressed by explicit detector regions (region = k * n_azimuthal + l)
    k0, k1 = kr if kr else (0, m["nr"])
    l0, l1 = la if la else (0, m["na"])
    regions = [k * m["na"] + l for k in range(k0, k1) for l in range(l0, l1)]
    got_regions = _result_array(pm.integrate(detector_regions=regions), m, ctx)
    if not tol.close(got_regions, ref, rtol=_rtol(m)):
        raise Violation(
            f"integrate(detector_regions={regions}) differs from the sum of those bins by "
            f"{tol.rel_err(got_regions, ref):.3g}",
            bucket=("detector_regions",),
        )


@st.composite
def total_case(draw):
    return {"m": draw(measurement_spec()), "full_limits": draw(st.sampled_from(["none", "radial", "azimuthal", "both"]))}


@claim(
    "C13",
    "total",
    total_case,
    quick=1200,
    thorough=25000,
    tol="exact for integer-valued data; n_bins*eps32 relative otherwise",
    rule="more than one bin",
    nontrivial_floor=0.5,
)
def check_total(case, ctx):
    """No limits == total over all bins; limits spanning the full range (first edge to last
    edge, which is inside the documented range) == the same total."""
    m = case["m"]
    array = _data(m)
    pm = _measurement(m, array)
    _labels(m, ctx)
    ctx.nontrivial(m["nr"] * m["na"] > 1)
    ref = _reference(array)
    got = _result_array(pm.integrate(), m, ctx)
    if got.shape != ref.shape or not tol.close(got, ref, rtol=_rtol(m)):
        raise Violation(f"integrate() differs from the total over all bins by {tol.rel_err(got, ref):.3g}", ("total",))
    kwargs = {}
    if case["full_limits"] in ("radial", "both"):
        kwargs["radial_limits"] = (_radial_edge(m, 0, "float"), _radial_edge(m, m["nr"], "float"))
    if case["full_limits"] in ("azimuthal", "both"):
        kwargs["azimuthal_limits"] = (_azimuthal_edge(m, 0, "sampling"), _azimuthal_edge(m, m["na"], "fraction"))
    ctx.label(f"full_{case['full_limits']}")
    if kwargs:
        got = _result_array(pm.integrate(**kwargs), m, ctx)
        if got.shape != ref.shape or not tol.close(got, ref, rtol=_rtol(m)):
            raise Violation(
                f"integrate({kwargs}) over the full range of {m['nr']}x{m['na']} bins (radial offset "
                f"{m['radial_offset']}, sampling {m['radial_sampling']}, azimuthal offset {m['azimuthal_offset']}) "
                f"differs from the total by {tol.rel_err(got, ref):.3g}",
                ("full_range", case["full_limits"]),
            )


@claim(
    "C13",
    "partition",
    partition_case,
    quick=1500,
    thorough=30000,
    tol="exact for integer-valued data; 2*n_bins*eps32 relative otherwise",
    rule="the range is split into >= 2 pieces",
    nontrivial_floor=0.5,
)
def check_partition(case, ctx):
    """Integrals over consecutive pieces [e0,e1), [e1,e2), ... add up to the integral over
    [e0, en); when the pieces cover the whole azimuth (radial range) the sum is the integral
    without limits on that axis.  Metamorphic: no reference to the bin contents."""
    m = case["m"]
    array = _data(m)
    pm = _measurement(m, array)
    _labels(m, ctx)
    axis, edges = case["axis"], case["edges"]
    n = m["nr"] if axis == "radial" else m["na"]
    full = edges[0] == 0 and edges[-1] == n
    ctx.label(axis)
    ctx.label("full_range", full)
    ctx.nontrivial(len(edges) >= 3)

    def value(i):
        return _radial_edge(m, i, case["spell"] if m["radial_sampling"] != 1.0 / 3.0 else "float") if axis == "radial" \
            else _azimuthal_edge(m, i, "sampling" if case["spell"] == "float" else "fraction")

    key, okey = ("radial_limits", "azimuthal_limits") if axis == "radial" else ("azimuthal_limits", "radial_limits")
    fixed = {}
    if case["other"]:
        o = case["other"]
        fixed[okey] = (_azimuthal_edge(m, o[0], "sampling"), _azimuthal_edge(m, o[1], "sampling")) if axis == "radial" \
            else (_radial_edge(m, o[0], "float"), _radial_edge(m, o[1], "float"))
    pieces = [
        _result_array(pm.integrate(**{key: (value(a), value(b))}, **fixed), m, ctx).astype(np.float64)
        for a, b in zip(edges[:-1], edges[1:])
    ]
    total = sum(pieces)
    whole = _result_array(pm.integrate(**{key: (value(edges[0]), value(edges[-1]))}, **fixed), m, ctx)
    rt = 2 * _rtol(m)
    if not tol.close(total, whole, rtol=rt):
        raise Violation(
            f"{axis} pieces {edges} do not add up to the integral over [{edges[0]}, {edges[-1]}): "
            f"rel. error {tol.rel_err(total, whole):.3g} ({m['nr']}x{m['na']} bins, radial offset {m['radial_offset']}, "
            f"sampling {m['radial_sampling']}, azimuthal offset {m['azimuthal_offset']})",
            ("partition", axis),
        )
    if full:
        unlimited = _result_array(pm.integrate(**fixed), m, ctx)
        if not tol.close(total, unlimited, rtol=rt):
            raise Violation(
                f"pieces {edges} covering the full {axis} range do not add up to the integral without "
                f"{axis} limits: rel. error {tol.rel_err(total, unlimited):.3g} ({m['nr']}x{m['na']} bins, radial offset "
                f"{m['radial_offset']}, sampling {m['radial_sampling']}, azimuthal offset {m['azimuthal_offset']})",
                ("partition_full", axis),
            )
