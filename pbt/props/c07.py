"""C07 Thickness series are consistent with truncated simulations."""

from __future__ import annotations

import numpy as np
from hypothesis import strategies as st

from pbt import gen, pipeline as pl, tol
from pbt.core import Violation, claim

RTOL = 2e-5  # probes showed bit-for-bit agreement; a one-slice slip is O(1e-2..1)


@st.composite
def series_case(draw):
    spec = draw(
        pl.pipeline_spec(
            potential_kinds=("atoms", "atoms", "fp", "fp_mean", "array", "crystal"),
            max_configs=3,
            max_slices=6,
            max_detectors=2,
            gpts=(8, 18),
            finite_fraction=0.05,
            force_multi_exit=True,
        )
    )
    if spec["potential"]["kind"] == "crystal":
        spec["potential"]["num_frozen_phonons"] = None
        spec["potential"]["seeds"] = None
        spec["potential"]["unit_configs"] = 0
    spec["lazy"] = draw(st.booleans())
    spec["max_batch"] = draw(st.sampled_from(["auto", 1, 2]))
    return spec


def _thickness_axis(obj):
    from abtem.core.axes import ThicknessAxis

    for i, a in enumerate(obj.axes_metadata):
        if isinstance(a, ThicknessAxis):
            return i, a
    return None, None


def _config_axis(obj):
    from abtem.core.axes import FrozenPhononsAxis

    for i, a in enumerate(obj.axes_metadata):
        if isinstance(a, FrozenPhononsAxis):
            return i
    return None


@claim(
    "C07",
    "exit_planes_equal_truncated_runs",
    series_case,
    quick=160,
    thorough=4000,
    tol=f"rtol={RTOL} relative to max|ref|; thickness values rtol 1e-6",
    rule=">=2 exit planes of which at least one is interior (neither entrance nor last slice)",
    nontrivial_floor=0.3,
)
def check_series(case, ctx):
    import abtem

    pspec = case["potential"]
    kind = pspec["kind"]
    ctx.label(f"pot={kind}")
    ctx.label("lazy" if case["lazy"] else "eager")
    ctx.label(f"builder={case['builder']['kind']}")
    potential = pl.make_potential(pspec, case["gpts"])
    planes = tuple(potential.exit_planes)
    nslices = potential.num_slices
    thick = np.cumsum(potential.slice_thickness)
    # which planes exist is documented: a tuple lists the slice indices after which a
    # measurement is made; an integer k asks for a measurement every k slices; the
    # property adds that the last exit plane is the full simulation
    ep = pspec.get("exit_planes")
    if isinstance(ep, list):
        if tuple(planes) != tuple(ep):
            raise Violation(f"explicit exit_planes {ep} became {planes}", ("planes_selected", "tuple"))
    elif isinstance(ep, int) and ep < nslices:
        want = list(range(ep - 1, nslices, ep))
        if any(w not in planes for w in want):
            raise Violation(f"exit_planes={ep} with {nslices} slices gives planes {planes}, missing some of {want}", ("planes_selected", "int"))
        if planes[-1] != nslices - 1:
            raise Violation(f"exit_planes={ep}: last exit plane {planes[-1]} is not the last slice {nslices - 1}", ("planes_selected", "last"))
    interior = [p for p in planes if 0 <= p < nslices - 1]
    ctx.label("entrance", planes[0] == -1)
    ctx.nontrivial(len(planes) >= 2 and len(interior) >= 1)

    outs, _ = pl.run_pipeline(case, lazy=case["lazy"], max_batch=case["max_batch"], potential=potential)

    # --- reference: explicitly truncated potentials, one per configuration --------------
    if kind in ("fp", "fp_mean"):
        configs = list(pl.make_frozen_phonons(pspec))
    elif kind == "array" and pspec["array_configs"]:
        configs = None  # members are taken from the built array itself
    else:
        configs = [None]
    full = pl.make_potential(pspec, case["gpts"], exit_planes=None)
    if kind in ("fp", "fp_mean"):
        built = []
        for atoms_k in configs:
            p = abtem.Potential(
                atoms_k,
                gpts=tuple(case["gpts"]),
                slice_thickness=full.slice_thickness,
                parametrization=pspec["parametrization"],
                projection=pspec["projection"],
            )
            built.append(p.build(lazy=False))
        arrays = [b.array for b in built]
    else:
        b = full if isinstance(full, abtem.PotentialArray) else full.build(lazy=False)
        if len(b.ensemble_shape):
            arrays = [b.array[k] for k in range(b.ensemble_shape[0])]
        else:
            arrays = [b.array]
        built = [b]
    sampling = built[0].sampling
    st_all = tuple(built[0].slice_thickness)
    builder, cut = pl.make_builder(case["builder"], full)
    dets = pl.make_detectors(case["detectors"], cut)
    scan = pl.make_scan(case["scan"])

    def run_ref(arr, p):
        if p == -1:
            if case["builder"]["kind"] == "probe":
                w = builder.build(scan=scan, lazy=False)
            else:
                w = builder.build(lazy=False)
            return [d.detect(w) for d in dets]
        trunc = abtem.PotentialArray(arr[: p + 1].copy(), slice_thickness=st_all[: p + 1], sampling=sampling)
        if case["builder"]["kind"] == "probe":
            r = builder.multislice(trunc, scan=scan, detectors=dets, lazy=False)
        else:
            r = builder.multislice(trunc, detectors=dets, lazy=False)
        return list(r) if isinstance(r, (list, tuple)) else [r]

    refs = {p: [run_ref(arr, p) for arr in arrays] for p in planes}

    for di, (out, det) in enumerate(zip(outs, case["detectors"])):
        ti, taxis = _thickness_axis(out)
        ci = _config_axis(out)
        if len(planes) > 1:
            if taxis is None:
                raise Violation(f"no thickness axis in output of detector {det['kind']} for exit planes {planes}", ("no_thickness_axis",))
            exp = [0.0 if p == -1 else float(thick[p]) for p in planes]
            if len(taxis.values) != len(exp) or not np.allclose(np.array(taxis.values, dtype=float), exp, rtol=1e-6, atol=1e-9):
                raise Violation(f"thickness axis {taxis.values} != cumulative thickness of exit planes {exp}", ("thickness_values",))
            if out.shape[ti] != len(planes):
                raise Violation("thickness axis length differs from the number of exit planes", ("thickness_len",))
        arr = out.array
        for pi, p in enumerate(planes):
            members = np.stack([refs[p][k][di].array for k in range(len(arrays))])
            if ci is not None:
                ref = members
            elif len(arrays) > 1:
                ref = members.mean(axis=0)
            else:
                ref = members[0]
            got = arr
            if len(planes) > 1:
                got = np.take(arr, pi, axis=ti)
            elif ci is None and got.shape != ref.shape and got.shape[1:] == ref.shape:
                got = got[0]
            if got.shape != ref.shape:
                # single-member ensemble axes may be kept: compare after squeezing both
                if np.squeeze(got).shape == np.squeeze(ref).shape:
                    got, ref = np.squeeze(got), np.squeeze(ref)
                else:
                    raise Violation(f"shape {got.shape} vs truncated reference {ref.shape} (detector {det['kind']}, plane {p})", ("shape", det["kind"]))
            if not tol.close(got, ref, rtol=RTOL, atol=1e-7 * max(1.0, tol.scale(ref))):
                where = "entrance" if p == -1 else ("last" if p == nslices - 1 else "interior")
                raise Violation(
                    f"exit plane {p} ({where}) of {planes} differs from the simulation truncated after slice {p}: "
                    f"rel err {tol.rel_err(got, ref):.2e}, detector {det['kind']}, {'lazy' if case['lazy'] else 'eager'}",
                    ("plane_mismatch", where),
                )
