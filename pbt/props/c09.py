"""C09 The independent-atom potential is additive and slicing conserves it
(abtem/potentials/iam.py, abtem/slicing.py, abtem/integrals.py).

Claims
  additivity          P(A u B) == P(A) + P(B) slice by slice, infinite and finite projection
  slice_independence  infinite projection: project() does not depend on the slice thicknesses
  slice_assignment    Potential.get_sliced_atoms() (SliceIndexedAtoms behind wrap + z-snap):
                      every atom in exactly one slice, boundary atoms in the upper slice,
                      thicknesses sum to the cell height; observed on the index sets AND on
                      the built array (mean of slice k == sum of the single-atom means)
  sliced_atoms_direct SliceIndexedAtoms / SlicedAtoms(z_padding=0) used directly
  thickness_sum       _validate_slice_thickness through Potential: sum == cell height,
                      explicit sequences kept verbatim, mismatching sequences rejected

Boundary convention used by the oracles (exact rational arithmetic on the float inputs):
E_k = exact sum of the first k slice thicknesses.  Any float way of computing E_k (cumsum,
accumulate, fsum, k*t) is within DELTA = 8*n*eps*cell_z of it.  abTEM nudges its bin edges
down by 1e-12 precisely so that an atom "at z = sum(thicknesses[:k])" lands in slice k
whatever the summation order; therefore
    z >= E_k - DELTA      =>  slice index >= k      (on the boundary -> upper slice)
    z <  E_k - BAND       =>  slice index <  k      (BAND = 2e-12, the documented nudge)
and anything in between may go either way (counted as skipped).  Atoms within 1e-10 below
the top of the cell are snapped to z = 0 by Potential (documented in _prepare_atoms); they
may be in the last slice or in slice 0.
"""

from __future__ import annotations

import itertools
import math
from fractions import Fraction

import numpy as np
from hypothesis import strategies as st

from pbt import gen, tol
from pbt.core import Violation, claim

EPS = float(np.finfo(np.float64).eps)
BAND = 2e-12  # abTEM's stated edge nudge is 1e-12
SNAP = 1.01e-10  # abTEM snaps z > cell_z - 1e-10 to 0
PARAMETRIZATIONS = ["lobato", "kirkland", "peng"]

NICE_T = [0.1, 0.2, 0.3, 0.5, 0.7, 1.0, 1.1, 1.5, 2.0, 1 / 3, 2 / 3, 0.1 + 0.2, 0.25, 1.25]


# ----------------------------------------------------------------------- generators
def _thickness_value():
    return st.one_of(
        st.sampled_from(NICE_T),
        gen.floats(0.2, 2.5).map(lambda v: round(v, 3)),
        gen.floats(0.2, 2.5),
    )


@st.composite
def slicing_and_height(draw, max_slices=6):
    """(cell_z, slicing spec, effective thickness list used only to PLACE atoms)."""
    kind = draw(st.sampled_from(["seq", "seq", "scalar"]))
    if kind == "seq":
        n = draw(st.integers(1, max_slices))
        t = [draw(_thickness_value()) for _ in range(n)]
        while math.fsum(t) < 1.5:  # keep the cell height realistic (>= 1.5 A) by construction
            t.append(draw(st.sampled_from([0.5, 1.0, 1.5, 2.0])))
        how = draw(st.sampled_from(["npsum", "fsum", "accumulate"]))
        if how == "npsum":
            cz = float(np.sum(t))
        elif how == "fsum":
            cz = math.fsum(t)
        else:
            cz = float(list(itertools.accumulate(t))[-1])
        spelling = draw(st.sampled_from(["tuple", "list", "ndarray"]))
        return cz, {"kind": "seq", "t": t, "spelling": spelling}, t
    cz = draw(st.one_of(gen.floats(2.0, 8.0).map(lambda v: round(v, 3)), st.sampled_from([2.0, 3.0, 4.05, 5.43, 8.0])))
    n = draw(st.integers(1, max_slices))
    variant = draw(st.sampled_from(["exact", "between", "nice"]))
    if variant == "exact":
        t = cz / n
    elif variant == "between":
        t = cz / (n - draw(gen.floats(0.05, 0.9)))
    else:
        t = draw(st.sampled_from([0.5, 1.0, 1.5, 2.0, 2.5, 1, 2, 3]))
        if cz / t > 12:
            t = 1.0
    n_eff = int(math.ceil(cz / t))
    return cz, {"kind": "scalar", "t": t}, [cz / n_eff] * n_eff


def _edge(th, k, method):
    if method == "cumsum":
        return float(np.cumsum(np.array(th))[k - 1])
    if method == "accumulate":
        return float(list(itertools.accumulate(th))[k - 1])
    if method == "fsum":
        return math.fsum(th[:k])
    return float(k * th[0]) if len(set(th)) == 1 else math.fsum(th[:k])


@st.composite
def z_position(draw, cz, th, allow_out=True, allow_top=True):
    kinds = ["in", "in", "edge", "edge", "zero"]
    if allow_top:
        kinds.append("top")
    if allow_out:
        kinds.append("out")
    kind = draw(st.sampled_from(kinds))
    if kind == "out":
        base = draw(z_position(cz, th, allow_out=False, allow_top=False))
        return base + draw(st.sampled_from([-1, 1, 2])) * cz
    if kind == "edge" and len(th) > 1:
        k = draw(st.integers(1, len(th) - 1))
        z = _edge(th, k, draw(st.sampled_from(["cumsum", "accumulate", "fsum", "mul"])))
        off = draw(st.sampled_from([-1, 0, 0, 0, 1]))
        if off:
            z = float(np.nextafter(z, z + off))
        return z
    if kind == "zero" or kind == "edge":
        # with wrapping allowed also the float artefacts around 0 that structure builders leave
        return draw(st.sampled_from([0.0, 0.0, -1e-17, 1e-17, -3e-13])) if allow_out else 0.0
    if kind == "top":
        return draw(st.sampled_from([cz, cz - 1e-11, float(np.nextafter(cz, 0.0)), cz - 1e-9, cz - 3e-12]))
    return draw(gen.floats(0, 1)) * cz * (1 - 1e-6)


@st.composite
def xy_position(draw, a, b, gpts, previous):
    kind = draw(st.sampled_from(["in", "in", "in", "edge", "out", "column", "pixel", "tiny"]))
    if kind == "tiny":
        # floating-point artefacts of structure builders: coordinates a few ulps around 0
        tiny = st.sampled_from([-1e-17, -1e-20, 1e-17, -0.0, -2e-16])
        return [draw(tiny), draw(tiny)]
    if kind == "column" and previous:
        p = previous[draw(st.integers(0, len(previous) - 1))]
        return [p[0], p[1]]
    if kind == "edge":
        return [draw(st.sampled_from([0.0, a / 2, a])), draw(st.sampled_from([0.0, b / 2, b]))]
    if kind == "out":
        return [round(draw(gen.floats(-0.5, 1.5)) * a, 4), round(draw(gen.floats(-0.5, 1.5)) * b, 4)]
    if kind == "pixel":
        return [draw(st.integers(0, gpts[0])) * a / gpts[0], draw(st.integers(0, gpts[1])) * b / gpts[1]]
    return [round(draw(gen.floats(0, 1)) * a, 4), round(draw(gen.floats(0, 1)) * b, 4)]


@st.composite
def structure(draw, min_atoms=0, max_atoms=6, max_slices=6, gpts_hi=24, allow_out=True, allow_top=True):
    a = round(draw(gen.floats(3.0, 9.0)), 3)
    b = round(draw(gen.floats(3.0, 9.0)), 3)
    cz, slicing, th = draw(slicing_and_height(max_slices))
    gpts = draw(gen.gpts2d(6, gpts_hi))
    n = draw(st.integers(min_atoms, max_atoms))
    species = draw(st.lists(st.sampled_from(gen.ELEMENTS), min_size=1, max_size=3, unique=True))
    numbers, positions = [], []
    for _ in range(n):
        numbers.append(draw(st.sampled_from(species)))
        xy = draw(xy_position(a, b, gpts, positions))
        positions.append([xy[0], xy[1], draw(z_position(cz, th, allow_out, allow_top))])
    return {"cell": [a, b, cz], "numbers": numbers, "positions": positions, "slicing": slicing, "gpts": gpts}


def spelled(slicing):
    if slicing["kind"] == "scalar":
        return slicing["t"]
    t = slicing["t"]
    return {"tuple": tuple(t), "list": list(t), "ndarray": np.array(t, dtype=float)}[slicing["spelling"]]


def make_atoms(cell, numbers, positions, tags=None):
    from ase import Atoms

    atoms = Atoms(numbers=numbers, positions=np.array(positions, dtype=float).reshape(-1, 3), cell=cell, pbc=True)
    if tags is not None:
        atoms.set_tags(tags)
    return atoms


# ----------------------------------------------------------------------- reference model
def allowed_slices(z, th, cz, wrap=True, snap=True):
    """Set of slice indices the atom at height z may be assigned to (see module docstring),
    and whether the decision was sharp."""
    n = len(th)
    zf, czf = Fraction(z), Fraction(cz)
    if wrap:
        zf = zf % czf
    delta = Fraction(8 * n * EPS * cz)
    edges = [sum((Fraction(t) for t in th[:k]), Fraction(0)) for k in range(n + 1)]  # E_0..E_n
    if snap and zf >= czf - Fraction(SNAP):
        return {0, n - 1}, False
    must_ge = 0  # largest k with z >= E_k - delta
    may_ge = 0  # largest k with z >= E_k - BAND
    for k in range(1, n):
        if zf >= edges[k] - delta:
            must_ge = k
        if zf >= edges[k] - Fraction(BAND):
            may_ge = k
    return set(range(must_ge, may_ge + 1)), must_ge == may_ge


def on_interior_edge(z, th, cz):
    zf = Fraction(z) % Fraction(cz)
    acc = Fraction(0)
    for t in th[:-1]:
        acc += Fraction(t)
        if abs(zf - acc) <= Fraction(8 * len(th) * EPS * cz):
            return True
    return False


def check_thicknesses(th, slicing, cz, where):
    """Clause: the slice thicknesses sum to the cell height (f64)."""
    if len(th) < 1 or not all(isinstance(t, float) and t > 0 for t in th):
        raise Violation(f"{where}: invalid slice thicknesses {th}", ("thickness", "invalid", slicing["kind"]))
    s = math.fsum(th)
    if abs(s - cz) > 1e-9 * cz:
        raise Violation(f"{where}: thicknesses {th} sum to {s!r}, cell height {cz!r}", ("thickness", "sum", slicing["kind"]))
    if slicing["kind"] == "seq" and list(th) != [float(t) for t in slicing["t"]]:
        raise Violation(f"{where}: explicit thicknesses {slicing['t']} changed to {th}", ("thickness", "changed"))
    if slicing["kind"] == "scalar" and max(th) - min(th) > 1e-12 * cz:
        raise Violation(f"{where}: scalar thickness gave unequal slices {th}", ("thickness", "unequal"))


# ----------------------------------------------------------------------- additivity
@st.composite
def additivity_case(draw):
    projection = draw(st.sampled_from(["infinite", "infinite", "finite"]))
    s = draw(structure(min_atoms=draw(st.sampled_from([0, 2, 2, 2])), max_atoms=6 if projection == "infinite" else 4, max_slices=4, gpts_hi=24 if projection == "infinite" else 16))
    n = len(s["numbers"])
    if projection == "finite" and n >= 2 and draw(st.booleans()):
        # wide cell (several cutoff radii across) with a light and a heavy species sharing the
        # slices: only there a per-species cutoff can differ from a per-call one (added after
        # seeded/C09-2: in a 3-9 A cell every cutoff disk covers the whole grid)
        fx, fy = 14.0 / s["cell"][0], 16.0 / s["cell"][1]
        s["cell"] = [14.0, 16.0, s["cell"][2]]
        s["positions"] = [[round(p[0] * fx, 4), round(p[1] * fy, 4), p[2]] for p in s["positions"]]
        light, heavy = draw(st.sampled_from([[8, 79], [6, 29], [1, 79], [8, 29]]))
        s["numbers"] = [light, heavy] + [draw(st.sampled_from([light, heavy])) for _ in range(n - 2)]
        s["positions"][1][2] = s["positions"][0][2]  # the first light and heavy atom share a slice
        s["gpts"] = [draw(st.integers(18, 26)), draw(st.integers(18, 26))]
        s["wide"] = True
    # with >= 2 atoms both sets are non-empty by construction; 0/1 atoms give the empty-set cases
    s["in_a"] = [True, False][:n] + [draw(st.booleans()) for _ in range(max(0, n - 2))]
    s["projection"] = projection
    s["parametrization"] = draw(st.sampled_from(PARAMETRIZATIONS))
    return s


@claim(
    "C09",
    "additivity",
    additivity_case,
    quick=500,
    thorough=6000,
    tol="ulp32: max|P(AuB)-P(A)-P(B)| <= 3e-5*max|P(AuB)| (observed <= 5e-6)",
    rule="both atom sets non-empty",
    nontrivial_floor=0.35,
    floors={"finite": 0.15, "shared_species": 0.2},
)
def check_additivity(case, ctx):
    import abtem

    cell, gpts = case["cell"], tuple(case["gpts"])
    idx_a = [i for i, f in enumerate(case["in_a"]) if f]
    idx_b = [i for i, f in enumerate(case["in_a"]) if not f]
    ctx.label(case["projection"])
    ctx.label("wide_cell_mixed_species", bool(case.get("wide")))
    ctx.label("shared_species", bool({case["numbers"][i] for i in idx_a} & {case["numbers"][i] for i in idx_b}))
    ctx.nontrivial(bool(idx_a) and bool(idx_b))

    def build(idx):
        atoms = make_atoms(cell, [case["numbers"][i] for i in idx], [case["positions"][i] for i in idx])
        pot = abtem.Potential(
            atoms,
            gpts=gpts,
            slice_thickness=spelled(case["slicing"]),
            projection=case["projection"],
            parametrization=case["parametrization"],
        )
        return pot.build(lazy=False).array.astype(np.float64)

    both = build(list(range(len(case["numbers"]))))
    pa, pb = build(idx_a), build(idx_b)
    if both.shape != pa.shape or both.shape != pb.shape:
        raise Violation(f"shapes differ {both.shape} {pa.shape} {pb.shape}", ("additivity", "shape"))
    ref = pa + pb
    scale = max(tol.scale(both), tol.scale(ref))
    err = tol.max_err(both, ref)
    ctx.note("rel_err", err / scale if scale else 0.0)
    if err > 3e-5 * scale:
        k = int(np.argmax(np.abs(both - ref).reshape(both.shape[0], -1).max(axis=1)))
        raise Violation(
            f"P(AuB) != P(A)+P(B): max error {err:.3e} (scale {scale:.3e}) in slice {k}; {case}",
            ("additivity", case["projection"]),
        )


# ----------------------------------------------------------------------- slice independence
@st.composite
def independence_case(draw):
    s = draw(structure(min_atoms=1, max_atoms=6, max_slices=6))
    cz = s["cell"][2]
    # second slicing of the same cell: a coarsening (shares edges), a scalar, or one slice
    other = draw(st.sampled_from(["coarsen", "scalar", "one", "fractions"]))
    if other == "coarsen" and s["slicing"]["kind"] == "seq" and len(s["slicing"]["t"]) > 1:
        t = s["slicing"]["t"]
        keep = [draw(st.booleans()) for _ in range(len(t) - 1)]
        groups, cur = [], [t[0]]
        for flag, v in zip(keep, t[1:]):
            if flag:
                groups.append(cur)
                cur = [v]
            else:
                cur.append(v)
        groups.append(cur)
        s["slicing2"] = {"kind": "seq", "t": [math.fsum(g) for g in groups], "spelling": "tuple"}
    elif other == "fractions":
        n = draw(st.integers(2, 6))
        cuts = sorted(draw(st.lists(gen.floats(0.05, 0.95), min_size=n - 1, max_size=n - 1, unique=True)))
        edges = [0.0] + [c * cz for c in cuts] + [cz]
        t = [e1 - e0 for e0, e1 in zip(edges[:-1], edges[1:])]
        if min(t) < 1e-3:
            t = [cz / n] * n
        s["slicing2"] = {"kind": "seq", "t": t, "spelling": "list"}
    elif other == "one":
        s["slicing2"] = {"kind": "scalar", "t": cz}
    else:
        s["slicing2"] = {"kind": "scalar", "t": cz / draw(st.integers(1, 6)) * draw(st.sampled_from([1.0, 0.93]))}
    s["parametrization"] = draw(st.sampled_from(PARAMETRIZATIONS))
    return s


@claim(
    "C09",
    "slice_independence",
    independence_case,
    quick=1000,
    thorough=10000,
    tol="ulp32: max|proj1-proj2| <= 2e-5*max|proj| (observed <= 2e-6)",
    rule="the two slicings have different edge sets",
    nontrivial_floor=0.4,
    floors={"atom_on_interior_edge": 0.2},
)
def check_slice_independence(case, ctx):
    import abtem

    cell, gpts = case["cell"], tuple(case["gpts"])
    atoms = make_atoms(cell, case["numbers"], case["positions"])
    projs, ths = [], []
    for key in ("slicing", "slicing2"):
        pot = abtem.Potential(atoms, gpts=gpts, slice_thickness=spelled(case[key]), projection="infinite", parametrization=case["parametrization"])
        ths.append(list(pot.slice_thickness))
        projs.append(pot.build(lazy=False).project().array.astype(np.float64))
    e1 = [round(v, 9) for v in itertools.accumulate(ths[0])]
    e2 = [round(v, 9) for v in itertools.accumulate(ths[1])]
    ctx.nontrivial(e1 != e2)
    ctx.label("atom_on_interior_edge", any(on_interior_edge(p[2], ths[0], cell[2]) or on_interior_edge(p[2], ths[1], cell[2]) for p in case["positions"]))
    ctx.label(f"slices={min(len(ths[0]), 4)}")
    scale = max(tol.scale(projs[0]), tol.scale(projs[1]))
    err = tol.max_err(projs[0], projs[1])
    ctx.note("rel_err", err / scale if scale else 0.0)
    if err > 2e-5 * scale:
        raise Violation(
            f"projected potential depends on slicing: {ths[0]} vs {ths[1]}: max error {err:.3e} (scale {scale:.3e}); {case}",
            ("slice_independence",),
        )


# ----------------------------------------------------------------------- slice assignment
@st.composite
def assignment_case(draw):
    s = draw(structure(min_atoms=1, max_atoms=6, max_slices=6, gpts_hi=16))
    s["parametrization"] = draw(st.sampled_from(PARAMETRIZATIONS))
    return s


def _check_partition(per_slice_tags, n_atoms, zs, th, cz, ctx, where, wrap, snap, bucket_head):
    seen = {}
    for k, tags in enumerate(per_slice_tags):
        for t in tags:
            seen.setdefault(int(t), []).append(k)
    sharp_edge = False
    for i in range(n_atoms):
        got = seen.get(i, [])
        allowed, sharp = allowed_slices(zs[i], th, cz, wrap=wrap, snap=snap)
        if len(got) != 1:
            raise Violation(
                f"{where}: atom {i} at z={zs[i]!r} is in slices {got} (thicknesses {th}, cell_z {cz!r})",
                (bucket_head, "not_exactly_one", "none" if not got else "many"),
            )
        if not sharp:
            ctx.skip()
        if got[0] not in allowed:
            edge = on_interior_edge(zs[i], th, cz)
            raise Violation(
                f"{where}: atom {i} at z={zs[i]!r} assigned to slice {got[0]}, expected {sorted(allowed)} " f"(thicknesses {th}, cell_z {cz!r})",
                (bucket_head, "wrong_slice", "on_edge" if edge else "interior"),
            )
        if sharp and on_interior_edge(zs[i], th, cz):
            sharp_edge = True
    extra = set(seen) - set(range(n_atoms))
    if extra:
        raise Violation(f"{where}: unknown atoms {extra} in slices", (bucket_head, "extra_atoms"))
    return {i: v[0] for i, v in seen.items()}, sharp_edge


@claim(
    "C09",
    "slice_assignment",
    assignment_case,
    quick=1000,
    thorough=10000,
    tol="exact index sets; f64 1e-9 thickness sum; slice means 2e-5 of the total mean",
    rule=">=1 atom exactly on an interior slice edge (sharp decision)",
    nontrivial_floor=0.2,
    floors={"wrapped_atom": 0.1, "top_band_atom": 0.05},
)
def check_slice_assignment(case, ctx):
    import abtem

    cell, gpts = case["cell"], tuple(case["gpts"])
    cz = cell[2]
    n_atoms = len(case["numbers"])
    zs = [p[2] for p in case["positions"]]
    atoms = make_atoms(cell, case["numbers"], case["positions"], tags=list(range(n_atoms)))
    pot = abtem.Potential(atoms, gpts=gpts, slice_thickness=spelled(case["slicing"]), projection="infinite", parametrization=case["parametrization"])
    th = list(pot.slice_thickness)
    check_thicknesses(th, case["slicing"], cz, "Potential.slice_thickness")
    sliced = pot.get_sliced_atoms()
    if list(sliced.slice_thickness) != th or len(sliced) != len(th):
        raise Violation("sliced atoms and potential disagree on the slice thicknesses", ("thickness", "sliced_vs_potential"))
    per_slice = [sliced.get_atoms_in_slices(k).get_tags().tolist() for k in range(len(sliced))]
    ctx.label("wrapped_atom", any(not (0 <= z < cz) for z in zs))
    ctx.label("top_band_atom", any(Fraction(z) % Fraction(cz) >= Fraction(cz) - Fraction(SNAP) for z in zs))
    assignment, sharp_edge = _check_partition(per_slice, n_atoms, zs, th, cz, ctx, "Potential.get_sliced_atoms", True, True, "assignment")
    ctx.nontrivial(sharp_edge)
    ctx.label(f"slices={min(len(th), 4)}")

    # the same partition observed on the built array: mean of slice k == sum of the means of
    # the single-atom potentials of the atoms assigned to slice k
    array = pot.build(lazy=False).array.astype(np.float64)
    if array.shape != (len(th),) + gpts:
        raise Violation(f"built array shape {array.shape}", ("assignment", "shape"))
    unit_mean = {}
    for number in sorted(set(case["numbers"])):
        single = make_atoms(cell, [number], [[0.0, 0.0, 0.0]])
        unit_mean[number] = float(
            abtem.Potential(single, gpts=gpts, slice_thickness=cz, projection="infinite", parametrization=case["parametrization"])
            .build(lazy=False)
            .array.astype(np.float64)
            .mean()
        )
    total = sum(unit_mean[z] for z in case["numbers"])
    for k in range(len(th)):
        expect = sum(unit_mean[case["numbers"][i]] for i, s in assignment.items() if s == k)
        got = float(array[k].mean())
        if abs(got - expect) > 2e-5 * total:
            raise Violation(
                f"slice {k} of the built potential has mean {got:.6e}, the atoms assigned to it give {expect:.6e} " f"(total {total:.6e}); {case}",
                ("assignment", "array_mean"),
            )


# ----------------------------------------------------------------------- direct use
@st.composite
def direct_case(draw):
    # callers (_prepare_atoms) pass wrapped atoms with z in [0, cell_z - 1e-10]
    s = draw(structure(min_atoms=1, max_atoms=8, max_slices=8, allow_out=False, allow_top=False))
    s.pop("gpts")
    s["cls"] = draw(st.sampled_from(["SliceIndexedAtoms", "SlicedAtoms"]))
    return s


@claim(
    "C09",
    "sliced_atoms_direct",
    direct_case,
    quick=3000,
    thorough=30000,
    tol="exact index sets; f64 1e-9 thickness sum",
    rule=">=1 atom exactly on an interior slice edge (sharp decision)",
    nontrivial_floor=0.2,
)
def check_sliced_atoms_direct(case, ctx):
    from abtem import slicing

    cell = case["cell"]
    cz = cell[2]
    n_atoms = len(case["numbers"])
    zs = [p[2] for p in case["positions"]]
    atoms = make_atoms(cell, case["numbers"], case["positions"], tags=list(range(n_atoms)))
    ctx.label(case["cls"])
    if case["cls"] == "SliceIndexedAtoms":
        sliced = slicing.SliceIndexedAtoms(atoms, spelled(case["slicing"]))
    else:
        sliced = slicing.SlicedAtoms(atoms, spelled(case["slicing"]), xy_padding=0.0, z_padding=0.0)
    th = list(sliced.slice_thickness)
    check_thicknesses(th, case["slicing"], cz, case["cls"])
    if sliced.num_slices != len(th) or len(sliced) != len(th):
        raise Violation("num_slices disagrees with slice_thickness", ("thickness", "num_slices"))
    limits = sliced.slice_limits
    exact = [sum((Fraction(t) for t in th[:k]), Fraction(0)) for k in range(len(th) + 1)]
    for k, (lo, hi) in enumerate(limits):
        if abs(Fraction(lo) - exact[k]) > Fraction(1e-9) or abs(Fraction(hi) - exact[k + 1]) > Fraction(1e-9):
            raise Violation(f"slice_limits {limits} inconsistent with thicknesses {th}", ("thickness", "limits"))
    per_slice = [sliced.get_atoms_in_slices(k).get_tags().tolist() for k in range(len(th))]
    if case["cls"] == "SliceIndexedAtoms":
        _, sharp_edge = _check_partition(per_slice, n_atoms, zs, th, cz, ctx, case["cls"], False, False, "direct_indexed")
        ctx.nontrivial(sharp_edge)
    else:
        # SlicedAtoms documents its own float boundaries (slice_limits): slice k = [lo_k, hi_k)
        seen = {}
        for k, tags in enumerate(per_slice):
            for t in tags:
                seen.setdefault(int(t), []).append(k)
        on_edge = False
        for i in range(n_atoms):
            got = seen.get(i, [])
            if len(got) != 1:
                raise Violation(
                    f"SlicedAtoms: atom {i} at z={zs[i]!r} is in slices {got} (limits {limits})",
                    ("direct_sliced", "not_exactly_one", "none" if not got else "many"),
                )
            lo, hi = limits[got[0]]
            if not (lo <= zs[i] < hi):
                raise Violation(
                    f"SlicedAtoms: atom {i} at z={zs[i]!r} assigned to slice {got[0]} = [{lo!r}, {hi!r})",
                    ("direct_sliced", "wrong_slice", "on_edge" if any(zs[i] == l[0] for l in limits) else "interior"),
                )
            if got[0] > 0 and zs[i] == lo:
                on_edge = True
        ctx.nontrivial(on_edge)
    ctx.label(f"slices={min(len(th), 4)}")


# ----------------------------------------------------------------------- thickness validation
@st.composite
def thickness_case(draw):
    kind = draw(st.sampled_from(["valid", "valid", "valid", "mismatch", "nonpositive"]))
    cz, slicing, _ = draw(slicing_and_height(8))
    out = {"cz": cz, "slicing": slicing, "kind": kind, "via": draw(st.sampled_from(["validate", "potential", "sliced"]))}
    if kind == "mismatch":
        n = draw(st.integers(1, 6))
        t = [draw(_thickness_value()) for _ in range(n)]
        s = math.fsum(t)
        if abs(s - cz) <= 2e-3 * cz:
            t[0] += 0.05 * cz
        # a size-1 ndarray is (deliberately, see is_number) read as a scalar thickness, so it
        # is never a "mismatching sequence"
        spellings = ["tuple", "list", "ndarray"] if len(t) > 1 else ["tuple", "list"]
        out["slicing"] = {"kind": "seq", "t": t, "spelling": draw(st.sampled_from(spellings))}
    elif kind == "nonpositive":
        out["slicing"] = {"kind": "scalar", "t": draw(st.sampled_from([0.0, -1.0, -0.5, 0]))}
    return out


@claim(
    "C09",
    "thickness_sum",
    thickness_case,
    quick=3000,
    thorough=30000,
    tol="f64: |sum - cell_z| <= 1e-9*cell_z; explicit sequences exact",
    rule="valid request resulting in >=2 slices",
    nontrivial_floor=0.3,
    floors={"rejected_mismatch": 0.08, "rejected_nonpositive": 0.08},
)
def check_thickness_sum(case, ctx):
    import abtem
    from abtem import slicing

    cz = case["cz"]
    spec = spelled(case["slicing"])
    atoms = make_atoms([4.0, 5.0, cz], [6], [[1.0, 1.0, 0.5 * cz]])

    def run():
        if case["via"] == "validate":
            return list(slicing._validate_slice_thickness(spec, thickness=cz))
        if case["via"] == "potential":
            return list(abtem.Potential(atoms, gpts=(8, 8), slice_thickness=spec).slice_thickness)
        return list(slicing.SliceIndexedAtoms(atoms, spec).slice_thickness)

    ctx.label(case["via"])
    if case["kind"] == "mismatch":
        # documented: "an error will be thrown if the sum of slice thicknesses is not equal to
        # the height of the atoms" (RuntimeError)
        try:
            th = run()
        except RuntimeError:
            ctx.label("rejected_mismatch")
            return
        raise Violation(f"thicknesses {case['slicing']['t']} (sum {math.fsum(case['slicing']['t'])}) accepted for cell height {cz}: {th}", ("thickness", "mismatch_accepted"))
    if case["kind"] == "nonpositive":
        try:
            th = run()
        except ValueError:
            ctx.label("rejected_nonpositive")
            return
        raise Violation(f"slice_thickness={spec} accepted: {th}", ("thickness", "nonpositive_accepted"))
    th = run()
    check_thicknesses(th, case["slicing"], cz, case["via"])
    ctx.nontrivial(len(th) >= 2)
