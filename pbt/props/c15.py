"""C15 Fourier interpolation and shifting obey their algebra (abtem/core/fft.py, abtem/waves.py).

Clauses of the statement and the claim covering each:

* up-sampling followed by down-sampling returns the original      -> ``roundtrip``
* 'values' normalisation preserves the mean                        -> ``values_mean``
* 'intensity' normalisation preserves the total reciprocal-space
  intensity of band-limited arrays                                 -> ``intensity_sum``
* shifting by whole pixels equals a periodic roll                  -> ``shift_roll``
* shifts compose additively                                        -> ``shift_compose``
* Waves.downsample keeps the band-limited content of a wave        -> ``waves_downsample``

All references are computed independently in float64 with numpy (np.roll, np.mean,
np.fft) from the same input array.  abTEM computes in complex64; tolerances are stated
per claim.
"""

from __future__ import annotations

import numpy as np
from hypothesis import strategies as st

from pbt import gen, tol
from pbt.core import Violation, claim

DTYPES = ["float32", "float64", "complex64", "complex128"]


# ----------------------------------------------------------------------- helpers
def _array(shape, dtype, seed, offset=0.0):
    """White-noise array of the requested dtype (float64 noise, then cast)."""
    rng = np.random.default_rng(seed)
    a = rng.standard_normal(shape)
    if np.dtype(dtype).kind == "c":
        a = a + 1j * rng.standard_normal(shape)
    return (a + offset).astype(dtype)


def _bandlimited(shape, naxes, kmax, dtype, seed):
    """Array whose spectrum along each of the last ``naxes`` axes vanishes for integer
    frequencies |k| > kmax[axis] (built in float64, then cast)."""
    rng = np.random.default_rng(seed)
    spec = rng.standard_normal(shape) + 1j * rng.standard_normal(shape)
    for i in range(naxes):
        ax = len(shape) - naxes + i
        k = np.rint(np.fft.fftfreq(shape[ax]) * shape[ax]).astype(int)
        m = np.abs(k) <= kmax[i]
        sl = [None] * len(shape)
        sl[ax] = slice(None)
        spec = spec * m[tuple(sl)]
    axes = tuple(range(len(shape) - naxes, len(shape)))
    a = np.fft.ifftn(spec, axes=axes) * np.sqrt(np.prod([shape[x] for x in axes]))
    if np.dtype(dtype).kind != "c":
        a = a.real * np.sqrt(2.0)
    return a.astype(dtype)


def _path(old, batch):
    """Which transform path of fft_interpolate the case takes: 'fft2' (2-D new_shape),
    'fftn' (new_shape covers the whole array) or 'fftn-axes' (N-D new_shape, N != 2, with
    leading batch axes, or a 1-D array)."""
    if len(old) == 2:
        return "fft2"
    return "fftn-axes" if (batch or len(old) == 1) else "fftn"


def _parity_label(n_old, n_new):
    d = "up" if n_new > n_old else ("down" if n_new < n_old else "same")
    return f"{'even' if n_old % 2 == 0 else 'odd'}->{'even' if n_new % 2 == 0 else 'odd'}:{d}"


@st.composite
def _size(draw, lo=1, hi=24):
    # small sizes and both parities are equally likely
    return draw(st.integers(lo, hi))


@st.composite
def _batch(draw, max_dims=2):
    nd = draw(st.sampled_from([0, 0, 1, 1, 2][: 2 * max_dims + 1]))
    return [draw(st.integers(1, 3)) for _ in range(nd)]


# ----------------------------------------------------------------------- roundtrip
@st.composite
def roundtrip_case(draw):
    naxes = draw(st.sampled_from([2, 2, 2, 1, 3]))
    hi = 24 if naxes < 3 else 9
    old = [draw(_size(1, hi)) for _ in range(naxes)]
    # every axis is kept or enlarged; at least one axis is enlarged
    grow = [draw(st.booleans()) for _ in range(naxes)]
    if not any(grow):
        grow[draw(st.integers(0, naxes - 1))] = True
    new = [n + (draw(st.integers(1, hi + 1 - min(n, hi))) if g else 0) for n, g in zip(old, grow)]
    return {
        "old": old,
        "new": new,
        "batch": draw(_batch(2 if naxes < 3 else 1)),
        "dtype": draw(st.sampled_from(DTYPES)),
        "normalization": draw(st.sampled_from(["values", "values", "intensity", "amplitude"])),
        "seed": draw(gen.seeds()),
    }


@claim(
    "C15",
    "roundtrip",
    roundtrip_case,
    quick=1600,
    thorough=40000,
    tol="ulp32: max|down(up(x)) - x| <= 2e-5 * max|x| (two float32 FFT pairs; observed <= 1e-6)",
    rule="new shape != old shape (at least one axis is enlarged)",
    nontrivial_floor=0.8,
    floors={"real": 0.25, "complex": 0.25, "upsampled-even-axis": 0.2},
)
def check_roundtrip(case, ctx):
    from abtem.core.fft import fft_interpolate

    old, new = tuple(case["old"]), tuple(case["new"])
    shape = tuple(case["batch"]) + old
    x = _array(shape, case["dtype"], case["seed"])
    is_real = np.dtype(case["dtype"]).kind != "c"
    even_up = any(n % 2 == 0 and m > n for n, m in zip(old, new))
    ctx.label("real" if is_real else "complex")
    ctx.label("upsampled-even-axis", even_up)
    ctx.label("path=" + _path(old, case["batch"]))
    for n, m in zip(old, new):
        ctx.label(_parity_label(n, m))
    ctx.nontrivial(new != old)

    x0 = x.copy()
    y = fft_interpolate(x, new, normalization=case["normalization"])
    if y.shape != tuple(case["batch"]) + new:
        raise Violation(f"up-sampled shape {y.shape} for request {new}: {case}", ("roundtrip", "shape"))
    z = fft_interpolate(y, old, normalization=case["normalization"])
    if z.shape != shape:
        raise Violation(f"round-trip shape {z.shape} != {shape}: {case}", ("roundtrip", "shape"))
    if not np.array_equal(x, x0):
        raise Violation("fft_interpolate modified its input", ("roundtrip", "input_modified"))
    if np.iscomplexobj(z) == is_real:
        raise Violation(f"real input -> {z.dtype} output", ("roundtrip", "dtype"))
    if not tol.close(z, x, rtol=2e-5):
        raise Violation(
            f"down(up(x)) differs from x by {tol.rel_err(z, x):.2e} (relative to max|x|): {case}",
            bucket=("roundtrip", "fftn-axes")
            if _path(old, case["batch"]) == "fftn-axes"
            else ("roundtrip", "real" if is_real else "complex", "even" if even_up else "odd"),
        )


# ----------------------------------------------------------------------- values -> mean
@st.composite
def resample_case(draw):
    naxes = draw(st.sampled_from([2, 2, 2, 1, 3]))
    hi = 24 if naxes < 3 else 9
    old = [draw(_size(1, hi)) for _ in range(naxes)]
    new = [draw(_size(1, hi)) for _ in range(naxes)]
    return {
        "old": old,
        "new": new,
        "batch": draw(_batch(2 if naxes < 3 else 1)),
        "dtype": draw(st.sampled_from(DTYPES)),
        "offset": draw(st.sampled_from([0.0, 1.0, -2.5, 0.3])),
        "seed": draw(gen.seeds()),
    }


@claim(
    "C15",
    "values_mean",
    resample_case,
    quick=1600,
    thorough=40000,
    tol="ulp32: |mean(y) - mean(x)| <= 1e-5 * max|x| per batch member (observed <= 3e-7)",
    rule="new shape != old shape",
    nontrivial_floor=0.8,
)
def check_values_mean(case, ctx):
    from abtem.core.fft import fft_interpolate

    old, new = tuple(case["old"]), tuple(case["new"])
    nb = len(case["batch"])
    x = _array(tuple(case["batch"]) + old, case["dtype"], case["seed"], offset=case["offset"])
    is_real = np.dtype(case["dtype"]).kind != "c"
    ctx.label("real" if is_real else "complex")
    for n, m in zip(old, new):
        ctx.label(_parity_label(n, m))
    ctx.nontrivial(new != old)

    y = fft_interpolate(x, new, normalization="values")
    if y.shape != tuple(case["batch"]) + new:
        raise Violation(f"shape {y.shape} for request {new}: {case}", ("values_mean", "shape"))
    axes = tuple(range(nb, nb + len(old)))
    ref = np.asarray(x, dtype=np.complex128).mean(axis=axes)
    got = np.asarray(y, dtype=np.complex128).mean(axis=axes)
    err = tol.max_err(got, ref)
    if not err <= 1e-5 * tol.scale(x):
        dirs = sorted({_parity_label(n, m).split(":")[1] for n, m in zip(old, new)})
        raise Violation(
            f"'values' interpolation changed the mean by {err:.3e} (max|x|={tol.scale(x):.3g}): {case}",
            bucket=("values_mean", "fftn-axes")
            if _path(old, case["batch"]) == "fftn-axes"
            else ("values_mean", "real" if is_real else "complex", "+".join(dirs)),
        )


# ----------------------------------------------------------------------- intensity
@st.composite
def intensity_case(draw):
    case = draw(resample_case())
    case.pop("offset")
    case["normalization"] = draw(st.sampled_from(["intensity", "amplitude"]))
    return case


@claim(
    "C15",
    "intensity_sum",
    intensity_case,
    quick=1600,
    thorough=40000,
    tol="ulp32: |sum|FFT y|^2 - sum|FFT x|^2| <= 2e-5 * sum|FFT x|^2 (observed <= 1e-6)",
    rule="new shape != old shape and the band-limited array is not constant",
    nontrivial_floor=0.5,
)
def check_intensity_sum(case, ctx):
    from abtem.core.fft import fft_interpolate

    old, new = tuple(case["old"]), tuple(case["new"])
    nb = len(case["batch"])
    # strictly inside the smaller of the two Nyquist boxes: |k| <= (min(n_old, n_new) - 1) // 2
    kmax = [(min(n, m) - 1) // 2 for n, m in zip(old, new)]
    x = _bandlimited(tuple(case["batch"]) + old, len(old), kmax, case["dtype"], case["seed"])
    is_real = np.dtype(case["dtype"]).kind != "c"
    ctx.label("real" if is_real else "complex")
    for n, m in zip(old, new):
        ctx.label(_parity_label(n, m))
    ctx.nontrivial(new != old and any(k > 0 for k in kmax))

    y = fft_interpolate(x, new, normalization=case["normalization"])
    axes = tuple(range(nb, nb + len(old)))
    ref = (np.abs(np.fft.fftn(np.asarray(x, dtype=np.complex128), axes=axes)) ** 2).sum(axis=axes)
    got = (np.abs(np.fft.fftn(np.asarray(y, dtype=np.complex128), axes=axes)) ** 2).sum(axis=axes)
    if not tol.close(got, ref, rtol=2e-5):
        dirs = sorted({_parity_label(n, m).split(":")[1] for n, m in zip(old, new)})
        raise Violation(
            f"'{case['normalization']}' interpolation changed sum|FFT|^2 by {tol.rel_err(got, ref):.2e}: {case}",
            bucket=("intensity_sum", "fftn-axes")
            if _path(old, case["batch"]) == "fftn-axes"
            else ("intensity_sum", "real" if is_real else "complex", "+".join(dirs)),
        )


# ----------------------------------------------------------------------- shifts
@st.composite
def _shift_value(draw, n, integer):
    if integer:
        return draw(st.integers(-n, n) | st.integers(-60, 60))
    return round(draw(gen.floats(-1.5 * n, 1.5 * n) | gen.floats(-1.0, 1.0)), 4)


@st.composite
def shift_case(draw, integer=True, two=False):
    gpts = [draw(_size(1, 24)), draw(_size(1, 24))]
    batch = draw(_batch(2))
    per_member = bool(batch) and draw(st.booleans())
    nshift = int(np.prod(batch)) if per_member else 1

    def shifts():
        return [[draw(_shift_value(gpts[0], integer)), draw(_shift_value(gpts[1], integer))] for _ in range(nshift)]

    case = {
        "gpts": gpts,
        "batch": batch,
        "per_member": per_member,
        "dtype": draw(st.sampled_from(["complex64", "complex64", "complex128"])),
        "p": shifts(),
        "seed": draw(gen.seeds()),
    }
    if two:
        case["q"] = shifts()
    else:
        case["int_dtype"] = draw(st.booleans())  # integer shifts passed as ints or as floats
    return case


def _positions(case, key, dtype=float):
    p = np.array(case[key], dtype=dtype)
    if case["per_member"]:
        return p.reshape(tuple(case["batch"]) + (2,))
    return p.reshape(2)


@claim(
    "C15",
    "shift_roll",
    lambda: shift_case(integer=True),
    quick=1600,
    thorough=40000,
    tol="ulp32: max|fft_shift(x,p) - roll(x,p)| <= (1e-5 + 1e-6*max|p|) * max|x| "
    "(the frequency grid is float32, so the phase error grows with |p|; observed 1e-7*|p|)",
    rule="shift is not 0 modulo the array size for some member",
    nontrivial_floor=0.6,
)
def check_shift_roll(case, ctx):
    from abtem.core.fft import fft_shift

    gpts = tuple(case["gpts"])
    x = _array(tuple(case["batch"]) + gpts, case["dtype"], case["seed"])
    p = _positions(case, "p", dtype=int if case["int_dtype"] else float)
    pi = np.array(case["p"], dtype=int)
    ctx.label("per_member", case["per_member"])
    ctx.label("beyond_size", bool((np.abs(pi) >= np.array(gpts)).any()))
    ctx.label("negative", bool((pi < 0).any()))
    ctx.nontrivial(bool((pi % np.array(gpts) != 0).any()))

    y = fft_shift(x, p)
    if y.shape != x.shape:
        raise Violation(f"shape {y.shape} != {x.shape}: {case}", ("shift_roll", "shape"))
    flat = x.reshape((-1,) + gpts)
    ref = np.empty_like(flat)
    for i in range(flat.shape[0]):
        s = pi[i if case["per_member"] else 0]
        ref[i] = np.roll(flat[i], (int(s[0]), int(s[1])), axis=(0, 1))
    ref = ref.reshape(x.shape)
    rtol = 1e-5 + 1e-6 * float(np.abs(pi).max())
    if not tol.close(y, ref, rtol=rtol):
        # is it the opposite roll / transposed components?  (for the bucket only)
        kind = "other"
        opp = np.empty_like(flat)
        for i in range(flat.shape[0]):
            s = pi[i if case["per_member"] else 0]
            opp[i] = np.roll(flat[i], (-int(s[0]), -int(s[1])), axis=(0, 1))
        if tol.close(y, opp.reshape(x.shape), rtol=rtol):
            kind = "opposite_sign"
        raise Violation(
            f"fft_shift by whole pixels differs from np.roll by {tol.rel_err(y, ref):.2e}: {case}",
            bucket=("shift_roll", kind),
        )


@claim(
    "C15",
    "shift_compose",
    lambda: shift_case(integer=False, two=True),
    quick=1600,
    thorough=40000,
    tol="ulp32: max|S_q S_p x - S_{p+q} x| <= (2e-5 + 1e-6*max(|p|,|q|,|p+q|)) * max|x|",
    rule="both shifts are non-zero",
    nontrivial_floor=0.6,
)
def check_shift_compose(case, ctx):
    from abtem.core.fft import fft_shift

    gpts = tuple(case["gpts"])
    x = _array(tuple(case["batch"]) + gpts, case["dtype"], case["seed"])
    p, q = _positions(case, "p"), _positions(case, "q")
    ctx.label("per_member", case["per_member"])
    frac = bool((np.abs(p - np.rint(p)) > 1e-3).any() or (np.abs(q - np.rint(q)) > 1e-3).any())
    ctx.label("fractional", frac)
    ctx.nontrivial(bool(np.abs(p).max() > 0 and np.abs(q).max() > 0))

    a = fft_shift(fft_shift(x, p), q)
    b = fft_shift(x, p + q)
    big = float(max(np.abs(p).max(), np.abs(q).max(), np.abs(p + q).max()))
    rtol = 2e-5 + 1e-6 * big
    err = tol.max_err(a, b)
    if not err <= rtol * tol.scale(x):
        raise Violation(
            f"shift(shift(x,p),q) differs from shift(x,p+q) by {err / tol.scale(x):.2e}: {case}",
            bucket=("shift_compose", "fractional" if frac else "integer"),
        )
    # a shift is unitary: it never changes the total intensity (guards against a
    # composition that "holds" because both sides lost the signal)
    n0 = float((np.abs(x.astype(np.complex128)) ** 2).sum())
    n1 = float((np.abs(a.astype(np.complex128)) ** 2).sum())
    if abs(n1 - n0) > 1e-4 * n0:
        raise Violation(f"composed shift changed sum|x|^2 from {n0} to {n1}: {case}", ("shift_compose", "norm"))


# ----------------------------------------------------------------------- Waves.downsample
@st.composite
def waves_case(draw):
    gpts = [draw(st.integers(6, 32)), draw(st.integers(6, 32))]
    # anisotropy is kept within a factor 2: 'cutoff'/'valid' scale the finer axis by
    # sampling/max(sampling) and would otherwise ask for 0 grid points on 6-point grids
    s0 = round(draw(gen.floats(0.05, 0.4)), 4)
    sampling = [s0, round(s0 * draw(st.sampled_from([1.0, 1.0, 0.5, 0.8, 1.25, 2.0])), 4)]
    mode = draw(st.sampled_from(["cutoff", "valid", "angle", "gpts", "gpts"]))
    case = {
        "gpts": gpts,
        "sampling": sampling,
        "energy": draw(gen.energies()),
        "batch": draw(_batch(2)),
        "mode": mode,
        "normalization": draw(st.sampled_from(["values", "values", "amplitude"])),
        "content": draw(st.sampled_from(["white", "bandlimited"])),
        "lazy": draw(st.booleans()),
        "seed": draw(gen.seeds()),
    }
    if mode == "angle":
        case["angle_fraction"] = round(draw(gen.floats(0.1, 0.8)), 3)
    if mode == "gpts":
        case["new_gpts"] = [draw(st.integers(1, gpts[0])), draw(st.integers(1, gpts[1]))]
    return case


def _centered(n):
    """Integer frequencies of an n-point FFT in storage order."""
    return np.rint(np.fft.fftfreq(n) * n).astype(int)


@claim(
    "C15",
    "waves_downsample",
    waves_case,
    quick=700,
    thorough=14000,
    tol="ulp32: Fourier coefficients compared with atol 2e-5 * max|coefficient|; extent rtol 1e-6",
    rule="the new gpts differ from the old gpts",
    nontrivial_floor=0.6,
    floors={"lazy": 0.25, "bandlimited": 0.25},
)
def check_waves_downsample(case, ctx):
    import dask.array as da

    import abtem
    from abtem.core.axes import OrdinalAxis

    gpts = tuple(case["gpts"])
    batch = tuple(case["batch"])
    shape = batch + gpts
    # target gpts requested explicitly, or chosen by abTEM from max_angle
    kwargs = {"normalization": case["normalization"]}
    probe_waves = abtem.Waves(np.zeros(gpts, dtype=np.complex64), energy=case["energy"], sampling=tuple(case["sampling"]))
    if case["mode"] == "gpts":
        kwargs["gpts"] = tuple(case["new_gpts"])
    elif case["mode"] == "angle":
        full = min(probe_waves.full_cutoff_angles)
        kwargs["max_angle"] = float(case["angle_fraction"] * full)
    else:
        kwargs["max_angle"] = case["mode"]

    if case["content"] == "bandlimited":
        # content strictly inside the smaller of the two Nyquist boxes; the target gpts are
        # learnt from the same public call on an empty wave (generator side only)
        target = probe_waves.downsample(**kwargs).gpts
        kmax = [(min(n, m) - 1) // 2 for n, m in zip(gpts, target)]
        x = _bandlimited(shape, 2, kmax, "complex64", case["seed"])
    else:
        x = _array(shape, "complex64", case["seed"])
    meta = [OrdinalAxis(label=f"e{i}", values=tuple(range(n))) for i, n in enumerate(batch)]
    arr = da.from_array(x, chunks=(1,) * len(batch) + gpts) if case["lazy"] else x.copy()
    waves = abtem.Waves(arr, energy=case["energy"], sampling=tuple(case["sampling"]), ensemble_axes_metadata=meta)
    old_extent = tuple(waves.extent)

    out = waves.downsample(**kwargs)
    if case["lazy"]:
        if not out.is_lazy:
            raise Violation("lazy waves gave an eager result", ("waves_downsample", "laziness"))
        out = out.compute()
    y = np.asarray(out.array)
    new = tuple(out.gpts)
    ctx.label("lazy", case["lazy"])
    ctx.label(case["content"])
    ctx.label("mode=" + case["mode"])
    for n, m in zip(gpts, new):
        ctx.label(_parity_label(n, m))
    ctx.nontrivial(new != gpts)

    if y.shape != batch + new:
        raise Violation(f"array shape {y.shape} but gpts {new}, batch {batch}: {case}", ("waves_downsample", "shape"))
    if case["mode"] == "gpts" and new != tuple(case["new_gpts"]):
        raise Violation(f"asked gpts {case['new_gpts']} got {new}", ("waves_downsample", "gpts"))
    if any(m > n for n, m in zip(gpts, new)) and case["mode"] in ("cutoff", "valid"):
        raise Violation(f"downsample('{case['mode']}') enlarged the grid {gpts} -> {new}", ("waves_downsample", "enlarged"))
    # the extent (sampling * gpts) is unchanged
    ext = tuple(s * n for s, n in zip(out.sampling, new))
    if not np.allclose(ext, old_extent, rtol=1e-6, atol=0):
        raise Violation(f"extent changed {old_extent} -> {ext}: {case}", ("waves_downsample", "extent"))
    if [type(a).__name__ for a in out.ensemble_axes_metadata] != ["OrdinalAxis"] * len(batch):
        raise Violation("ensemble axes metadata changed", ("waves_downsample", "axes"))

    # Fourier coefficients (per unit cell, i.e. FFT / N): 'values' keeps c_k, 'amplitude'
    # keeps the raw FFT value X_k = N c_k.
    X = np.fft.fft2(x.astype(np.complex128))
    Y = np.fft.fft2(y.astype(np.complex128))
    if case["normalization"] == "values":
        X = X / np.prod(gpts)
        Y = Y / np.prod(new)
    k_old = [_centered(n) for n in gpts]
    k_new = [_centered(m) for m in new]
    # frequencies strictly inside both Nyquist boxes
    lim = [(min(n, m) - 1) // 2 for n, m in zip(gpts, new)]
    io = [np.flatnonzero(np.abs(k) <= l) for k, l in zip(k_old, lim)]
    ino = [np.array([np.flatnonzero(kn == kv)[0] for kv in ko[i]]) for kn, ko, i in zip(k_new, k_old, io)]
    ref = X[..., io[0][:, None], io[1][None, :]]
    got = Y[..., ino[0][:, None], ino[1][None, :]]
    scale = max(tol.scale(X), 1e-30)
    err = tol.max_err(got, ref)
    if not err <= 2e-5 * scale:
        raise Violation(
            f"Fourier coefficients inside the new box changed by {err / scale:.2e} (relative to the largest): {case}",
            bucket=("waves_downsample", "coefficients", case["normalization"]),
        )
    if case["content"] == "bandlimited":
        # nothing else may appear: all remaining coefficients of the result vanish
        rest = Y.copy()
        rest[..., ino[0][:, None], ino[1][None, :]] = 0
        if not tol.scale(rest) <= 2e-5 * scale:
            raise Violation(
                f"coefficients outside the band appeared ({tol.scale(rest) / scale:.2e}): {case}",
                bucket=("waves_downsample", "spurious", case["normalization"]),
            )
