"""C25 Each atomic potential parametrization is internally consistent (abtem/parametrizations).

Finite domain of elements: every symbol of lobato.json (103), kirkland.json (103) and
peng_high.json (98; the default of PengParametrization).

  monotone_all_elements   every example loops over ALL elements of one table: the four callables
                          (potential, projected_potential, scattering_factor,
                          projected_scattering_factor) are finite, > 0 and strictly decreasing on
                          Hypothesis-drawn sorted radii in [0.005, 4] A / frequencies in [0, 8] 1/A;
                          scattering_factor equals the published closed form evaluated in float64
                          from the raw table and equals kappa * projected_scattering_factor.
  fourier_pair_elements   every example takes one 16th of a table (elements i, i+16, ...):
                          projected_scattering_factor(k^2) == 2 pi int v_proj(r) J0(2 pi k r) r dr
                          (Simpson on a logarithmic grid) and
                          projected_potential(rho) == 2 int_0^inf v(sqrt(rho^2+z^2)) dz
                          (Simpson in z = rho sinh t), at 4 radii and 4 frequencies.
  fourier_pair_all_elements  the same two comparisons for EVERY element of all three tables in
                          every example (one drawn radius, one drawn frequency): the thorough tier
                          enumerates the whole finite domain 80 times (the quick tier once).

Tolerances.  abTEM casts the (scaled) parameters to float32.  The quadrature comparisons use the
same float32 parameters on both sides (observed <= 3e-5, worst: He/Lobato) -> rtol 1e-4 (+ cond term).
scattering_factor uses the *raw* float32 table, the projected forms the *scaled* float32 table;
some fits (He: -62.0 + 64.0 ...) cancel heavily, so that comparison is allowed
8 * eps32 * cond with cond = sum|term| / |sum term| of the published formula.
"""

from __future__ import annotations

import numpy as np
from hypothesis import strategies as st

from pbt.core import Violation, claim
from pbt import gen

EPS32 = float(np.finfo(np.float32).eps)
TABLES = {"lobato": 103, "kirkland": 103, "peng": 98}
PARTS = 16
QUAD_RTOL = 1e-4

_cache: dict = {}


def _param(table):
    if table not in _cache:
        from abtem.parametrizations import KirklandParametrization, LobatoParametrization, PengParametrization

        cls = {"lobato": LobatoParametrization, "kirkland": KirklandParametrization, "peng": PengParametrization}[table]
        _cache[table] = cls()
    return _cache[table]


def _symbols(table):
    p = _param(table)
    syms = list(p.parameters)
    if len(syms) != TABLES[table]:
        raise RuntimeError(f"table {table} has {len(syms)} entries, expected {TABLES[table]}")
    return syms


# ----------------------------------------------------------------------- published closed forms (float64)
def published_terms(table, raw, k2):
    """terms of the electron scattering factor f_e(k) [A] of the published parametrization,
    shape (n_terms, len(k2)), from the raw table entry"""
    raw = np.asarray(raw, dtype=np.float64)
    k2 = np.asarray(k2, dtype=np.float64)[None, :]
    if table == "lobato":  # Lobato & Van Dyck 2014, eq. (9)
        a, b = raw[0][:, None], raw[1][:, None]
        return a * (2.0 + b * k2) / (1.0 + b * k2) ** 2
    if table == "kirkland":  # Kirkland 2010, appendix C: 3 Lorentzians + 3 Gaussians
        a, b, c, d = (raw[i][:, None] for i in range(4))
        return np.concatenate([a / (k2 + b), c * np.exp(-d * k2)])
    if table == "peng":  # Peng 1999: sum a_i exp(-b_i s^2), s = k / 2
        a, b = raw[0][:, None], raw[1][:, None]
        return a * np.exp(-b * k2 / 4.0)
    raise AssertionError(table)


# ----------------------------------------------------------------------- quadratures
def _simpson_weights(n, h):
    w = np.ones(n)
    w[1:-1:2] = 4.0
    w[2:-1:2] = 2.0
    return w * (h / 3.0)


def _log_grid(r0=1e-6, R=2000.0, n=20001):
    key = ("log", r0, R, n)
    if key not in _cache:
        u = np.linspace(np.log(r0), np.log(R), n)
        _cache[key] = (np.exp(u), _simpson_weights(n, u[1] - u[0]))
    return _cache[key]


def hankel_2d(vproj, ks):
    """2-D Fourier transform of a radial function: 2 pi int_0^inf f(r) J0(2 pi k r) r dr"""
    from scipy.special import j0

    r, w = _log_grid()
    g = np.asarray(vproj(r), dtype=np.float64) * r * r  # r dr = r^2 du
    return np.array([2.0 * np.pi * np.sum(w * g * j0(2.0 * np.pi * k * r)) for k in ks])


def abel_projection(v, rhos, R=2000.0, n=4001):
    """2 int_0^inf v(sqrt(rho^2 + z^2)) dz with z = rho sinh t"""
    out = []
    for rho in rhos:
        T = np.arccosh(R / rho)
        t = np.linspace(0.0, T, n)
        w = _simpson_weights(n, t[1] - t[0])
        rr = rho * np.cosh(t)
        out.append(2.0 * np.sum(w * np.asarray(v(rr), dtype=np.float64) * rr))  # dz = rho cosh t dt
    return np.array(out)


# ----------------------------------------------------------------------- generators
@st.composite
def sorted_samples(draw, lo, hi, n, sep, include_lo=False):
    """n increasing floats in [lo, hi] separated by at least sep"""
    span = hi - lo - sep * (n - 1)
    fr = sorted(draw(st.lists(gen.floats(0.0, 1.0), min_size=n, max_size=n)))
    vals = [lo + f * span + i * sep for i, f in enumerate(fr)]
    if include_lo and draw(st.booleans()):
        vals[0] = lo
    return [float(min(v, hi)) for v in vals]


@st.composite
def monotone_case(draw):
    return {
        "table": draw(st.sampled_from(sorted(TABLES))),
        "radii": draw(sorted_samples(0.005, 4.0, 10, 1e-3, include_lo=True)),
        "ks": draw(sorted_samples(0.0, 8.0, 10, 1e-3, include_lo=True)),
    }


@st.composite
def fourier_case(draw):
    return {
        "table": draw(st.sampled_from(sorted(TABLES))),
        "part": draw(st.integers(0, PARTS - 1)),
        "radii": draw(sorted_samples(0.005, 4.0, 4, 1e-3, include_lo=True)),
        "ks": draw(sorted_samples(0.0, 8.0, 4, 1e-3, include_lo=True)),
    }


# ----------------------------------------------------------------------- claims
@claim(
    "C25",
    "monotone_all_elements",
    monotone_case,
    quick=150,
    thorough=3000,
    tol="sign/order exact; closed forms 8*eps32*cond + 1e-6 relative",
    rule="always (every example evaluates all elements of a table on 10 radii and 10 frequencies)",
    nontrivial_floor=0.9,
    floors={"lobato": 0.15, "kirkland": 0.15, "peng": 0.15},
)
def check_monotone(case, ctx):
    from abtem.core.constants import kappa

    table = case["table"]
    p = _param(table)
    r = np.array(case["radii"], dtype=np.float64)
    k = np.array(case["ks"], dtype=np.float64)
    k2 = k**2
    ctx.label(table)
    ctx.nontrivial()
    for sym in _symbols(table):
        vals = {}
        for name, x in (("potential", r), ("projected_potential", r), ("scattering_factor", k2), ("projected_scattering_factor", k2)):
            y = np.asarray(p.get_function(name, sym)(x.copy()), dtype=np.float64)
            vals[name] = y
            arg = "r" if x is r else "k"
            xs = r if x is r else k
            if y.shape != x.shape or not np.all(np.isfinite(y)):
                raise Violation(f"{table} {sym} {name}: non-finite / misshaped values {y} at {arg}={xs.tolist()}", ("finite", name, table))
            if not np.all(y > 0):
                i = int(np.argmax(~(y > 0)))
                raise Violation(f"{table} {sym} {name}({arg}={xs[i]!r}) = {y[i]!r} is not positive", ("positive", name, table))
            d = np.diff(y)
            if not np.all(d < 0):
                i = int(np.argmax(~(d < 0)))
                raise Violation(
                    f"{table} {sym} {name} is not decreasing: {arg}={xs[i]!r} -> {y[i]!r}, {arg}={xs[i + 1]!r} -> {y[i + 1]!r}",
                    ("decreasing", name, table),
                )
        # same atom in both unit systems, and the published closed form of the raw table
        terms = published_terms(table, p.parameters[sym], k2)
        ref = terms.sum(0)
        cond = np.abs(terms).sum(0) / np.abs(ref)
        tol_rel = 8 * EPS32 * cond + 1e-6
        sf = vals["scattering_factor"]
        if np.any(np.abs(sf - ref) > tol_rel * np.abs(ref)):
            i = int(np.argmax(np.abs(sf - ref) / (tol_rel * np.abs(ref))))
            raise Violation(
                f"{table} {sym} scattering_factor(k={k[i]!r}) = {sf[i]!r}, published formula {ref[i]!r} (rel {abs(sf[i] - ref[i]) / abs(ref[i]):.2e}, allowed {tol_rel[i]:.2e})",
                ("published_form", table),
            )
        kp = kappa * vals["projected_scattering_factor"]
        if np.any(np.abs(kp - ref) > tol_rel * np.abs(ref)):
            i = int(np.argmax(np.abs(kp - ref) / (tol_rel * np.abs(ref))))
            raise Violation(
                f"{table} {sym} kappa*projected_scattering_factor(k={k[i]!r}) = {kp[i]!r}, scattering factor (published formula) {ref[i]!r} "
                f"(rel {abs(kp[i] - ref[i]) / abs(ref[i]):.2e}, allowed {tol_rel[i]:.2e})",
                ("kappa_relation", table),
            )


def _check_pair(table, sym, p, k, rho):
    """projected scattering factor == 2-D FT of the projected potential == projection of the 3-D potential"""
    # fits whose terms cancel (He) amplify the float32 rounding of parameters / outputs
    terms = published_terms(table, p.parameters[sym], np.concatenate([[0.0], k**2]))
    cond = np.abs(terms).sum(0) / np.abs(terms.sum(0))
    tol_f = QUAD_RTOL + 16 * EPS32 * cond[1:]
    tol_v = QUAD_RTOL + 16 * EPS32 * cond[0]
    v = p.potential(sym)
    vproj = p.projected_potential(sym)
    fproj = p.projected_scattering_factor(sym)
    ref_f = np.asarray(fproj(k**2), dtype=np.float64)
    got_f = hankel_2d(vproj, k)
    err = np.abs(got_f - ref_f) / np.abs(ref_f)
    if not np.all(err <= tol_f):
        i = int(np.argmax(~(err <= tol_f)))
        raise Violation(
            f"{table} {sym}: projected_scattering_factor(k={k[i]!r}) = {ref_f[i]!r} but the 2-D Fourier transform of projected_potential is {got_f[i]!r} (rel {err[i]:.2e})",
            ("fourier_pair", table),
        )
    ref_v = np.asarray(vproj(rho), dtype=np.float64)
    got_v = abel_projection(v, rho)
    err = np.abs(got_v - ref_v) / np.abs(ref_v)
    if not np.all(err <= tol_v):
        i = int(np.argmax(~(err <= tol_v)))
        raise Violation(
            f"{table} {sym}: projected_potential(rho={rho[i]!r}) = {ref_v[i]!r} but the projection of potential along z is {got_v[i]!r} (rel {err[i]:.2e})",
            ("projection", table),
        )


_QUAD_TOL = "rtol 1e-4 + 16*eps32*cond pointwise (observed <= 3e-5 for He/Lobato, <= 4e-7 elsewhere)"


@claim(
    "C25",
    "fourier_pair_elements",
    fourier_case,
    quick=40,
    thorough=320,
    tol=_QUAD_TOL,
    rule="always (every example compares independently coded real- and reciprocal-space forms for 1/16 of a table at 4 radii and 4 frequencies)",
    nontrivial_floor=0.9,
    floors={"lobato": 0.1, "kirkland": 0.1, "peng": 0.1},
)
def check_fourier_pair(case, ctx):
    table, part = case["table"], case["part"]
    p = _param(table)
    rho = np.array(case["radii"], dtype=np.float64)
    k = np.array(case["ks"], dtype=np.float64)
    ctx.label(table)
    ctx.label(f"{table}/part{part}")
    ctx.nontrivial()
    for sym in _symbols(table)[part::PARTS]:
        _check_pair(table, sym, p, k, rho)


@st.composite
def all_elements_case(draw):
    return {
        "radii": draw(sorted_samples(0.005, 4.0, 1, 1e-3, include_lo=True)),
        "ks": draw(sorted_samples(0.0, 8.0, 1, 1e-3, include_lo=True)),
    }


@claim(
    "C25",
    "fourier_pair_all_elements",
    all_elements_case,
    quick=1,
    thorough=80,
    tol=_QUAD_TOL,
    rule="always (every example enumerates ALL 103 + 103 + 98 elements of the three tables at one drawn radius and one drawn frequency)",
    nontrivial_floor=0.9,
)
def check_fourier_pair_all(case, ctx):
    rho = np.array(case["radii"], dtype=np.float64)
    k = np.array(case["ks"], dtype=np.float64)
    ctx.nontrivial()
    n = 0
    for table in sorted(TABLES):
        p = _param(table)
        for sym in _symbols(table):
            _check_pair(table, sym, p, k, rho)
            n += 1
    ctx.note("elements_checked", n)
    ctx.label(f"elements={n}")
