"""Shared generators.  Strategies return plain JSON-able *specs*; ``make_*`` functions
turn a spec into the abTEM / ASE / numpy object.  Random array contents are derived
from Hypothesis-drawn integer seeds through numpy Generators, so a case stays small,
serialisable and a pure function of the drawn values."""

from __future__ import annotations

import numpy as np
from hypothesis import strategies as st

ELEMENTS = [1, 6, 8, 14, 29, 79]  # H C O Si Cu Au


def floats(lo, hi, **kw):
    return st.floats(lo, hi, allow_nan=False, allow_infinity=False, width=64, **kw)


def seeds():
    return st.integers(0, 2**31 - 1)


# ------------------------------------------------------------------ atoms
@st.composite
def atoms_spec(draw, min_atoms=1, max_atoms=6, cell_xy=(3.0, 9.0), cell_z=(2.0, 8.0), elements=None, boundary=True):
    a = round(draw(floats(*cell_xy)), 3)
    b = round(draw(floats(*cell_xy)), 3)
    c = round(draw(floats(*cell_z)), 3)
    n = draw(st.integers(min_atoms, max_atoms))
    els = elements or ELEMENTS
    species = draw(st.lists(st.sampled_from(els), min_size=1, max_size=3, unique=True))
    numbers = [draw(st.sampled_from(species)) for _ in range(n)]
    pos = []
    for _ in range(n):
        kind = draw(st.sampled_from(["in", "in", "in", "edge", "out"] if boundary else ["in"]))
        if kind == "in":
            p = [draw(floats(0, 1)) * a, draw(floats(0, 1)) * b, draw(floats(0, 1)) * c]
        elif kind == "edge":
            p = [draw(st.sampled_from([0.0, a / 2, a])), draw(st.sampled_from([0.0, b / 2, b])), draw(floats(0, 1)) * c]
        else:
            p = [draw(floats(-0.5, 1.5)) * a, draw(floats(-0.5, 1.5)) * b, draw(floats(0, 1)) * c]
        pos.append([round(x, 4) for x in p])
    return {"cell": [a, b, c], "numbers": numbers, "positions": pos}


def make_atoms(spec):
    from ase import Atoms

    return Atoms(numbers=spec["numbers"], positions=np.array(spec["positions"], dtype=float).reshape(-1, 3), cell=spec["cell"], pbc=True)


# ------------------------------------------------------------------ grids
@st.composite
def gpts2d(draw, lo=6, hi=32):
    return [draw(st.integers(lo, hi)), draw(st.integers(lo, hi))]


@st.composite
def grid_spec(draw, lo=6, hi=32, extent=(3.0, 9.0)):
    g = draw(gpts2d(lo, hi))
    e = [round(draw(floats(*extent)), 3), round(draw(floats(*extent)), 3)]
    return {"gpts": g, "extent": e}


def energies():
    return st.sampled_from([40e3, 60e3, 80e3, 100e3, 200e3, 300e3]) | st.integers(30, 300).map(lambda k: k * 1e3)


# ------------------------------------------------------------------ arrays
def rand_complex(shape, seed, dtype=np.complex64):
    rng = np.random.default_rng(seed)
    return (rng.standard_normal(shape) + 1j * rng.standard_normal(shape)).astype(dtype)


def rand_real(shape, seed, dtype=np.float32, positive=False):
    rng = np.random.default_rng(seed)
    a = rng.standard_normal(shape)
    if positive:
        a = np.abs(a)
    return a.astype(dtype)


def bandlimited_complex(shape, seed, frac=0.45, dtype=np.complex64):
    """Random complex array (last two axes = image) whose spectrum vanishes outside
    |k| < frac * k_nyquist_min in *index* units of each axis (elliptical)."""
    rng = np.random.default_rng(seed)
    ny, nx = shape[-2], shape[-1]
    ky = np.fft.fftfreq(ny)[:, None] / 0.5
    kx = np.fft.fftfreq(nx)[None, :] / 0.5
    mask = (ky**2 + kx**2) < frac**2
    spec = (rng.standard_normal(shape) + 1j * rng.standard_normal(shape)) * mask
    return np.fft.ifft2(spec).astype(dtype)


# ------------------------------------------------------------------ chunks
@st.composite
def partition(draw, n, max_parts=4):
    """A list of positive ints summing to n."""
    if n <= 1:
        return [n]
    k = draw(st.integers(1, min(n, max_parts)))
    if k == 1:
        return [n]
    cuts = sorted(draw(st.lists(st.integers(1, n - 1), min_size=k - 1, max_size=k - 1, unique=True)))
    edges = [0] + cuts + [n]
    return [b - a for a, b in zip(edges[:-1], edges[1:])]


# ------------------------------------------------------------------ comparing abTEM objects
def axes_to_plain(axes):
    """Axis metadata list -> comparable plain structure (class name + all fields)."""
    from abtem.core.axes import axis_to_dict

    out = []
    for a in axes:
        d = axis_to_dict(a)
        out.append(_plain(d))
    return out


def _plain(x):
    if isinstance(x, dict):
        return {str(k): _plain(v) for k, v in sorted(x.items(), key=lambda kv: str(kv[0]))}
    if isinstance(x, (list, tuple)):
        return [_plain(v) for v in x]
    if isinstance(x, np.ndarray):
        return _plain(x.tolist())
    if isinstance(x, np.generic):
        return x.item()
    return x


def plain(x):
    return _plain(x)


def approx_equal_plain(a, b, rtol=1e-6):
    """Structural equality of plain structures with a relative tolerance on floats."""
    if isinstance(a, dict) and isinstance(b, dict):
        return a.keys() == b.keys() and all(approx_equal_plain(a[k], b[k], rtol) for k in a)
    if isinstance(a, list) and isinstance(b, list):
        return len(a) == len(b) and all(approx_equal_plain(x, y, rtol) for x, y in zip(a, b))
    if isinstance(a, bool) or isinstance(b, bool):
        return a == b
    if isinstance(a, (int, float)) and isinstance(b, (int, float)):
        if a == b:
            return True
        return abs(a - b) <= rtol * max(abs(a), abs(b))
    return a == b
