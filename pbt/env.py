"""Global state of the code under test: restored at the top of every evaluation."""
from __future__ import annotations

import copy
import warnings

_BASE = None


def _init():
    global _BASE
    import abtem
    import dask

    warnings.filterwarnings("ignore")
    cfg = abtem.config.config
    # the checks' base configuration: the user-default FFT backend with cheap planning,
    # no progress bars; everything else as shipped.
    cfg["fftw"]["planning_effort"] = "FFTW_ESTIMATE"
    cfg["diagnostics"]["progress_bar"] = False
    cfg["diagnostics"]["task_progress"] = False
    cfg["warnings"]["overspecified-grid"] = False
    dask.config.set(scheduler="synchronous")
    _BASE = copy.deepcopy(cfg)


def reset():
    import abtem

    if _BASE is None:
        _init()
        return
    cfg = abtem.config.config
    if cfg != _BASE:
        cfg.clear()
        cfg.update(copy.deepcopy(_BASE))


def base_config():
    if _BASE is None:
        _init()
    return copy.deepcopy(_BASE)
