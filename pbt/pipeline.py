"""Simulation-pipeline generator shared by C01, C02, C06, C07 (and usable by others).

A pipeline *spec* is plain JSON: atoms, grid, potential kind/slicing/exit planes,
builder (Probe/PlaneWave), scan, detectors.  ``make_*`` build abTEM objects from it.
Angles (probe cutoff, detector limits) are stored as *fractions of the grid's smallest
antialias cutoff angle* so that generated limits are inside the simulated range by
construction; the absolute values are resolved once the grid is known.
"""

from __future__ import annotations

import numpy as np
from hypothesis import strategies as st

from pbt import gen

# ---------------------------------------------------------------------------- strategies


@st.composite
def slicing_spec(draw, cell_z, max_slices=6):
    """Scalar slice thickness or an explicit sequence summing to cell_z."""
    if draw(st.booleans()):
        n = draw(st.integers(1, max_slices))
        # a scalar that gives n slices: thickness/n (abTEM re-divides evenly)
        return {"kind": "scalar", "value": round(cell_z / n * draw(st.sampled_from([1.0, 0.999, 0.9])), 6) if n > 1 else cell_z}
    n = draw(st.integers(1, max_slices))
    w = [draw(st.integers(1, 5)) for _ in range(n)]
    tot = sum(w)
    return {"kind": "sequence", "weights": w, "total": tot}


def resolve_slicing(spec, cell_z):
    if spec["kind"] == "scalar":
        return float(spec["value"])
    w = np.array(spec["weights"], dtype=float)
    th = w / w.sum() * cell_z
    return tuple(float(t) for t in th)


def num_slices_of(spec, cell_z):
    if spec["kind"] == "scalar":
        return int(np.ceil(cell_z / spec["value"]))
    return len(spec["weights"])


@st.composite
def exit_planes_spec(draw, num_slices, allow_none=True, force_multi=False):
    kinds = ["int", "tuple"] if force_multi else ["none", "int", "tuple"]
    if not allow_none and "none" in kinds:
        kinds.remove("none")
    kind = draw(st.sampled_from(kinds))
    if kind == "none" or num_slices < 1:
        return None
    if kind == "int":
        return draw(st.integers(1, max(1, num_slices)))
    # explicit increasing tuple of slice indices (exit after slice index p), optionally with -1
    k = draw(st.integers(1, min(4, num_slices)))
    planes = sorted(draw(st.lists(st.integers(0, num_slices - 1), min_size=k, max_size=k, unique=True)))
    # abTEM requires the last slice to be an exit plane? (it appends it) - keep generic
    if draw(st.booleans()):
        planes = [-1] + planes
    return planes


@st.composite
def potential_spec(draw, kinds=("atoms", "fp", "fp_mean", "atoms_ensemble", "crystal", "array"), max_slices=6, max_configs=3, finite_fraction=0.1, exit_planes=True, force_multi_exit=False):
    atoms = draw(gen.atoms_spec(max_atoms=4))
    kind = draw(st.sampled_from(list(kinds)))
    cell_z = atoms["cell"][2]
    slicing = draw(slicing_spec(cell_z, max_slices=max_slices))
    ns = num_slices_of(slicing, cell_z)
    spec = {
        "kind": kind,
        "atoms": atoms,
        "slicing": slicing,
        "parametrization": draw(st.sampled_from(["lobato", "lobato", "kirkland"])),
        "projection": "finite" if draw(st.floats(0, 1)) < finite_fraction else "infinite",
    }
    reps_z = 1
    if kind in ("fp", "fp_mean", "atoms_ensemble"):
        spec["num_configs"] = draw(st.integers(1, max_configs))
        spec["sigma"] = draw(st.sampled_from([0.05, 0.1, 0.2]))
        spec["seed"] = draw(st.integers(0, 10000))
        spec["ensemble_mean"] = kind == "fp_mean" or (kind == "atoms_ensemble" and draw(st.booleans()))
    if kind == "crystal":
        spec["repetitions"] = [draw(st.integers(1, 2)), draw(st.integers(1, 2)), draw(st.integers(1, 2))]
        reps_z = spec["repetitions"][2]
        spec["num_frozen_phonons"] = draw(st.sampled_from([None, None, 1, 2, 3]))
        spec["seeds"] = draw(st.integers(0, 10000)) if spec["num_frozen_phonons"] else None
        spec["ensemble_mean"] = draw(st.booleans())
        spec["unit_configs"] = draw(st.integers(1, 3)) if spec["num_frozen_phonons"] else 0
        spec["sigma"] = 0.1
        spec["projection"] = "infinite"
    if kind == "array":
        spec["array_configs"] = draw(st.sampled_from([0, 0, 2, 3]))
        spec["sigma"] = 0.1
        spec["seed"] = draw(st.integers(0, 10000))
    if exit_planes:
        if kind == "crystal":
            # CrystalPotential accepts an int only
            spec["exit_planes"] = draw(st.sampled_from([None, None, 1, 2, 3])) if not force_multi_exit else draw(st.integers(1, 2))
        else:
            spec["exit_planes"] = draw(exit_planes_spec(ns * reps_z, force_multi=force_multi_exit))
    else:
        spec["exit_planes"] = None
    return spec


@st.composite
def detector_spec(draw, need_scan_ok=True):
    kind = draw(st.sampled_from(["waves", "annular", "flex", "segmented", "pixelated", "annular", "pixelated"]))
    d = {"kind": kind}
    if kind == "annular":
        a = draw(gen.floats(0.0, 0.6))
        d["inner"] = round(a, 3)
        d["outer"] = None if draw(st.integers(0, 4)) == 0 else round(a + draw(gen.floats(0.1, 0.38)), 3)
    elif kind == "flex":
        d["step"] = draw(st.sampled_from([1.0, 1.0, 0.5, 2.0]))
    elif kind == "segmented":
        a = draw(gen.floats(0.0, 0.5))
        d["inner"] = round(a, 3)
        d["outer"] = round(a + draw(gen.floats(0.15, 0.45)), 3)
        d["nr"] = draw(st.integers(1, 3))
        d["na"] = draw(st.integers(1, 4))
        d["rotation"] = draw(st.sampled_from([0.0, 0.5, 2.0]))
    elif kind == "pixelated":
        d["max_angle"] = draw(st.sampled_from(["valid", "cutoff", "full", "frac"]))
        d["frac"] = round(draw(gen.floats(0.2, 0.9)), 3)
    return d


@st.composite
def scan_spec(draw, cell):
    kind = draw(st.sampled_from(["none", "custom", "line", "grid", "grid"]))
    a, b = cell[0], cell[1]
    if kind == "none":
        return {"kind": "none"}
    if kind == "custom":
        n = draw(st.integers(1, 5))
        return {"kind": "custom", "positions": [[round(draw(gen.floats(0, 1)) * a, 3), round(draw(gen.floats(0, 1)) * b, 3)] for _ in range(n)]}
    if kind == "line":
        start = [round(draw(gen.floats(0, 1)) * a, 3), round(draw(gen.floats(0, 1)) * b, 3)]
        end = [round(draw(gen.floats(0, 1)) * a, 3), round(draw(gen.floats(0, 1)) * b, 3)]
        if abs(end[0] - start[0]) + abs(end[1] - start[1]) < 0.05:
            # a zero-length line has no direction: not a scan abTEM documents
            end = [round(start[0] + 0.5 * a, 3), round(start[1] + 0.25 * b, 3)]
        n = draw(st.integers(1, 5))
        return {"kind": "line", "start": start, "end": end, "gpts": n, "endpoint": draw(st.booleans()) and n > 1}
    gpts = [draw(st.integers(1, 4)), draw(st.integers(1, 4))]
    # a one-point axis that must also end on the end point is contradictory (its sampling
    # is 0/0; abTEM rejects the zero-extent sub-scans it leads to): endpoint only for >=2
    endpoint = [draw(st.booleans()) and n > 1 for n in gpts]
    return {
        "kind": "grid",
        "start": [0.0, 0.0],
        "end": [round(draw(gen.floats(0.2, 1)) * a, 3), round(draw(gen.floats(0.2, 1)) * b, 3)],
        "gpts": gpts,
        "endpoint": endpoint,
    }


@st.composite
def builder_spec(draw, kinds=("probe", "probe", "planewave")):
    kind = draw(st.sampled_from(list(kinds)))
    b = {"kind": kind, "energy": draw(st.sampled_from([60e3, 80e3, 100e3, 200e3, 300e3]))}
    if kind == "probe":
        b["semiangle"] = round(draw(gen.floats(0.25, 0.85)), 3)  # fraction of the smallest cutoff angle
        b["soft"] = draw(st.booleans())
        ab = {}
        if draw(st.booleans()):
            ab["defocus"] = float(draw(st.integers(-100, 100)))
        if draw(st.integers(0, 3)) == 0:
            ab["Cs"] = float(draw(st.integers(-20, 20)) * 1e4)
        if draw(st.integers(0, 3)) == 0:
            ab["astigmatism"] = float(draw(st.integers(0, 50)))
            ab["astigmatism_angle"] = round(draw(gen.floats(0, 3.1)), 2)
        if draw(st.integers(0, 4)) == 0:
            ab["coma"] = float(draw(st.integers(0, 1000)))
            ab["coma_angle"] = round(draw(gen.floats(0, 3.1)), 2)
        b["aberrations"] = ab
        b["tilt"] = [0.0, 0.0] if draw(st.booleans()) else [float(draw(st.integers(-10, 10))), float(draw(st.integers(-10, 10)))]
    else:
        b["normalize"] = draw(st.booleans())
        b["tilt"] = [0.0, 0.0] if draw(st.booleans()) else [float(draw(st.integers(-10, 10))), float(draw(st.integers(-10, 10)))]
    return b


def sound_gpts(g, pot):
    """A grid on which something can be detected: the antialias cutoff (2/3 of the smaller
    Nyquist frequency) must span at least two reciprocal-space pixels along either axis,
    otherwise `cutoff_angles` is 0 along the finer-sampled axis and every detector range is
    empty (abTEM then refuses: "number of bins must be greater than zero")."""
    cell = list(pot["atoms"]["cell"][:2])
    if pot["kind"] == "crystal":
        cell = [cell[0] * pot["repetitions"][0], cell[1] * pot["repetitions"][1]]
    g = list(g)
    for _ in range(4):
        k = min(g[0] / cell[0], g[1] / cell[1]) / 3.0  # cutoff in 1/A
        for i in range(2):
            if k * cell[i] < 2.05:
                j = 1 - i
                # raise the coarser axis' gpts (it limits k)
                lim = 0 if g[0] / cell[0] < g[1] / cell[1] else 1
                g[lim] = int(np.ceil(3.0 * 2.05 / cell[i] * cell[lim])) + 1
    return g


@st.composite
def pipeline_spec(draw, potential_kinds=("atoms", "fp", "fp_mean", "atoms_ensemble", "crystal", "array"), builders=("probe", "probe", "planewave"), max_detectors=3, gpts=(8, 24), **potkw):
    pot = draw(potential_spec(kinds=potential_kinds, **potkw))
    g = [draw(st.integers(*gpts)), draw(st.integers(*gpts))]
    g = sound_gpts(g, pot)
    b = draw(builder_spec(kinds=builders))
    spec = {"potential": pot, "gpts": g, "builder": b}
    if b["kind"] == "probe":
        cell = list(pot["atoms"]["cell"])
        if pot["kind"] == "crystal":
            cell = [cell[0] * pot["repetitions"][0], cell[1] * pot["repetitions"][1], cell[2]]
        spec["scan"] = draw(scan_spec(cell))
    else:
        spec["scan"] = {"kind": "none"}
    spec["detectors"] = [draw(detector_spec()) for _ in range(draw(st.integers(1, max_detectors)))]
    return spec


# ---------------------------------------------------------------------------- builders


def make_frozen_phonons(pot):
    import abtem

    atoms = gen.make_atoms(pot["atoms"])
    if pot["kind"] in ("fp", "fp_mean"):
        return abtem.FrozenPhonons(atoms, pot["num_configs"], pot["sigma"], seed=pot["seed"], ensemble_mean=pot["ensemble_mean"])
    if pot["kind"] == "atoms_ensemble":
        fp = abtem.FrozenPhonons(atoms, pot["num_configs"], pot["sigma"], seed=pot["seed"])
        return abtem.AtomsEnsemble(list(fp), ensemble_mean=pot["ensemble_mean"])
    return atoms


def make_potential(pot, gpts, exit_planes="spec"):
    """Build the abTEM potential object described by the spec."""
    import abtem

    atoms = gen.make_atoms(pot["atoms"])
    cell_z = pot["atoms"]["cell"][2]
    st_ = resolve_slicing(pot["slicing"], cell_z)
    ep = pot.get("exit_planes") if exit_planes == "spec" else exit_planes
    if isinstance(ep, list):
        ep = tuple(ep)
    common = dict(slice_thickness=st_, parametrization=pot["parametrization"], projection=pot["projection"])
    kind = pot["kind"]
    if kind == "atoms":
        return abtem.Potential(atoms, gpts=tuple(gpts), exit_planes=ep, **common)
    if kind in ("fp", "fp_mean", "atoms_ensemble"):
        return abtem.Potential(make_frozen_phonons(pot), gpts=tuple(gpts), exit_planes=ep, **common)
    if kind == "crystal":
        if pot["num_frozen_phonons"]:
            unit_atoms = abtem.FrozenPhonons(atoms, pot["unit_configs"], pot["sigma"], seed=pot["seeds"])
        else:
            unit_atoms = atoms
        unit = abtem.Potential(unit_atoms, gpts=tuple(gpts), **common)
        return abtem.CrystalPotential(
            unit,
            repetitions=tuple(pot["repetitions"]),
            num_frozen_phonons=pot["num_frozen_phonons"],
            exit_planes=ep,
            seeds=pot["seeds"],
            ensemble_mean=pot["ensemble_mean"],
        )
    if kind == "array":
        if pot["array_configs"]:
            src = abtem.FrozenPhonons(atoms, pot["array_configs"], pot["sigma"], seed=pot["seed"], ensemble_mean=False)
        else:
            src = atoms
        built = abtem.Potential(src, gpts=tuple(gpts), **common).build(lazy=False)
        return abtem.PotentialArray(
            built.array.copy(),
            slice_thickness=built.slice_thickness,
            sampling=built.sampling,
            exit_planes=ep,
            ensemble_axes_metadata=built.ensemble_axes_metadata,
        )
    raise ValueError(kind)


def make_builder(b, potential):
    import abtem

    if b["kind"] == "probe":
        probe = abtem.Probe(semiangle_cutoff=1.0, energy=b["energy"], soft=b["soft"], tilt=tuple(b["tilt"]))
        probe.grid.match(potential)
        cut = min(probe.cutoff_angles)
        probe = abtem.Probe(semiangle_cutoff=b["semiangle"] * cut, energy=b["energy"], soft=b["soft"], tilt=tuple(b["tilt"]), **b["aberrations"])
        probe.grid.match(potential)
        return probe, cut
    pw = abtem.PlaneWave(energy=b["energy"], normalize=b["normalize"], tilt=tuple(b["tilt"]))
    pw.grid.match(potential)
    return pw, min(pw.cutoff_angles)


def make_scan(s):
    import abtem

    if s["kind"] == "none":
        return None
    if s["kind"] == "custom":
        return abtem.CustomScan(np.array(s["positions"], dtype=float).reshape(-1, 2))
    if s["kind"] == "line":
        return abtem.LineScan(start=tuple(s["start"]), end=tuple(s["end"]), gpts=s["gpts"], endpoint=s["endpoint"])
    return abtem.GridScan(start=tuple(s["start"]), end=tuple(s["end"]), gpts=tuple(s["gpts"]), endpoint=tuple(s["endpoint"]))


def make_detectors(specs, cut):
    import abtem

    out = []
    for d in specs:
        k = d["kind"]
        if k == "waves":
            out.append(abtem.WavesDetector())
        elif k == "annular":
            out.append(abtem.AnnularDetector(inner=d["inner"] * cut, outer=None if d["outer"] is None else d["outer"] * cut))
        elif k == "flex":
            out.append(abtem.FlexibleAnnularDetector(step_size=d["step"]))
        elif k == "segmented":
            out.append(abtem.SegmentedDetector(nbins_radial=d["nr"], nbins_azimuthal=d["na"], inner=d["inner"] * cut, outer=d["outer"] * cut, rotation=d["rotation"]))
        elif k == "pixelated":
            ma = d["max_angle"]
            out.append(abtem.PixelatedDetector(max_angle=d["frac"] * cut if ma == "frac" else ma))
        else:
            raise ValueError(k)
    return out


def run_pipeline(spec, lazy, max_batch="auto", potential=None, scheduler=None):
    """Run the pipeline and return a list of *computed* outputs (one per detector)."""
    import dask

    pot = potential if potential is not None else make_potential(spec["potential"], spec["gpts"])
    builder, cut = make_builder(spec["builder"], pot)
    dets = make_detectors(spec["detectors"], cut)
    if spec["builder"]["kind"] == "probe":
        out = builder.multislice(pot, scan=make_scan(spec["scan"]), detectors=dets, max_batch=max_batch, lazy=lazy)
    else:
        out = builder.multislice(pot, detectors=dets, max_batch=max_batch, lazy=lazy)
    if not isinstance(out, (list, tuple)):
        out = [out]
    out = list(out)
    if lazy:
        blocks = [getattr(o.array, "numblocks", None) for o in out]
        if scheduler is None:
            out = [o.compute() for o in out]
        else:
            with dask.config.set(scheduler=scheduler[0], num_workers=scheduler[1]):
                out = [o.compute() for o in out]
        return out, blocks
    return out, None


def describe(obj):
    """Comparable description of an abTEM array object (everything except values)."""
    return {
        "type": type(obj).__name__,
        "shape": list(obj.shape),
        "dtype": str(obj.array.dtype),
        "axes": gen.axes_to_plain(obj.axes_metadata),
        "metadata": gen.plain(obj.metadata),
    }
