"""Core of the property-based checking machinery (see DESIGN.md section 2).

A *claim* is one generated-input check: a Hypothesis strategy that draws a plain
JSON-serialisable ``case`` and a ``check(case, ctx)`` function holding the oracle.
Because the case is plain data, a failing case *is* the replay file, and replaying
needs no Hypothesis at all (``python -m pbt.replay <file>``).

This module implements: the claim registry, the collect-then-shrink loop with
buckets, known findings, the replay tier, evidence writing and exit codes.
"""

from __future__ import annotations

import hashlib
import importlib
import json
import os
import sys
import time
import traceback
from collections import Counter
from dataclasses import dataclass, field
from pathlib import Path
from typing import Any, Callable, Optional

VERIF_DIR = Path(__file__).resolve().parent.parent
REPO = Path(os.environ.get("VERIF_REPO", "/repo")).resolve()
KNOWN_FINDINGS_FILE = VERIF_DIR / "known_findings.json"
MAX_NEW_BUCKETS = 8


# --------------------------------------------------------------------------- errors
class Violation(AssertionError):
    """The property is violated on this case.  ``bucket`` is a short, stable
    signature of *which* violation it is (derived from the failing input / clause)."""

    def __init__(self, msg: str, bucket: tuple = ()):
        super().__init__(msg)
        self.bucket = tuple(str(b) for b in bucket)


class HarnessError(Exception):
    """Something is wrong with the checking machinery itself (exit code 2)."""


# --------------------------------------------------------------------------- context
class Ctx:
    """Per-evaluation context handed to ``check``: labels and non-triviality."""

    def __init__(self, replay: bool = False):
        self.labels: list[str] = []
        self.is_nontrivial = False
        self.replay = replay
        self.skipped = 0
        self.notes: dict[str, Any] = {}

    def label(self, name: str, cond: bool = True):
        if cond:
            self.labels.append(str(name))

    def nontrivial(self, cond: bool = True):
        if cond:
            self.is_nontrivial = True

    def skip(self, n: int = 1):
        """Count sub-comparisons that were skipped on purpose (e.g. pixels on an
        edge within float tolerance)."""
        self.skipped += n

    def note(self, key: str, value: Any):
        self.notes[key] = value


# --------------------------------------------------------------------------- claims
@dataclass
class Claim:
    prop: str
    name: str
    strategy: Callable[[], Any]  # () -> hypothesis strategy of JSON-able cases
    check: Callable[[dict, Ctx], None]
    quick: int = 200
    thorough: int = 4000
    tol: str = "exact"
    rule: str = ""  # the non-triviality rule, verbatim for the evidence
    floors: dict = field(default_factory=dict)  # label -> minimal fraction
    nontrivial_floor: float = 0.0
    max_shrink_calls: int = 400


_REGISTRY: dict[str, dict[str, Claim]] = {}


def claim(prop: str, name: str, strategy, **kw):
    """Decorator registering ``check`` as a claim of property ``prop``."""

    def deco(fn):
        c = Claim(prop=prop, name=name, strategy=strategy, check=fn, **kw)
        _REGISTRY.setdefault(prop, {})[name] = c
        return fn

    return deco


def load_property(prop: str) -> dict[str, Claim]:
    importlib.import_module(f"pbt.props.{prop.lower()}")
    if prop not in _REGISTRY:
        raise HarnessError(f"no claims registered for {prop}")
    return _REGISTRY[prop]


def assert_repo():
    """The code under test must be the working tree of REPO."""
    import abtem

    f = Path(abtem.__file__).resolve()
    if REPO not in f.parents:
        raise HarnessError(f"abtem imported from {f}, expected under {REPO}")


# --------------------------------------------------------------------------- helpers
def case_hash(case) -> str:
    return hashlib.sha1(
        json.dumps(case, sort_keys=True, default=str).encode()
    ).hexdigest()[:16]


def exception_bucket(exc: BaseException) -> tuple:
    """Bucket for an exception that is not a Violation: (type, innermost abtem
    frame).  No abtem frame => the harness itself is at fault."""
    tb = traceback.extract_tb(exc.__traceback__)
    inner = None
    for fr in tb:
        fn = fr.filename.replace("\\", "/")
        if "/abtem/" in fn and "/pbt/" not in fn:
            inner = (Path(fn).name, fr.name)
    if inner is None:
        return ("harness", type(exc).__name__)
    return ("raises", type(exc).__name__, inner[0], inner[1])


def bucket_of(exc: BaseException) -> tuple:
    if isinstance(exc, Violation):
        return exc.bucket or ("violation",)
    return exception_bucket(exc)


def load_known_findings() -> list[dict]:
    out = []
    if KNOWN_FINDINGS_FILE.exists():
        out.extend(json.loads(KNOWN_FINDINGS_FILE.read_text()).get("findings", []))
    # development only: per-property proposals, merged into known_findings.json before commit
    d = VERIF_DIR / "known_findings.d"
    if d.exists():
        for p in sorted(d.glob("*.json")):
            out.extend(json.loads(p.read_text()).get("findings", []))
    return out


def open_buckets(prop: str, claim_name: str) -> set[tuple]:
    out = set()
    for f in load_known_findings():
        if (
            f.get("property") == prop
            and f.get("claim") == claim_name
            and f.get("status") == "open"
        ):
            out.add(tuple(str(b) for b in f["bucket"]))
    return out


def bucket_matches(bucket: tuple, known: set[tuple]) -> bool:
    """A known bucket matches when it equals the bucket or is a prefix of it
    ending in '*'."""
    if bucket in known:
        return True
    for k in known:
        if k and k[-1] == "*" and bucket[: len(k) - 1] == k[:-1]:
            return True
    return False


def reset_abtem_state():
    """Restore global abTEM/dask state at the top of every evaluation."""
    from pbt import env

    env.reset()


# --------------------------------------------------------------------------- one claim
def evaluate(c: Claim, case: dict, replay: bool = False):
    """Run the oracle once. Returns (ctx, exc or None)."""
    ctx = Ctx(replay=replay)
    reset_abtem_state()
    try:
        c.check(case, ctx)
    except (KeyboardInterrupt, SystemExit, MemoryError):
        raise
    except BaseException as e:  # noqa: BLE001 - classified below, never swallowed
        return ctx, e
    return ctx, None


def run_claim_shard(prop: str, name: str, n_examples: int, seed: int, tier: str) -> dict:
    """Collect-then-shrink loop for one claim (one shard).  Pure function of
    (tree, seed, n_examples)."""
    import hypothesis
    from hypothesis import HealthCheck, Phase, given, settings

    claims = load_property(prop)
    assert_repo()
    c = claims[name]
    known = open_buckets(prop, name)
    excluded: set[tuple] = set()
    res = {
        "claim": name,
        "seed": seed,
        "examples_requested": n_examples,
        "evaluations": 0,
        "nontrivial_hashes": set(),
        "labels": Counter(),
        "skipped": 0,
        "excluded": Counter(),
        "known_seen": Counter(),
        "failures": [],
        "samples": [],
        "harness_error": None,
        "tol": c.tol,
        "passes": 0,
    }
    sample_keys: Counter = Counter()
    t0 = time.time()

    for rnd in range(MAX_NEW_BUCKETS + 1):
        st = {"last": None, "fail_calls": 0}

        def body(case):
            ctx, exc = evaluate(c, case)
            res["evaluations"] += 1
            for lab in ctx.labels:
                res["labels"][lab] += 1
            res["skipped"] += ctx.skipped
            if ctx.is_nontrivial:
                res["labels"]["nontrivial"] += 1
                res["nontrivial_hashes"].add(case_hash(case))
            key = ("N|" if ctx.is_nontrivial else "t|") + "|".join(sorted(set(ctx.labels)))[:200]
            if len(res["samples"]) < 20 and sample_keys[key] < 2 and (ctx.is_nontrivial or sample_keys["_trivial"] < 2):
                sample_keys["_trivial"] += 0 if ctx.is_nontrivial else 1
                sample_keys[key] += 1
                res["samples"].append({"claim": name, "nontrivial": ctx.is_nontrivial, "labels": sorted(set(ctx.labels)), "case": case})
            if exc is None:
                return
            b = bucket_of(exc)
            if b[0] == "harness":
                st["last"] = (case, exc, b)
                raise exc
            if bucket_matches(b, known):
                res["known_seen"]["/".join(b)] += 1
                return
            if b in excluded:
                res["excluded"]["/".join(b)] += 1
                return
            st["fail_calls"] += 1
            if st["fail_calls"] > c.max_shrink_calls:
                # shrink budget used up: stop offering failures; Hypothesis ends the
                # shrink (possibly with a Flaky error, handled below)
                return
            st["last"] = (case, exc, b)
            raise exc

        test = given(c.strategy())(body)
        test = settings(
            max_examples=n_examples,
            database=None,
            deadline=None,
            report_multiple_bugs=False,
            derandomize=False,
            suppress_health_check=[HealthCheck.too_slow, HealthCheck.data_too_large],
            phases=[Phase.generate, Phase.shrink],
            print_blob=False,
        )(test)
        test = hypothesis.seed(seed + 7919 * rnd)(test)
        try:
            test()
        except (KeyboardInterrupt, SystemExit):
            raise
        except BaseException as e:  # noqa: BLE001
            if st["last"] is None:
                res["harness_error"] = "".join(
                    traceback.format_exception(type(e), e, e.__traceback__)
                )[-4000:]
                break
            case, exc, b = st["last"]
            if b[0] == "harness":
                res["harness_error"] = "".join(
                    traceback.format_exception(type(exc), exc, exc.__traceback__)
                )[-4000:]
                res["harness_case"] = case
                break
            res["failures"].append(
                {
                    "claim": name,
                    "bucket": list(b),
                    "case": case,
                    "message": f"{type(exc).__name__}: {exc}"[:2000],
                    "trace": "".join(
                        traceback.format_exception(type(exc), exc, exc.__traceback__)
                    )[-3000:],
                }
            )
            excluded.add(b)
            continue
        else:
            res["passes"] += 1
            break
    res["wall_s"] = time.time() - t0
    res["nontrivial_hashes"] = sorted(res["nontrivial_hashes"])
    res["labels"] = dict(res["labels"])
    res["excluded"] = dict(res["excluded"])
    res["known_seen"] = dict(res["known_seen"])
    return res


def _shard_entry(args):
    prop, name, n, seed, tier = args
    try:
        return run_claim_shard(prop, name, n, seed, tier)
    except BaseException as e:  # noqa: BLE001
        return {
            "claim": name,
            "seed": seed,
            "evaluations": 0,
            "nontrivial_hashes": [],
            "labels": {},
            "skipped": 0,
            "excluded": {},
            "known_seen": {},
            "failures": [],
            "samples": [],
            "tol": "",
            "examples_requested": n,
            "wall_s": 0.0,
            "harness_error": "".join(traceback.format_exception(type(e), e, e.__traceback__))[-4000:],
        }


# --------------------------------------------------------------------------- replays
def replay_file(path: Path) -> dict:
    """Re-execute one replay file. Returns dict(status=pass|fail|harness, bucket, message)."""
    data = json.loads(Path(path).read_text())
    claims = load_property(data["property"])
    if data["claim"] not in claims:
        return {"status": "harness", "bucket": ("harness", "unknown-claim"), "message": f"unknown claim {data['claim']}"}
    c = claims[data["claim"]]
    ctx, exc = evaluate(c, data["case"], replay=True)
    if exc is None:
        return {"status": "pass", "bucket": None, "message": "", "notes": ctx.notes}
    b = bucket_of(exc)
    msg = f"{type(exc).__name__}: {exc}"[:2000]
    if b[0] == "harness":
        msg += "\n" + "".join(traceback.format_exception(type(exc), exc, exc.__traceback__))[-3000:]
        return {"status": "harness", "bucket": b, "message": msg}
    return {"status": "fail", "bucket": b, "message": msg}


def write_replay(prop: str, failure: dict) -> Path:
    # VERIF_REPLAY_OUT: where NEW replays are written (mutant runs use a scratch dir)
    d = Path(os.environ.get("VERIF_REPLAY_OUT", VERIF_DIR / "replays")) / prop
    d.mkdir(parents=True, exist_ok=True)
    h = hashlib.sha1(("/".join(failure["bucket"])).encode()).hexdigest()[:8]
    p = d / f"{failure['claim']}-{h}.json"
    if p.exists():
        # a committed replay for this bucket exists; write the new case next to it
        p = d / f"{failure['claim']}-{h}-new.json"
    p.write_text(
        json.dumps(
            {
                "property": prop,
                "claim": failure["claim"],
                "bucket": failure["bucket"],
                "message": failure["message"],
                "case": failure["case"],
            },
            indent=1,
            sort_keys=True,
            default=str,
        )
    )
    return p
